#!/venv/bin/python
"""Developer tool: regenerate MANIFEST.json from the check modules' metadata."""
import importlib
import json
import os
import sys

VERIF = os.path.dirname(os.path.dirname(os.path.abspath(__file__)))
sys.path[:0] = ["/repo", VERIF, os.path.join(VERIF, ".deps")]

props = [json.loads(l) for l in open(os.path.join(VERIF, "properties.jsonl")) if l.strip()]
checks = []
na = []
for p in props:
    pid = p["id"]
    path = os.path.join(VERIF, "harness", "checks", pid.lower() + ".py")
    if not os.path.exists(path):
        na.append({"property_id": pid, "reason": "not claimed: the runtime monitor designed for it (DESIGN.md section 4) was not built in the time available; no other technique was substituted"})
        continue
    mod = importlib.import_module(f"harness.checks.{pid.lower()}")
    if getattr(mod, "NOT_CLAIMED", None):
        na.append({"property_id": pid, "reason": mod.NOT_CLAIMED})
        continue
    checks.append(
        {
            "property_id": pid,
            "quick_cmd": f"./check {pid} --tier quick",
            "thorough_cmd": f"./check {pid} --tier thorough",
            "evidence_file": f"evidence/{pid}.json",
            "replay_cmd_template": f"./check {pid} --replay {{path}}",
            "engine": "harness",
            "level_claimed": {
                "category": getattr(mod, "LEVEL", "exploration"),
                "text": getattr(mod, "LEVEL_TEXT", "Held on the monitored executions of this run only: the real code is run on generated/enumerated workloads under monitors and a deterministic oracle judges every execution; no claim beyond the explored cases."),
                "design_ref": f"DESIGN.md section 4, {pid}",
            },
            "level_note": getattr(mod, "LEVEL_NOTE", "Trusted: CPython 3.12, the harness oracle/reference model, the generators' reach. Runs that never reach the deciding monitor exit 2 (inconclusive)."),
            "technique": getattr(mod, "TECHNIQUE", "runtime monitoring"),
        }
    )

manifest = {
    "version": 1,
    "setup_cmd": "sh ./setup.sh",
    "hooks": {
        "guard": "LIQUID_VERIF",
        "enable": "LIQUID_VERIF=1 PYTHONPATH=/repo:/verif:/verif/.deps /venv/bin/python -m harness.cli <property> (set by ./check; all monitors are installed from the harness at run time, the repository carries no hook code)",
        "baseline_off_cmd": "cd /repo && /venv/bin/python -m pytest -ra -q -p no:cacheprovider --timeout=900 --continue-on-collection-errors",
        "source_commits": [],
        "add_only": True,
    },
    "engines": [
        {
            "name": "harness",
            "path": "harness/",
            "serves_properties": [c["property_id"] for c in checks],
            "kind_free_text": "runtime monitoring: boundary recorders, class-attribute hooks, icontract contracts, sys.monitoring step clock and anchor coverage, audit hooks, thread history checkers; reference-model / differential / invariant oracles over generated and enumerated workloads",
        }
    ],
    "checks": checks,
    "not_applicable": na,
    "notes": "Exit codes of ./check: 0 held on everything explored (KNOWN-FINDING lines for listed open findings), 1 VIOLATION, 2 INCONCLUSIVE (deciding monitor not reached). known_findings.json lists genuine defects by mechanism signature with pinned witnesses; fixed entries suppress nothing. See DESIGN.md.",
}
with open(os.path.join(VERIF, "MANIFEST.json"), "w") as fd:
    json.dump(manifest, fd, indent=1)
    fd.write("\n")
try:
    import jsonschema

    jsonschema.validate(manifest, json.load(open("/root/.vp/MANIFEST.schema.json")))
    print("manifest valid;", len(checks), "checks,", len(na), "not_applicable")
except ImportError:
    print("written (jsonschema unavailable)")
