#!/usr/bin/env python3
"""Developer tool: per property, the functions of its anchor files that the last recorded run never entered."""
import json, glob, os, sys
REPO = os.environ.get("VERIF_REPO", "/repo")
props = {}
for l in open(os.path.join(os.path.dirname(__file__), "..", "properties.jsonl")):
    d = json.loads(l); props[d["id"]] = d
only = sys.argv[1:]
for f in sorted(glob.glob(os.path.join(os.path.dirname(__file__), "..", "evidence", "C*.json"))):
    d = json.load(open(f)); pid = d["property_id"]
    if only and pid not in only: continue
    c = d["coverage"]
    entered = set(c.get("anchor_functions_entered", []))
    files = sorted({e.split(":")[0] for e in entered} | set(c.get("anchor_lines_total_per_file", {})))
    print("==", pid, props[pid]["title"])
    for rel in files:
        path = os.path.join(REPO, rel)
        try: top = compile(open(path).read(), path, "exec")
        except Exception: continue
        allf = []
        stack = [top]
        while stack:
            k = stack.pop()
            for x in k.co_consts:
                if hasattr(x, "co_lines"):
                    stack.append(x)
                    if x.co_name not in ("<listcomp>", "<genexpr>", "<lambda>", "<dictcomp>", "<setcomp>") and not x.co_name[0].isupper():
                        allf.append(x.co_qualname)
        miss = sorted(q for q in allf if f"{rel}:{q}" not in entered and not q.endswith("__repr__"))
        if miss: print(f"  {rel}: {len(miss)}/{len(allf)} not entered: " + ", ".join(miss))
