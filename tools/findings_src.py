#!/venv/bin/python
"""Hand-maintained source of known_findings.json (developer tool, never run by a check).

Each entry: property, status (open|fixed), signature (mechanism, as produced by the check's
classifier), what, witnesses (cases in the check's own case format, replayed on every run),
and for fixed entries the /repo commit.  Run this file to regenerate known_findings.json.
"""
import json
import os
import sys

VERIF = os.path.dirname(os.path.dirname(os.path.abspath(__file__)))
sys.path[:0] = ["/repo", VERIF, os.path.join(VERIF, ".deps")]
from harness.gen import values as V  # noqa: E402

F = []


def add(prop, status, signature, what, witnesses, commit=None):
    e = {"property": prop, "status": status, "signature": signature, "what": what, "witnesses": witnesses}
    if commit:
        e["commit"] = commit
    F.append(e)


inf, nan = float("inf"), float("nan")


def c02(src, data=None, **kw):
    d = {"kind": "pinned", "source": src, "data": V.enc(data or {}), "mode": "strict", "extra": True}
    d.update(kw)
    return d


# ----------------------------------------------------------------------------- C02 fixed
add("C02", "fixed", "escape:OverflowError@builtin/filters/math.py:ceil", "ceil/floor/round of inf/nan, divided_by of a huge int and decimal arithmetic on inf/'1e999'/'nan' let OverflowError/ValueError/decimal.InvalidOperation escape render()",
    [c02("{{ l | ceil }}", {"l": inf}), c02("{{ l | floor }}", {"l": nan}), c02("{{ l | round }}", {"l": "1e999"}), c02("{{ l | minus: a }}", {"l": 1.5, "a": inf}),
     c02("{{ l | modulo: a }}", {"l": 1.5, "a": 0.0}), c02("{{ l | times: a }}", {"l": inf, "a": 0}), c02("{{ l | divided_by: a }}", {"l": 10**400, "a": 1.5}), c02("{{ l | plus: a }}", {"l": "nan", "a": 1.5})],
    "7a1bd7f")
add("C02", "fixed", "escape:TypeError@limits.py:to_int", "nil/list/inf reaching int() through range bounds, for/tablerow limit, offset, cols, translate count and truncate escaped as TypeError/OverflowError",
    [c02("{% for i in (a..3) %}{{ i }}{% endfor %}", {"a": None}), c02("{{ (a..b) | join: ',' }}", {"a": [1], "b": inf}), c02("{% tablerow i in xs cols: a %}{{ i }}{% endtablerow %}", {"xs": [1, 2], "a": None}),
     c02("{% for i in xs limit: a %}{{ i }}{% endfor %}", {"xs": [1, 2], "a": inf}), c02("{% translate count: a %}x{% plural %}y{% endtranslate %}", {"a": None}), c02("{{ 'abc' | truncate: a }}", {"a": inf}),
     c02("{{ 'a b c' | truncatewords: a }}", {"a": inf})],
    "7d76ac2")
add("C02", "fixed", "escape:ValueError@builtin/expressions/loop.py:LoopExpression._slice", "a negative loop limit reached islice() and raised ValueError",
    [c02("{% for i in xs limit: -1 %}{{ i }}{% endfor %}", {"xs": [1, 2, 3]}), c02("{% tablerow i in xs limit: a %}{{ i }}{% endtablerow %}", {"xs": [1, 2, 3], "a": -2})], "b357bcc")
add("C02", "fixed", "escape:AssertionError@context.py:RenderContext.get_async", "{{ [x] }} with a non-string x raised AssertionError from render_async",
    [c02("{{ [x] }}", {"x": 1}, **{"async": True}), c02("{% if [x] %}y{% endif %}", {"x": None}, **{"async": True})], "c1980cc")
add("C02", "fixed", "escape:UnicodeDecodeError@builtin/filters/string.py:base64_decode", "base64_decode / base64_url_safe_decode of non-UTF-8 payloads or non-ASCII input raised UnicodeDecodeError/ValueError",
    [c02("{{ l | base64_decode }}", {"l": "/w=="}), c02("{{ l | base64_url_safe_decode }}", {"l": "gICA"}), c02("{{ l | base64_url_safe_decode }}", {"l": "é"}), c02("{{ l | base64_decode }}", {"l": "日本語"})], "ffaee52")
add("C02", "fixed", "escape:KeyError@builtin/filters/array.py:compact", "compact: 'k' on items lacking the key raised KeyError; compact/uniq with an index past the end of a string item raised IndexError",
    [c02("{{ l | compact: 'k' | size }}", {"l": [{"k": 1}, {"j": 2}]}), c02("{{ l | compact: 5 | size }}", {"l": ["abc", ""]}), c02("{{ l | uniq: 5 | size }}", {"l": ["abc", ""]})], "1c1372d")
add("C02", "fixed", "escape:InvalidOperation@filter.py:decimal_arg", "sum of a string Decimal cannot parse raised decimal.InvalidOperation",
    [c02("{{ l | sum }}", {"l": ["nan x", 1]}), c02("{{ l | sum: 'k' }}", {"l": [{"k": "1e"}]})], "8f5037f")
add("C02", "fixed", "escape:TypeError@builtin/expressions/logical.py:_contains", "hash contains array raised TypeError (unhashable)",
    [c02("{% if h contains a %}y{% else %}n{% endif %}", {"h": {"a": 1}, "a": [1]})], "06f8ad2")

# ----------------------------------------------------------------------------- C02 open
add("C02", "open", "escape:ValueError[int-max-str-digits]", "stringifying an int with more than 4300 digits (sys.get_int_max_str_digits) raises ValueError from every place that converts a value to text",
    [c02("{{ l }}", {"l": 10**5000}), c02("{{ 'a' | append: l }}", {"l": 10**5000})])

# ----------------------------------------------------------------------------- C01 fixed
def c01(templates, data, loader="dict", main="main", env=None, load_kwargs=None):
    return {"templates": templates, "main": main, "data": V.enc(data), "loader": loader, "env": env or {}, "load_kwargs": load_kwargs or {}, "ntags": 1, "analyze": True}


add("C01", "fixed", "render-differs:ok-vs-AssertionError", "{{ [x] }} with a non-string x: render() gives undefined, render_async raised AssertionError",
    [c01({"main": "{{ [x] }}|{{ a[x] }}"}, {"x": 1, "a": {"1": "one"}})], "c1980cc")
add("C01", "fixed", "load-outcome-differs:ns_dict", "namespaced caching loader: load_async swapped template name and cache key, so async requests failed or crossed namespaces",
    [c01({"main": "M{% include 'p' %}", "p": "plain", "A/main": "AM{% include 'p' %}", "A/p": "nsA"}, {"ns": "A"}, loader="ns_caching_dict", load_kwargs={"ns": "A"})], "e32d78a")
add("C01", "fixed", "loaded-template-name-differs", "load() names a template after the last path component, load_async used the requested name (so include 'dir/foo' with x bound a different variable)",
    [c01({"sub/main.liquid": "{% include 'dir/foo.liquid' with v %}", "dir/foo.liquid": "[{{ foo }}|{{ v }}]"}, {"v": 5}, main="sub/main.liquid")], "4ad1b14")

# ----------------------------------------------------------------------------- C03 fixed
def c03(src, data=None, env=None):
    return {"source": src, "data": V.enc(data or {}), "env": env or {}}


add("C03", "fixed", "suppressed-without-warning:LiquidSyntaxError:builtin/expressions/path.py:Path.parse", "strict-only syntax checks (path, loop, argument and filter-argument parsers) were silent in warn mode",
    [c03("{{ a['b'] c }}", {"a": {"b": 1}}), c03("{{ a[1] b }}"), c03("{{ a. }}"), c03("{{ a | append: 1,, 2 }}"), c03("{% for i in xs limit: 1,, offset: 2 %}{{ i }}{% endfor %}", {"xs": [1, 2, 3]}),
     c03("{% include 'p', v: 1 w: 2 %}")], "3d7a6bd")
add("C03", "fixed", "suppressed-without-warning:LiquidSyntaxError:builtin/expressions/loop.py:LoopExpression.parse", "'limit: 3, reversed, offset: 1' was rejected as a doubled comma in strict mode only",
    [c03("{% for i in xs limit: 3, reversed, offset: 1 %}{{ i }}{% endfor %}", {"xs": [1, 2, 3, 4, 5]})], "f42d02a")

# ----------------------------------------------------------------------------- C04 fixed
def c04(src, datas=None):
    return {"source": src, "datas": [V.enc(d) for d in (datas or [{}, {"a": True, "b": False, "c": True, "s": "a b", "a b": "spaced", "x": "s"}])]}


add("C04", "fixed", "reparse-error:logical", "empty and blank literals serialised to an empty string", [c04("{% if a == empty or b == blank %}y{% endif %}"), c04("{{ empty }}{{ blank }}")], "5160a48")
add("C04", "fixed", "output-differs:string-literal", "string literals serialised through repr() (backslash/newline escapes)", [c04("{{ 'back\\slash' }}"), c04("{{ 'a\nb' }}{{ \"tab\there\" }}")], "c642198")
add("C04", "fixed", "output-differs:bracketed-path", "bracketed / nested / quoted root segments printed bare", [c04("{{ [s] }}"), c04("{{ ['a b'] }}"), c04("{{ d[\"x y\"].z }}", [{"d": {"x y": {"z": 1}}}])], "86d358f")
add("C04", "fixed", "output-differs:logical", "(a and b) or c lost its parentheses; (not a) and b likewise",
    [c04("{% if (a and b) or c %}y{% else %}n{% endif %}", [{"a": False, "b": False, "c": True}, {"a": True, "b": True, "c": False}]),
     c04("{% if (not a) and b %}y{% else %}n{% endif %}", [{"a": True, "b": False}, {"a": False, "b": True}])], "91684e1")
add("C04", "fixed", "output-differs:tablerow", "tablerow and ifchanged nodes serialised to non-Liquid text",
    [c04("{% tablerow i in (1..3) cols: 2 %}{{ i }}{% endtablerow %}"), c04("{% ifchanged %}{{ a }}{% endifchanged %}")], "1d52d7e")
add("C04", "fixed", "output-differs:cycle", "literal cycle group name serialised as a variable", [c04("{% cycle 'g': 1, 2 %}{% cycle 'g': 1, 2 %}{% cycle g: 1, 2 %}", [{"g": "other"}, {}])], "6688234")

# ----------------------------------------------------------------------------- C12 fixed
add("C12", "fixed", "contains:list~bool", "[1] contains true and (1..2) contains true were true (Python True == 1)",
    [{"kind": "cmp", "ctx": "if", "op": "contains", "a": {"t": "val", "v": [1]}, "b": {"t": "val", "v": True}},
     {"kind": "cmp", "ctx": "unless", "op": "contains", "a": {"t": "val", "v": [True]}, "b": {"t": "val", "v": 1}},
     {"kind": "cmp", "ctx": "ternary", "op": "contains", "a": {"t": "val", "v": V.enc(range(1, 3))}, "b": {"t": "val", "v": True}, "alit": True}], "2bb43a0")

# ----------------------------------------------------------------------------- C13 fixed
def c13(lp, data, ss=False):
    return {"loops": [lp], "data": V.enc(data), "ss": ss}


add("C13", "fixed", "items-differ:for+limit-zero", "limit: 0 visited every item; a negative limit raised ValueError",
    [c13({"tag": "for", "var": "i", "coll": {"form": "var", "name": "xs"}, "limit": {"form": "lit", "v": 0}, "else": True}, {"xs": [1, 2, 3]}),
     c13({"tag": "for", "var": "i", "coll": {"form": "var", "name": "xs"}, "limit": {"form": "var", "v": -1, "name": "lim"}, "else": True}, {"xs": [1, 2, 3]}),
     c13({"tag": "tablerow", "var": "i", "coll": {"form": "range", "a": 1, "b": 4}, "limit": {"form": "lit", "v": 0}}, {})], "b357bcc")

# ----------------------------------------------------------------------------- C24 fixed
add("C24", "fixed", "conc:worker-exception:RuntimeError", "ThreadSafeLRUCache.keys/values/items/__iter__ returned lazy iterators consumed outside the lock: RuntimeError 'OrderedDict mutated during iteration' under concurrent use",
    [{"kind": "stress", "seed": 424242, "threads": 8, "ops": 600, "cap": 3, "rounds": 2, "yield_p": 0.05}], "890d906")

# ----------------------------------------------------------------------------- C22 fixed
def c22(config, name):
    return {"config": config, "name": name, "surrogate": "<S>" in name}


add("C22", "fixed", "pkg:absolute:opened-outside-root", "PackageLoader joined an absolute template name onto the package path, which replaces it: get_template('<T>/outside/secret.liquid') read a file outside the package",
    [c22("pkg:templates", "<T>/outside/secret.liquid"), c22("pkg:templates+more", "<T>/pkgs/vpkg22/secret.liquid"), c22("pkg:templates", "//<T>/outside/secret")], "b5f433b")
add("C22", "fixed", "pkg:empty-or-dot:raises-ValueError", "PackageLoader: the names '', '.', '/' raised ValueError (empty name) from Path.with_suffix instead of TemplateNotFoundError",
    [c22("pkg:templates", ""), c22("pkg:templates", "."), c22("pkg:templates", "/")], "b5f433b")
add("C22", "fixed", "pkg:over-long:raises-OSError", "PackageLoader: a name component longer than the file system allows raised OSError from is_file instead of TemplateNotFoundError",
    [c22("pkg:templates", "x" * 300), c22("pkg:templates+more", "sub/" + "y" * 5000)], "b5f433b")
add("C22", "fixed", "fs:over-long:raises-OSError", "FileSystemLoader: a name component longer than the file system allows raised OSError from Path.exists instead of TemplateNotFoundError",
    [c22("fs:ext=None:reject_symlinks=False", "x" * 300), c22("cfs:ext=.liquid:reject_symlinks=True", "sub/" + "y" * 5000)], "c5c5c60")

# ----------------------------------------------------------------------------- C23
def c23(kind, steps, keys=("t1", "t2"), auto_reload=True, capacity=2, env_globals=True):
    return {"kind": kind, "keys": list(keys), "auto_reload": auto_reload, "capacity": capacity, "env_globals": env_globals, "steps": steps}


def get(name, ns=None, via="none", is_async=False, g=None):
    return {"op": "get", "name": name, "ns": ns, "ns_via": via, "async": is_async, "globals": g}


add("C23", "fixed", "caching-fs:sync-hit-on-async-loaded-template:uptodate-is-coroutine",
    "CachingFileSystemLoader with auto_reload: get_template_async('t1') then get_template('t1') raised LiquidError 'expected a boolean from uptodate, found coroutine' "
    "(the template cached by load_async carries the coroutine function _uptodate_async, which the synchronous is_up_to_date cannot await); the non-caching loader serves both requests",
    [c23("fs", [get("t1", is_async=True), get("t1")]), c23("nsfs", [get("t1", "A", "kwarg", True), get("t1", "A", "kwarg")], keys=("t1", "A/t1"))], "3881a11")
add("C23", "fixed", "fs:outcome-differs:FileNotFoundError-vs-twin-TemplateNotFoundError:sync",
    "with auto_reload on, the request after a cached template's file had been deleted let FileNotFoundError escape from the file system loaders' up-to-date check (sync and async); the non-caching loader raises TemplateNotFoundError",
    [c23("fs", [get("t1"), {"op": "delete", "key": "t1"}, get("t1")]), c23("fs", [get("t1", is_async=True), {"op": "delete", "key": "t1"}, get("t1", is_async=True)]),
     c23("nsfs", [get("t1", "A", "kwarg"), {"op": "delete", "key": "A/t1"}, get("t1", "A", "kwarg")], keys=("t1", "A/t1"))], "4479d38")
add("C23", "fixed", "dict:stale-source-after-edit:sync", "CachingDictLoader / caching choice loader over dict loaders with auto_reload=True kept serving the first parsed version after the dictionary entry was replaced (DictLoader gave no uptodate callable)",
    [c23("dict", [get("t1"), {"op": "edit", "key": "t1"}, get("t1")]), c23("choice", [get("t1", "A", "kwarg", True), {"op": "edit", "key": "A/t1"}, get("t1", "A", "kwarg", True)], keys=("t1", "A/t1")),
     c23("nsdict", [get("t1", "B", "context"), {"op": "edit", "key": "B/t1"}, get("t1", "B", "context")], keys=("t1", "B/t1"))], "f7e95bd")
add("C23", "fixed", "dict:globals-differ:request-without-globals:sync", "cache hit for a request without globals in an environment without globals returned the template still carrying the previous request's globals",
    [c23("dict", [get("t1", g={"g": "G1"}), get("t1")], env_globals=False), c23("fs", [get("t1", is_async=True, g={"g": "G1"}), get("t1", is_async=True)], env_globals=False, auto_reload=False)], "9c60297")

add("C04", "open", "reparse-error:digit-leading-word", "a word that starts with digits (3nil) is lexed as one word and parsed as a path; str() prints it as the bracketed root ['3nil'], which the filter-argument parser rejects: "
    "str() of '{{f|minus:3nil}}' is \"{{ f | minus: ['3nil'] }}\" and does not parse", [c04("{{f|minus:3nil}}"), c04("{{'x'|truncate:5nil}}")])
add("C21", "open", "false-alarm:tags-inside-extraneous-else-or-elsif-block-skipped-by-parser",
    "if/unless parse with a tag-specific lax mode: everything from a second else (or an elsif after else) up to the closing end tag is skipped, so '{% if a %}{% else %}{% elsif b %}{% nosuch x %}{% endif %}' "
    "parses in strict mode, but tag analysis looks inside the skipped region and reports unknown 'nosuch' (likewise unclosed/unexpected tags there)",
    [{"seq": ["if", "else", "elsif", "nosuch", "endif"], "extra": False}, {"seq": ["if", "else", "elsif", "if", "endif"], "extra": False}, {"seq": ["unless", "else", "elsif", "endcomment", "endunless"], "extra": False}])

# ----------------------------------------------------------------------------- C17 fixed
def c17(hist, probe, aim="date-equal-values"):
    def sp(d, f, env=None):
        return {"source": "{{ d | date: f }}", "data": V.enc({"d": d, "f": f}), "env": env or {}, "async": False}
    return {"kind": "history", "aim": aim, "history": [sp(*h) for h in hist], "probe": sp(*probe)}


import datetime as _dt  # noqa: E402

_b = _dt.datetime(2024, 3, 1, 12, 30, tzinfo=_dt.timezone.utc)
add("C17", "fixed", "history-dependent:date-equal-values:filter:date", "the date filter's functools memo keyed 1, 1.0 and True (and equal datetimes in different time zones) alike: {{ 0.0 | date: '%H:%M' }} raised alone but gave '00:00' "
    "after {{ false | date: '%H:%M' }}; a +05:00 datetime printed another zone's hour after an equal datetime had been formatted",
    [c17([(False, "%H:%M")], (0.0, "%H:%M")), c17([(1, "%Y")], (1.0, "%Y")), c17([(_b.astimezone(_dt.timezone(_dt.timedelta(hours=-8))), "<%H>")], (_b.astimezone(_dt.timezone(_dt.timedelta(hours=5))), "<%H>"))], "52d3aa2")
add("C17", "fixed", "history-dependent:date-markup-format:filter:date", "with autoescape on, a str format and an equal Markup format shared a memo entry, so the result's safe/unsafe marking depended on which was rendered first",
    [c17([(86400, __import__("markupsafe").Markup("<%Y>"), {"autoescape": True})], (86400, "<%Y>", {"autoescape": True}), aim="date-markup-format"),
     c17([(86400, "<%Y>", {"autoescape": True})], (86400, __import__("markupsafe").Markup("<%Y>"), {"autoescape": True}), aim="date-markup-format")], "52d3aa2")

# ----------------------------------------------------------------------------- fixed by earlier commits (pinned by the checks' own hand-written cases; no separate witness format)
add("C06", "fixed", "length-not-carried:tablerow|include-for|render-for", "tablerow, include ... for and render ... for checked their own length against loop_iteration_limit but did not carry it into nested loops", [], "25baed3")
add("C26", "fixed", "tag:count-zero-selects-singular", "translate tag/filters with count: 0 chose the singular form; gettext's null translations choose the plural for n != 1", [], "5606853")
add("C25", "fixed", "truncate:length-contract", "truncate returned a string longer than its input when n < len(ellipsis) and truncated a string of exactly n characters", [], "e57f2ed")
add("C21", "fixed", "false-alarm:unexpected:break@inside-loop", "tag analysis reported break/continue inside tablerow as unexpected", [], "06488c8")
add("C21", "fixed", "false-alarm:unknown:endblock", "with extra=True tag analysis reported endblock / endmacro as unknown tags (block and macro did not declare their end tags)", [], "42c45bd")
add("C21", "fixed", "false-alarm:unexpected:else", "tag analysis reported else inside for/case and plural inside translate as unexpected", [], "3d1115e")
add("C21", "fixed", "analysis-raises-IndexError@analyze_tags.py", "analyze_tags_from_string raised IndexError for a stray end tag", [], "b3d220e")
add("C10", "fixed", "raw:closing-hyphen-ignored", "{% raw %}...{% endraw -%} ignored the closing hyphen and {% raw -%} stripped the text after endraw", [], "46ff944")
add("C10", "fixed", "text:trailing-newline-split", "template text ending in a newline was split into two tokens, which broke whitespace control on the following tag", [], "eb32805")

# ----------------------------------------------------------------------------- C18 open
add("C18", "open", "reject-miss:duplicate-block:direct-render",
    "duplicate block names are only looked for while the block stacks of an extends chain are built; a template that is rendered directly (chain of length 1) may define a block name twice, side by side or nested in itself, "
    "and is not rejected: '{% block a %}{% block a %}{% endblock a %}{% endblock a %}' renders to ''",
    [{"kind": "pinned", "templates": {"t0": {"extends": None, "items": [["block", "a", False, [["block", "a", False, [], "a"]], "a"]]}}, "leaf": "t0", "data": {}, "async": False},
     {"kind": "pinned", "templates": {"t0": {"extends": None, "items": [["block", "b", False, [["text", "<1>"]], None], ["block", "b", False, [["text", "<2>"]], None]]}}, "leaf": "t0", "data": {}, "async": True},
     {"kind": "pinned", "templates": {"t0": {"extends": None, "items": [["for", 0, [["block", "a", True, [], None]]], ["block", "a", False, [], None]]}}, "leaf": "t0", "data": {}, "async": False}])

# ----------------------------------------------------------------------------- C20 fixed
def c20(src, extra=True):
    return {"kind": "malformed", "source": src, "extra": extra}


add("C20", "fixed", "error-position:negative-index:eof:LiquidSyntaxError",
    "syntax errors detected at the end of an expression or of the template ('expected tag endif, found end of expression', 'expected a primitive expression, found end of expression', "
    "'missing or unexpected path segment') carried the shared end-of-stream token with index -1 and an empty source, so they had no line or column",
    [c20("a\n{% if x %}"), c20("{{ a | }}"), c20("x\n{% assign x = %}"), c20("{{  }}"), c20("{% liquid\nif x\n%}"), c20("{{ a[ }}"), c20("{% for i in (1..3) %}{% if a %}\n")], "16fc7c4")

# ----------------------------------------------------------------------------- C08 fixed
add("C08", "fixed", "outcome-altered:output_stream_limit",
    "configuring any output_stream_limit rewrote \\r\\n and \\r in the output to \\n (LimitedStringIO passed newline=None to StringIO, enabling universal-newline translation): "
    "'a\\r\\nb' rendered 'a\\nb' under a limit of 1000",
    [{"source": "a\r\nb\rc{{ x }}", "partials": {}, "data": V.enc({"x": "\r\n"}), "only": ["output_stream_limit"]}], "c3f8aff")

# ----------------------------------------------------------------------------- C24 fixed
add("C24", "fixed", "conc:not-linearizable",
    "ThreadSafeLRUCache.__len__ did not take the lock: a thread calling len() while another thread's insertion was evicting the least recently used entry saw the transient state "
    "(capacity 1, key 'a' present, concurrent 'set c': len() returned 0, which no sequential order of the recorded operations explains). Found by the WGL linearizability checker "
    "on a 3-thread x 5-operation history under yield injection (schedules are not replayable, so no pinned witness).",
    [], "b8e040b")

# ----------------------------------------------------------------------------- C19 fixed
def c19(main, partials, data):
    return {"kind": "pinned", "main": main, "partials": partials, "datas": [V.enc(data)], "async": False, "async_analysis": False}


add("C19", "fixed", "global-not-reported:in-partial",
    "static analysis analysed a partial only on its first use: a name that was block scoped there (enclosing for/tablerow variable, keyword argument, bound alias) but read from the render "
    "arguments at a later include / render of the same partial was missing from analysis.globals ('{% for b in xs %}{% include 'p' %}{% endfor %}{% include 'p' %}' with p = '{{ b.x }}' "
    "did not report b); render's partial key also ignored its bound variable",
    [c19("{% for b in xs %}{% include 'p' %}{% endfor %}{% include 'p' %}", {"p": "{{ b.x }}"}, {"xs": [1], "b": {"x": "GB"}}),
     c19("{% render 'p' with g as b %}{% render 'p' %}", {"p": "{{ b.x }}"}, {"g": {"x": 1}, "b": {"x": "GB"}}),
     c19("{% tablerow b in xs %}{% include 'p' for xs %}{% endtablerow %}{% include 'p' with g2 %}", {"p": "{{ b.x[b] }}"}, {"xs": [1], "b": {"x": {}}, "g2": 1})], "5394e41")

# ----------------------------------------------------------------------------- C11 fixed
add("C11", "fixed", "rewrite-differs:inline-comment-in-liquid-tag",
    "inside {% liquid %} the line-comment marker is the comment start string without '{'; the line pattern tried \\w+ before the marker, so with comment_start_string 'X#' the comment line "
    "'X# note' was lexed as the unknown tag 'X' and the rewritten template failed to parse",
    [{"kind": "rewrite", "nodes": [["liquid", [["inline", "end"]]]], "print_seed": 1, "wc": 0.0, "tight": 0.0, "delims": ["`Q", "<`", ";.", "Q)", "X#", ">"], "flags": {}, "data": V.enc({}), "mode": "strict", "async": False},
     {"kind": "rewrite", "nodes": [["liquid", [["out", "'v'"], ["inline", "note"]]]], "print_seed": 1, "wc": 0.0, "tight": 0.0, "delims": ["[%", "%]", "[[", "]]", "J#", "%J"], "flags": {}, "data": V.enc({}), "mode": "strict", "async": False}],
    "6bc5308")

# ----------------------------------------------------------------------------- C09 open
# Recursive partials / block structures placed inside nested blocks use ~3 Python frames per block level and ~14 per partial level, so the
# interpreter's stack (1000 frames) is exhausted before context_depth_limit (30) cuts the recursion off.  Measured first overflow (sync, one
# plain block = 1 unit, case/when = 1.5): render 6, include 13, block-structure 2, include-in-block 4, render-extends 10; listed from one unit
# below (the threshold moves with the caller's own stack depth).  Recursion at block depth 0 is cut off properly and is NOT listed.
_C09_LADDER = [0, 1, 2, 3, 4, 5, 6, 9, 12, 20]
for _fam, _t, _what in (
    ("render", 5, "{% render 'self' %} nested in 6 or more blocks (4 case/when pairs)"),
    ("mixed", 5, "a render cycle entered through nested blocks"),
    ("include", 12, "{% include 'self' %} nested in 13 or more if/unless/case/capture blocks"),
    ("block-structure", 1, "block x{ block y{ block.super } } over block y{ block x{} } with 2 or more blocks around the inner block"),
    ("include-in-block", 3, "an include inside an overridden block that leads back to the extending template, nested in 4 or more blocks"),
    ("render-extends", 9, "a render inside an overridden block that leads back to the extending template, nested in 10 or more blocks"),
):
    for _l in _C09_LADDER:
        if _l >= _t:
            _w = ["if"] * max(_l, _t + 1)
            add("C09", "open", f"python-stack-exhausted:{_fam}:block-depth>={_l}",
                f"recursive family '{_fam}': {_what} raises RecursionError (sometimes re-labelled LiquidError 'unexpected liquid parsing error' when it strikes while a partial is being parsed) "
                f"instead of ContextDepthError / TemplateInheritanceError; each block level costs about three interpreter frames and each partial level about fourteen, so 30 context levels "
                f"do not fit into the 1000-frame stack",
                [{"kind": "family", "family": _fam, "cycle": 1, "wrappers": _w, "async": False, "must_cut": True, "tags": ["render"]}] if _l in (6, 12, 2, 4, 9) else [])

add("C09", "open", "RecursionError-while-parsing:expression-nested-or-chained-150-or-more-levels",
    "the expression parsers are recursive without a depth limit (block_nesting_limit only covers block tags): parentheses or bracketed paths nested a few hundred levels deep, a chain of a "
    "few hundred `not`s, or one condition with several hundred and/or terms (grouped from the right) "
    "('{% if (((...a...))) %}', '{{ a[b[b[...]]] }}') exhaust the interpreter's stack; from_string re-labels the RecursionError as LiquidError('unexpected liquid parsing error')",
    [{"kind": "parse", "source": "{{ a" + "[b" * 400 + "]" * 400 + " }}", "mode": "strict"}, {"kind": "parse", "source": "{% if " + "(" * 400 + "a" + ")" * 400 + " %}x{% endif %}", "mode": "lax"}])

# ----------------------------------------------------------------------------- C02 fixed in round 3 (found after widening the hostile pools)
add("C02", "fixed", "escape:OverflowError@builtin/filters/misc.py:_date", "date of a digit string / integer beyond the platform's timestamp range, or of a string dateutil overflows on ('-62135596801'), let OverflowError / ValueError escape",
    [c02("{{ l | date: '%Y' }}", {"l": "9" * 400}), c02("{{ l | date: '%Y' }}", {"l": 253402300800}), c02("{{ '-62135596801' | date: false }}"), c02("{{ l | date: '%Y' }}", {"l": "-9999999999999999999999999"})], "528ecdc")
add("C02", "fixed", "escape:ValueError@builtin/filters/misc.py:_date", "date of a timestamp in year 10000 raised ValueError (year out of range)", [c02("{{ l | date: '%Y' }}", {"l": 253402300800})], "528ecdc")
add("C02", "fixed", "escape:InvalidOperation@builtin/filters/array.py:sum_", "sum of Infinity and -Infinity raised decimal.InvalidOperation", [c02("{{ l | sum }}", {"l": [inf, -inf]}), c02("{{ l | sum: 'k' }}", {"l": [{"k": inf}, {"k": -inf}]})], "6b5c0aa")
add("C02", "fixed", "escape:AssertionError@utils/html.py:strip_tags", "strip_html of a malformed marked section ('<![x]>') raised AssertionError from html.parser", [c02("{{ l | strip_html }}", {"l": "<![x]>"}), c02("{{ l | strip_html }}", {"l": "a<![if x]>b"})], "7b779a1")
add("C02", "fixed", "escape:NameError@extra/filters/translate.py:BaseTranslateFilter.format_message", "(introduced and repaired in this round) fix f54087a used TranslationValueError without importing it; C02 caught it on the next run",
    [c02("{{ '50%' | t }}")], "c36566a")

# ----------------------------------------------------------------------------- C15 fixed
add("C15", "fixed", "render:explicit-argument-or-bound-variable-not-visible:no-render-arguments-and-no-globals",
    "RenderContext replaced a falsy (still empty) globals mapping by a new dict; the render tag adds its bound variable to that mapping after the copy, so '{% render 'p' with x %}' lost x "
    "whenever the template was rendered without arguments and the environment had no globals",
    [{"kind": "visible", "call_index": 0, "data": {}, "env_globals": False, "async": False}, {"kind": "visible", "call_index": 2, "data": {}, "env_globals": False, "async": True}], "07f45a6")
for _label, _i in (("render-kwargs", 0), ("render-with-alias", 1), ("render-for", 2), ("macro-arg", 3), ("extends-block", 4)):
    add("C15", "fixed", f"render:nested-render-sees-enclosing-{_label}-arguments",
        "an isolated render context chained its namespace onto the *parent* context's globals, which inside a rendered partial / macro include that partial's own arguments and inside an "
        "inherited block the base template's locals: '{% render 'outer', a: 1 %}' with outer = '{% render 'inner' %}' let inner read a",
        [{"kind": "nested", "outer_index": _i, "inner_call": "{% render 'q' %}", "async": False}], "448839a")
add("C15", "fixed", "render:include-not-disabled:inside-inherited-block",
    "'{% render 'child' %}' where child extends a base template let include run inside child's blocks (the block scoped context copy started with no disabled tags)",
    [{"kind": "render", "call_kind": "plain", "call": "{% render 'p' %}", "body": [["read", "a"]], "mid_loop": False, "globals": {"g1": "G1", "g2": "G2"}, "variants": [{"binds": [], "withs": [], "loopvar": "c", "mid_loop": False}],
      "probe_disabled": True, "include_wrappers": [], "include_call": "{% render 'pchild' %}", "async": False}], "efe752a")

add("C19", "fixed", "global-not-reported:in-main",
    "static analysis added a captured name to the template scope before visiting the capture block, so a reference to that name inside its own capture block "
    "('{% capture s %}{{ s.first }}{% endcapture %}'), which reads the outer value, was missing from analysis.globals",
    [c19("{% capture s %}[{{ s.first }}]{% endcapture %}{{ s }}", {}, {"s": ["GS"]}), c19("{% liquid\n capture k\n echo k.x\n endcapture\n%}", {}, {"k": {"x": 1}})], "73500ff")

# ----------------------------------------------------------------------------- C04 fixed in round 3
add("C04", "fixed", "output-differs:logical", "str() of a comparison dropped the parentheses of a parenthesised logical operand: '(a and b) == c' became 'a and b == c', which parses as a and (b == c)",
    [c04("{% if (a and b) == c %}y{% else %}n{% endif %}"), c04("{% if a == (b or c) %}y{% endif %}"), c04("{{ 'x' if (a and b) != c else 'y' }}")], "3d10aec")
add("C04", "fixed", "reparse-error:keyword-spelled-segment", "Path.__str__ wrote a bracketed segment spelled like a keyword in dot notation: a['if'] became a.if (does not parse) and ['true'] / ['empty'] became the literals true / empty",
    [c04("{{ a['if'] }}"), c04("{{ ['true'] }}{{ ['empty'] }}"), c04("{% for i in a['in'] %}{{ i }}{% endfor %}"), c04("{% render 'q' with d['blank'] as s %}")], "edcd94e")

# ----------------------------------------------------------------------------- C03 fixed in round 3
add("C03", "fixed", "warning-for-clean-template:case",
    "the case tag's when parser discarded whatever followed a syntax error in every mode, strict included: '{% when 1, xs[\"b\"] c %}' parsed cleanly in strict mode (and dropped the second "
    "alternative), while warn mode reported the strict-only path check as a warning and lax mode kept the alternative",
    [{"source": "{% case a %}{% when 1, xs[\"b\"] c %}one{% when 2 %}two{% endcase %}", "data": V.enc({"a": 1, "xs": {"b": 1}}), "env": {"extra": True}},
     {"source": "{% case a %}{% when 1, xs[\"b\"] c %}one{% endcase %}", "data": V.enc({"a": 5, "xs": {"b": 5}}), "env": {}}], "779ff08")

# ----------------------------------------------------------------------------- C04 fixed in round 4 (both first reported by an independent sub-agent)
add("C04", "fixed", "reparse-error:float-exponent", "float literals were serialised with repr(): 100000000000000000000.0 became 1e+20 (syntax error) and 0.00001 became 1e-05 (parsed again as the path ['1e-05'])",
    [c04("{{ 100000000000000000000.0 }}"), c04("{{ 0.00001 }}{% if a == 0.00001 %}y{% endif %}"), c04("{% render 'q', arg: 0.00001 %}")], "7bbed3c")
add("C04", "fixed", "reparse-error:bracketed-identifier", "a name bound in bracket notation was serialised bare: {% assign ['a b'] = 1 %} became {% assign a b = 1 %}, {% render ['true'] %} became {% render true %}",
    [c04("{% assign ['a b'] = 1 %}{{ ['a b'] }}"), c04("{% for ['a b'] in (1..2) %}{{ ['a b'] }}{% endfor %}"), c04("{% capture ['true'] %}x{% endcapture %}{{ ['true'] }}"), c04("{% increment ['v-1'] %}{% decrement ['if'] %}")], "c4d10da")

# ----------------------------------------------------------------------------- C08 fixed in round 4
add("C08", "fixed", "outcome-altered:output_stream_limit:escapes-UnicodeEncodeError@output.py:LimitedStringIO.write",
    "with any output_stream_limit configured, writing a string with a lone surrogate raised UnicodeEncodeError (neither the unlimited result nor a ResourceLimitError)",
    [{"source": "{{ s }}", "partials": {}, "data": V.enc({"s": "\ud800", "xs": [1]})}, {"source": "a{{ s }}b{{ s }}", "partials": {}, "data": V.enc({"s": "x\udfffy", "xs": [1]})}], "51937a8")

# ----------------------------------------------------------------------------- C01 open (found by the thorough tier once C01 rendered extends chains)
add("C01", "fixed", "render-differs:python-stack-exhausted-on-one-side:extends-blocks",
    "block definitions that re-enter each other through block.super (x{ y{ super } } over y{ x{} }) recurse until something stops them: the synchronous renderer reaches the context depth "
    "limit (ContextDepthError, or a suppressed error in warn mode) while the asynchronous renderer, which needs more Python frames per level, runs out of stack first and lets RecursionError "
    "escape. Same root cause as C09's open stack-exhaustion findings; since d7e3ee3 both renderers end in ContextDepthError (the stack is still exhausted on the way: C09 keeps its findings)",
    json.load(open(os.path.join(VERIF, "tools", "witnesses", "C01-stack.json"))), "d7e3ee3")

# ----------------------------------------------------------------------------- C02 round 4 (both first reported by an independent sub-agent)
add("C02", "open", "escape:OverflowError[len-of-huge-range]",
    "a range object with more than sys.maxsize items given as render data: len() raises OverflowError from the size filter, the .size path segment, for and tablerow "
    "(literal ranges are bounded, so this needs range(10**30) in the data). Not repaired: a faithful fix needs an arithmetic range length in four places plus a guard for islice",
    [c02("{{ r | size }}", {"r": range(10**30)}), c02("{{ r.size }}", {"r": range(10**30)}), c02("{% for i in r limit: 2 %}{{ i }}{% endfor %}", {"r": range(10**30)}),
     c02("{% tablerow i in r limit: 2 %}{{ i }}{% endtablerow %}", {"r": range(-(10**30), 10**30)})])
add("C02", "fixed", "escape:AssertionError@extra/tags/extends_tag.py:_build_block_stacks",
    "a macro whose body contains an extends tag, defined in an included template and called from the including one, hit a bare assert (sync and async)",
    [c02("{% include 'mac' %}{% call mm 1 %}"), c02("{% include 'mac' %}{% call mm 1 %}", **{"async": True}), c02("{% include 'mac' %}{% for i in (1..2) %}{% call mm i %}{% endfor %}", mode="lax")], "98a8fba")

# ----------------------------------------------------------------------------- C10 fixed in round 4 (first reported by an independent sub-agent)
add("C10", "fixed", "ws:plain:liquid", "an empty {% liquid %} tag swallowed the rest of the template as its block when a tag followed (whitespace-only text after it vanished) and was a syntax error when text or an output statement followed",
    [{"segs": ["", {"k": "liquid", "f": [0, 0], "lit": "L", "var": "empty"}, "", {"k": "if", "f": [0, 0, 0, 0], "body": ""}, " "], "tc": False},
     {"segs": ["a ", {"k": "liquid", "f": [0, 0], "lit": "L", "var": "empty"}, " b"], "tc": False},
     {"segs": ["", {"k": "liquid", "f": [0, 0], "lit": " ", "var": "empty"}, "x", {"k": "out", "f": [0, 0], "lit": "L"}, ""], "tc": True}], "d8692f0")

# ----------------------------------------------------------------------------- C12 fixed in round 4 (first reported by an independent sub-agent)
add("C12", "fixed", "logical-grouping", "with logical_parentheses on, a grouping '(' was lexed as the start of a range literal whenever '..' appeared later in the expression: "
    "(a or b) and (1..3) contains 2, ((1..3) contains 2) and (x == '..') raised LiquidSyntaxError",
    [{"kind": "tree", "ctx": "if", "tokens": [{"v": True, "name": "p"}, "and", "(", {"v": False, "src": "(1..3) contains 5"}, ")"]},
     {"kind": "tree", "ctx": "ternary", "tokens": ["(", {"v": True, "name": "p"}, "or", {"v": False, "name": "q"}, ")", "and", {"v": True, "src": "(1..3) contains 2"}]},
     {"kind": "tree", "ctx": "unless", "tokens": ["(", {"v": True, "src": "s2 == '..'"}, ")"]}], "304cf02")

# ----------------------------------------------------------------------------- C18 fixed in round 4 (first reported by an independent sub-agent)
add("C18", "fixed", "output-differs:widget", "a template with its own extends tag, included from inside a block of another chain, cleared the shared block stacks: the rest of the outer chain fell back to its base definitions",
    [{"kind": "pinned", "leaf": "leaf", "data": {"g1": "G1"}, "async": False, "templates": {
        "leaf": {"extends": "base", "items": [["block", "a", False, [["text", "a2"], ["widget", "widget"]], None], ["block", "b", False, [["text", "b2"]], None]]},
        "base": {"extends": None, "items": [["text", "["], ["block", "a", False, [["text", "A"]], None], ["text", "|"], ["block", "b", False, [["text", "B"]], None], ["text", "]"]]}}},
     {"kind": "pinned", "leaf": "leaf", "data": {"g1": "G1"}, "async": True, "templates": {
        "leaf": {"extends": "base", "items": [["block", "a", False, [["widget", "widget2"], ["text", "a2"]], None], ["block", "b", False, [["text", "b2"]], None]]},
        "base": {"extends": None, "items": [["block", "a", False, [["text", "A"]], None], ["block", "b", False, [["text", "B"]], None]]}}}], "ce68498")

# ----------------------------------------------------------------------------- C09 fixed in round 4 (first reported by an independent sub-agent)
add("C09", "fixed", "parse-cpu-time:tag:<noname>", "the template lexer backtracked catastrophically on an unclosed {% or {{ followed by a long run of whitespace (time ~ n^3 to n^4: 5 s for 300 spaces after {%, 18 s for 2000 after {{): "
    "one regex call, so invisible to the step clock and caught by the CPU guard",
    [{"kind": "parse", "source": "{%" + " " * 2000, "mode": "strict"}, {"kind": "parse", "source": "{{" + " " * 2000, "mode": "lax"}, {"kind": "parse", "source": "{% if" + "\t " * 1000, "mode": "strict"}], "6484fd9")

add("C04", "fixed", "reparse-error:symbol-segment", "a quoted path segment made of non-word characters above U+007F (a['\u20ac'], d['\u00d7']) was serialised in dot notation, which does not lex",
    [c04("{{ a['\u20ac'] }}"), c04("{% if d['\u00d7'] contains 'ab' %}y{% endif %}"), c04("{{ ['a\u2192b'] }}{{ a.\u00e9 }}")], "330d5eb")

# ----------------------------------------------------------------------------- C03 open (reported by an independent sub-agent; same root cause as C09's expression-recursion finding)
add("C03", "open", "lax-raises-parse:python-stack-exhausted-by-nested-expression",
    "an expression nested deeper than the interpreter's stack (2000 bracketed paths, parentheses or nots) makes from_string raise LiquidError('unexpected liquid parsing error') in lax and warn mode too: "
    "the lexer accepts the source, so 'in lax mode any source the lexer accepts parses without raising' does not hold for it",
    [{"kind": "hand", "source": "{{ " + "a[" * 2000 + "a" + "]" * 2000 + " }}", "data": V.enc({})}, {"kind": "hand", "source": "{% if " + "(" * 1500 + "a" + ")" * 1500 + " %}x{% endif %}", "data": V.enc({})}])

add("C21", "fixed", "missed-unknown-tag", "tags named like the pseudo entries of the tag register ({% illegal %}, {% content %}, {% output %}) were not reported as unknown although the parser rejects them",
    [{"source": "{% illegal %}", "extra": False}, {"source": "{% if a %}{% output x %}{% endif %}", "extra": True}, {"source": "{{ a }}{% content %}t", "extra": False}], "59dd9c3")

# the raw finding has three faces (the raw wrapper is lost by str()): the body renders differently, does not parse, or parses to something that
# serialises differently again
add("C04", "fixed", "not-idempotent:raw", "a raw block was serialised without its raw / endraw wrapper, so markup inside the body became live: the body rendered differently, did not parse, or parsed to something that serialised differently again",
    [c04("{% if a %}{% raw %}{% if x %}{% endraw %}{% endif %}{% else %}{% if b %}y{% endif %}{% endif %}"), c04("{% raw %}{% assign x=1 %}{{x}}{% endraw %}"), c04("{% raw %}{{ a }}{% endraw %}!"), c04("{% raw %}{% %}{% endraw %}")], "a7e1de3")

add("C07", "fixed", "namespace-exceeds-limit:refused-value-kept", "RenderContext.assign stored a value before measuring the namespace and left it there when it raised LocalNamespaceLimitError: in lax / warn mode "
    "the render went on and completed holding (and printing) more than local_namespace_limit allows",
    [{"source": "{% assign a = big %}[{{ a | size }}]{% assign b = 'x' %}", "partials": {}, "data": V.enc({"big": "x" * 300}), "async": False}], "771239d")

add("C04", "fixed", "reparse-error:raw-body-ending-in-brace", "a raw body that ends in '{' (no delimiter inside it) was serialised without its raw wrapper and fused with the markup or text after it: "
    "'{% raw %}a{{% endraw %}{{ x }}' -> 'a{{{ x }}' (does not parse), '{% raw %}{{% endraw %}% assign v = 1 %}' -> a live assign tag",
    [c04("{% raw %}a{{% endraw %}{{ a }}"), c04("{% raw %}{{% endraw %}% assign v = 1 %}[{{ v }}]"), c04("{% raw %}{{% endraw %}# c #}")], "ee3cc60")

add("C02", "fixed", "escape:AttributeError@extra/filters/translate.py:Translate.__call__", "render data under the name 'translations' (None, a string, a dict ...) was used as a message catalog by the translation filters and the "
    "translate tag: AttributeError ('NoneType' object has no attribute 'gettext')",
    [c02("{{ 'x' | t }}", {"translations": None}), c02("{% translate %}x{% endtranslate %}", {"translations": {"a": 1}}), c02("{{ 'x' | pgettext: 'c' }}", {"translations": "x"})], "e88e4bf")
add("C02", "fixed", "escape:ValueError@extra/filters/babel.py:_resolve_locale", "a 'locale' / 'input_locale' render variable that is empty or not shaped like a locale identifier ('', '%', 'en_') raised babel's ValueError "
    "(unknown but well-formed identifiers already fell back to the default locale)",
    [c02("{{ 10 | currency }}", {"locale": ""}), c02("{{ 1.5 | decimal }}", {"input_locale": "%"})], "b2fb474")

add("C17", "open", "history-dependent:template-object-kept-across-other-renders:pinned-globals-replaced-by-a-tag-load",
    "a template object obtained from a caching loader with get_template(name, globals=...) and kept by the application renders differently (same data) after any other "
    "template that includes / renders / extends the same name was rendered: every load of a cached name, a tag's included, replaces the globals pinned to the shared cached object",
    [])

add("C23", "fixed", "nsdict:outcome-differs:ok-vs-twin-TemplateNotFoundError", "the caching loaders keyed a namespaced request as '<namespace>/<name>' and an un-namespaced one by the bare name: after "
    "get_template('t1', ns='A') fell back to the plain 't1', the plain request for 'A/t1' (which does not exist) was answered with it; namespace 'a' + 'b/c' and namespace 'a/b' + 'c' shared an entry too",
    [], "038492f")

add("C26", "fixed", "filter:raises-TranslationValueError:placeholder", "the translation filters' placeholder pattern took word characters only: '%(user-name)s' with the keyword argument user-name "
    "(a valid name, and one the translate tag handles) was not found and formatting raised TranslationValueError",
    [{"kind": "filter", "filter": "t", "msg": "Hi %(user-name)s", "literal": True, "async": False, "vars": {"user-name": "Ann"}}], "546ab5d")

add("C19", "fixed", "variable-path-not-reported:in-partial", "a partial first reached by a globals-only pass of the analysis (its includer re-entered itself with other arguments before including it) was "
    "marked as seen; the full pass skipped it and its variables, filters and tags were never reported",
    [{"kind": "matrix", "main": "{% include 'a' %}", "partials": {"a": "{% if d %}{% assign d = false %}{% include 'a', depth: 1 %}{% endif %}{% include 'b' %}", "b": "{{ q | upcase }}{% echo 1 %}"},
      "datas": [V.enc({"d": True, "q": "hi"})], "async": False, "async_analysis": False}], "a900d69")

add("C10", "fixed", "ws:plain:if", "with shorthand template comments enabled, an unclosed '{#-' (literal text) still right-trimmed the text before it: 'a  {#- b' rendered 'a{#- b'",
    [{"segs": ["a  {#- b"], "tc": True}, {"segs": [" p ", {"k": "out", "f": [0, 0], "lit": "L"}, "a \n{#-"], "tc": True}], "a0a0418")

add("C17", "fixed", "stale-clock:filter:date", "{{ 'now' | date: fmt }} (and 'today') went through the date filter's memo: every later render printed the time of the first render that used "
    "that format, until ten other date calls evicted the entry; a time without a date ('10:00'), which the parser completes from today's date, kept the first render's day on later days",
    [], "b13bdc7, 522941a")

add("C09", "fixed", "render-exceeds-step-budget:render:lax-mode-fanout", "in lax / warn mode ContextDepthError was reported per node and rendering went on: a partial that renders (or includes) itself twice per "
    "level rendered 2^depth-limit times (hours with the default limit of 30) instead of being cut off",
    [{"kind": "family", "family": "render", "cycle": 1, "wrappers": [], "async": False, "must_cut": False, "mode": "lax", "fanout": 2}], "68b6280")

add("C01", "fixed", "render-differs:output", "the asynchronous if tag evaluated an elsif condition twice (it rendered the conditional node, not its block): with a condition that has an effect "
    "(block.super re-renders the parent block, counters included) render gave 'yes', render_async gave ''",
    [c01({"base": "{% block b %}{% increment c %}{% endblock %}", "main": "{% extends 'base' %}{% block b %}{% if false %}no{% elsif block.super == '0' %}yes{% else %}else{% endif %}{% endblock %}"}, {}, env={"extra": True})], "9c04756")

add("C03", "fixed", "lax-raises-render:ContextDepthError:render", "repair 68b6280 (the context depth error is not swallowed node by node) made render() raise ContextDepthError in lax and warn mode; "
    "found by C03 once it rendered self-recursive partials in tolerant environments. The render now stops there and the error follows the mode",
    [{"source": "a{% render 'selfr' %}z", "data": V.enc({}), "env": {"extra": True, "limits": {"context_depth_limit": 6}}}], "fee35e1")

add("C04", "fixed", "reparse-error:odd-names-and-nested-paths", "a name ending in a question mark (a word to the expression tokenizer) was serialised as the quoted root ['ok?'], which filter arguments and "
    "include / render bound variables reject; a nested path starting with an index (a[[1]]) lost its inner brackets (a[1])",
    [c04("{{ h | map: ok? }}"), c04("{% include 'p' with ok? %}"), c04("{{ a[[1]] }}")], "8d7a169")
add("C14", "fixed", "path:raises-LiquidSyntaxError", "a dotted property that spells a keyword of the expression grammar (d.limit, d.if, d.empty, d.in, d.with ... 22 words) was a syntax error; the bracketed "
    "spelling of the same key worked",
    [{"kind": "path", "segs": ["d", "limit"], "data": V.enc({"d": {"limit": "V-limit"}}), "flags": {}, "async": False}], "195c53b")

add("C26", "fixed", "tag:raises-TranslationValueError:placeholder", "a message variable whose name ends in a question mark ({{ ok? }} in the tag, %(ok?)s in a filter message) was not found by the placeholder pattern: TranslationValueError",
    [{"kind": "tag", "msg": "{{ ok? }}", "body": "{{ ok? }}", "async": False, "vars": {"ok?": "yes"}}], "f5edd61")

add("C25", "fixed", "chain:sort-map-compact-join:raises-FilterArgumentError", "sort / sort_natural with a key raised when some items lack the property and the others hold numbers under it (a string sentinel "
    "was compared with them) although such items are documented to go last; compact kept the null object that map puts in for a missing property (the reference's own map | compact example)",
    [{"kind": "chain", "chain": "sort-last-has-no-key", "l": V.enc([{"k": 2}, {}, {"k": 1}]), "k": "k", "async": False}, {"kind": "chain", "chain": "map-compact-size", "l": V.enc([{"k": 2}, {}, {"k": 1}]), "k": "k", "async": False}], "8a73529")

add("C02", "fixed", "escape:KeyError@builtin/tags/for_tag.py:ForLoop.__getitem__", "the loop helpers (forloop, tablerowloop) are mappings whose __iter__ steps the loop: a template that loops over one, compares it or uses it in "
    "case/when went through Mapping's derived views, advanced the enclosing loop and raised a bare KeyError", [c02("{% for i in (1..2) %}{% for b in forloop %}{{ b }}{% endfor %}{% endfor %}"),
    c02("{% for i in (1..2) %}{% if forloop == h %}y{% endif %}{% endfor %}", {"h": {"a": 1}}), c02("{% tablerow i in (1..2) %}{% for b in tablerowloop %}x{% endfor %}{% endtablerow %}")], "b3843b2")
add("C02", "fixed", "escape:AttributeError@builtin/filters/array.py:uniq", "uniq on the block drop (any iterable that is not a list): AttributeError 'no attribute index'; the date filter on a 30-digit number followed by 'hours': "
    "decimal.InvalidOperation out of dateutil; {% render name %} inside an extends chain with any truthy render value under that name: AttributeError while the chain's blocks are collected",
    [c02("{% block b %}{{ block | uniq }}{% endblock %}"), c02("{{ '111111111111111111111111111111hours' | date: '%Y' }}"), c02("{% extends 'base' %}{% block b %}{% render x %}{% endblock %}", {"x": "abc"})], "b720809")

add("C05", "fixed", "raw-special:text-of-a-missing-value:debug", "with autoescape on and DebugUndefined, {% call nosuchmacro %} wrote the undefined's text (\"'nosuchmacro' is undefined\") straight to the buffer, raw quotes included",
    [{"kind": "undefined-type", "undefined": "debug", "source": "{% call nosuchmacro %}", "data": V.enc({}), "async": False}], "8abc37c")

add("C12", "fixed", "contains:str~bool", "contains on a string haystack turned the needle into text with Python's str(): 'it is true' contains true was false (it looked for 'True')",
    [], "d9f5b4e")

add("C19", "fixed", "global-not-reported:in-partial", "an extends (or include) inside a rendered partial was analysed in the root template's scope instead of the isolated scope of the render tag: names bound in "
    "the root where the render tag stands hid the base template's reads of render arguments, and the base's assignments leaked into the root",
    [{"kind": "matrix", "main": "{% for x in xs %}{% render 'child' %}{% endfor %}|{% render 'child' %}", "partials": {"child": "{% extends 'base' %}{% block b %}!{% endblock %}", "base": "<{{ x }}{% block b %}{% endblock %}>"},
      "datas": [V.enc({"xs": [1, 2], "x": "GX"})], "async": False, "async_analysis": False}], "5156a88")

add("C27", "fixed", "macro:arguments-without-commas", "{% call f 1 2 %} and {% call f a: 1 b: 2 %} (no comma between the arguments) bound the first argument and silently dropped the rest, in strict mode too; "
    "left-over tokens are now a syntax error",
    [{"kind": "macro", "params": ["none", "none"], "npos": 2, "kws": [], "call_comma": False, "async": False}], "7843a2f")

add("C21", "fixed", "missed-unknown-tag:end-of-an-end-tag", "an 'endendif' tag made the analysis infer a block tag called 'endif': 'if' was reported unclosed, 'endif' unknown, and 'endendif' itself - unknown, and closing nothing - "
    "was not reported", [{"source": "{% if a %}{% endif %}{% endendif %}", "extra": False}], "d12cd7a")

add("C13", "fixed", "tablerow-structure:cols+break", "tablerow: a break in the last column of a row still opened the next row (the table ended with an empty <tr class=\"rowN\">); with cols: 0 or a "
    "non-numeric cols every cell reported tablerowloop.row == 2 inside <tr class=\"row1\"> (R-loop had copied that stepping rule from the code: the structural monitor does not)",
    [{"kind": "tablerow-structure", "source": "{% tablerow i in (1..2) cols: 1 %}r{{ tablerowloop.row }}c{{ tablerowloop.col }}i{{ tablerowloop.index }};{% if tablerowloop.index == 1 %}{% break %}{% endif %}{% endtablerow %}", "n": 2, "cols": 1, "stop": "break", "at": 1},
     {"kind": "tablerow-structure", "source": "{% tablerow i in (1..1) cols: 0 %}r{{ tablerowloop.row }}c{{ tablerowloop.col }}i{{ tablerowloop.index }};{% endtablerow %}", "n": 1, "cols": 0, "stop": None, "at": None}], "d5e83ee")

add("C09", "fixed", "render-exceeds-step-budget:include:lax-mode-fanout", "in lax / warn mode a template that includes (renders) itself twice inside a dozen nested blocks ran out of stack before the context depth limit; "
    "the RecursionError came back re-labelled as a parsing error, which the tolerant mode reported node by node and carried on from: 2^depth branches, a hang on the logical clock",
    [{"kind": "family", "family": "include", "cycle": 1, "wrappers": ["if"] * 13, "async": False, "must_cut": False, "mode": "lax", "fanout": 2}], "d7e3ee3")

if __name__ == "__main__":
    # further entries are appended by tools/mkfindings.py from triaged replay files and kept in findings_extra.json
    extra_path = os.path.join(VERIF, "tools", "findings_extra.json")
    extra = json.load(open(extra_path))["findings"] if os.path.exists(extra_path) else []
    have = {(f["property"], f["signature"]) for f in F}
    allf = F + [f for f in extra if (f["property"], f["signature"]) not in have]
    allf.sort(key=lambda f: (f["property"], f["status"], f["signature"]))
    with open(os.path.join(VERIF, "known_findings.json"), "w") as fd:
        json.dump({"findings": allf}, fd, indent=1, ensure_ascii=True)
        fd.write("\n")
    print(len(allf), "findings written;", sum(1 for f in allf if f["status"] == "open"), "open")
