#!/venv/bin/python
"""Developer tool (never run by a check): turn the replay files of a run into
known_findings.json entries after they have been triaged by hand.

  tools/mkfindings.py C02 replays/C02-*.json [--status open|fixed] [--commit SHA] [--only SIG_SUBSTR]
"""
import json
import os
import sys

VERIF = os.path.dirname(os.path.dirname(os.path.abspath(__file__)))
path = os.path.join(VERIF, "tools", "findings_extra.json")


def main():
    args = sys.argv[1:]
    status = "open"
    commit = None
    only = None
    files = []
    i = 0
    while i < len(args):
        a = args[i]
        if a == "--status":
            status = args[i + 1]
            i += 2
        elif a == "--commit":
            commit = args[i + 1]
            i += 2
        elif a == "--only":
            only = args[i + 1]
            i += 2
        else:
            files.append(a)
            i += 1
    data = {"findings": []}
    if os.path.exists(path):
        data = json.load(open(path))
    have = {(f["property"], f["signature"]): f for f in data["findings"]}
    n = 0
    for fn in files:
        rep = json.load(open(fn))
        if only and only not in rep["signature"]:
            continue
        key = (rep["property"], rep["signature"])
        if key in have:
            f = have[key]
            if rep["case"] not in f["witnesses"] and len(f["witnesses"]) < 3:
                f["witnesses"].append(rep["case"])
            continue
        f = {
            "property": rep["property"],
            "status": status,
            "signature": rep["signature"],
            "what": rep["what"],
            "witnesses": [rep["case"]],
        }
        if commit:
            f["commit"] = commit
        data["findings"].append(f)
        have[key] = f
        n += 1
    data["findings"].sort(key=lambda f: (f["property"], f["signature"]))
    with open(path, "w") as fd:
        json.dump(data, fd, indent=1, ensure_ascii=True)
        fd.write("\n")
    print(f"added {n} findings; total {len(data['findings'])}")
    os.system(f"/venv/bin/python {os.path.join(VERIF, 'tools', 'findings_src.py')}")


main()
