#!/bin/sh
# Developer tool: run checks against a scratch copy of /repo with a patch applied.
#   tools/mutant.sh <patch.diff | -e 'python-snippet editing files under $M'> C24 [C02 ...] [-- extra check args]
# The copy lives on tmpfs and is removed afterwards.
set -e
M=$(mktemp -d /dev/shm/mut-XXXXXX)
trap 'rm -rf "$M"' EXIT
cp -r /repo/liquid "$M/liquid"
cp /repo/pyproject.toml "$M/" 2>/dev/null || true
if [ "$1" = "-e" ]; then
  M="$M" /venv/bin/python -c "$2"
  shift 2
else
  (cd "$M" && patch -p1 -s < "$1")
  shift
fi
(cd "$M" && diff -ru /repo/liquid liquid | grep '^[+-]' | grep -v '^+++\|^---' | head -12) || true
EXTRA=""
PROPS=""
while [ $# -gt 0 ]; do
  if [ "$1" = "--" ]; then shift; EXTRA="$*"; break; fi
  PROPS="$PROPS $1"; shift
done
cd /verif
for p in $PROPS; do
  VERIF_REPO="$M" ./check "$p" --no-evidence $EXTRA 2>&1 | grep -v '^violation:' | tail -4 | cut -c1-260
done
