#!/bin/sh
# Run the repository's pinned test suite with the verification guard OFF and compare
# with /root/.vp/BASELINE.json (stable_pass list).  Exit 0 iff every stable test passes.
unset LIQUID_VERIF
OUT="${1:-/tmp/verif-baseline.junit.xml}"
export HYPOTHESIS_STORAGE_DIRECTORY=/tmp/verif-hypothesis-db; rm -rf /tmp/verif-hypothesis-db; cd /repo && /venv/bin/python -m pytest -ra -q -p no:cacheprovider --timeout=900 --continue-on-collection-errors --junitxml="$OUT" >/tmp/verif-baseline.log 2>&1
/venv/bin/python - "$OUT" <<'PY'
import json, sys, xml.etree.ElementTree as ET
base = json.load(open('/root/.vp/BASELINE.json'))
stable = set(base['stable_pass'])
passed = set()
for tc in ET.parse(sys.argv[1]).getroot().iter('testcase'):
    ok = not any(c.tag in ('failure', 'error', 'skipped') for c in tc)
    if ok:
        passed.add(f"{tc.get('classname')}::{tc.get('name')}")
missing = sorted(stable - passed)
print(f"stable_pass={len(stable)} passed_now={len(passed)} missing={len(missing)}")
for m in missing[:20]:
    print("  MISSING", m)
sys.exit(1 if missing else 0)
PY
