#!/venv/bin/python
"""Developer tool (never run by a registered check): vet a seeded mutant and run checks against it.

  tools/seed.py vet  /tmp/wt/C13/_out/m1 C13-m1     verify (suite passes, demo fails with / passes without), store under seeded/C13-m1/
  tools/seed.py run  C13-m1 [C13 C02 ...] [-- extra check args]   run checks (default: the mutant's property) against a scratch copy with the patch
  tools/seed.py runall [--tier quick]                 every stored mutant against its own property's check; writes seeded/RESULTS.json

Scratch copies live on /dev/shm and are removed afterwards.  /repo itself is never modified.
"""
import json
import os
import shutil
import subprocess
import sys
import tempfile

VERIF = os.path.dirname(os.path.dirname(os.path.abspath(__file__)))
SEEDED = os.path.join(VERIF, "seeded")
PY = "/venv/bin/python"
SUITE = [PY, "-m", "pytest", "-q", "-p", "no:cacheprovider", "--timeout=900", "--continue-on-collection-errors", "-x", "--no-header"]


def scratch(patch: str | None) -> str:
    d = tempfile.mkdtemp(prefix="seed-", dir="/dev/shm")
    # SEED_BASE pins the commit a long batch runs against, so that a `fix:` commit made meanwhile does not move it
    subprocess.run(["git", "-C", "/repo", "worktree", "add", "--detach", "-q", "-f", d + "/r", os.environ.get("SEED_BASE", "HEAD")], check=True)
    if patch:
        subprocess.run(["git", "-C", d + "/r", "apply", patch], check=True)
    return d


def drop(d: str) -> None:
    subprocess.run(["git", "-C", "/repo", "worktree", "remove", "--force", d + "/r"], check=False)
    shutil.rmtree(d, ignore_errors=True)
    subprocess.run(["git", "-C", "/repo", "worktree", "prune"], check=False)


def env_for(r: str) -> dict:
    e = dict(os.environ)
    e.update(PYTHONPATH=r, PYTHONDONTWRITEBYTECODE="1", PYTHONHASHSEED="0")
    return e


def vet(src: str, sid: str, preserving: bool = False) -> int:
    """preserving=True: a behaviour-preserving refactor (suite passes, its own property test exits 0 with and without the patch);
    the checks are expected to stay quiet on it."""
    patch = os.path.join(src, "patch.diff")
    demo = os.path.join(src, "demo.py")
    d = scratch(patch)
    r = d + "/r"
    try:
        p = subprocess.run(SUITE[:-2] + ["--no-header"], cwd=r, env=env_for(r), capture_output=True, text=True, timeout=900)
        tail = p.stdout.strip().splitlines()[-1] if p.stdout.strip() else ""
        ok_suite = "1385 passed" in tail and "failed" not in tail
        p1 = subprocess.run([PY, demo], cwd=r, env=env_for(r), capture_output=True, text=True, timeout=600)
        subprocess.run(["git", "-C", r, "checkout", "--", "."], check=True)
        p0 = subprocess.run([PY, demo], cwd=r, env=env_for(r), capture_output=True, text=True, timeout=600)
    finally:
        drop(d)
    print(f"{sid}: suite: {tail!r}; demo with patch exit {p1.returncode}; without exit {p0.returncode}")
    if not (ok_suite and p1.returncode == (0 if preserving else 1) and p0.returncode == 0):
        print(f"{sid}: REJECTED")
        print(p1.stdout[-500:], p1.stderr[-500:], p0.stdout[-300:], p0.stderr[-300:])
        return 1
    out = os.path.join(SEEDED, sid)
    os.makedirs(out, exist_ok=True)
    shutil.copy(patch, out + "/patch.diff")
    shutil.copy(demo, out + "/demo.py")
    notes = open(os.path.join(src, "notes.md")).read() if os.path.exists(os.path.join(src, "notes.md")) else ""
    meta = {
        "id": sid,
        "property": sid.split("-")[0],
        "breaks": notes.strip(),
        "needs_to_manifest": "see 'breaks' (author's notes)",
        "verified": {
            "suite_with_patch": tail,
            "demo_exit_with_patch": p1.returncode,
            "demo_exit_without_patch": p0.returncode,
            "demo_output_with_patch": (p1.stdout + p1.stderr)[-600:],
            "how": "tools/seed.py vet: scratch worktree of /repo HEAD on /dev/shm, git apply patch.diff, full pytest suite, demo.py; git checkout; demo.py again",
        },
        "origin": "written by an independent sub-agent that saw only the property text and a scratch worktree",
    }
    if preserving:
        meta["kind"] = "property-preserving refactor: every check is expected to stay quiet (exit 0) on it"
    json.dump(meta, open(out + "/meta.json", "w"), indent=1)
    print(f"{sid}: stored")
    return 0


def run(sid: str, props: list[str], extra: list[str]) -> dict:
    patch = os.path.join(SEEDED, sid, "patch.diff")
    d = scratch(patch)
    res = {}
    try:
        for p in props:
            e = dict(os.environ)
            e["VERIF_REPO"] = d + "/r"
            cp = subprocess.run([os.path.join(VERIF, "check"), p, "--no-evidence"] + extra, cwd=VERIF, env=e, capture_output=True, text=True, timeout=3600)
            lines = cp.stdout.strip().splitlines()
            sigs = [l for l in lines if l.startswith("violation:")]
            res[p] = {"exit": cp.returncode, "summary": lines[-1] if lines else "", "first_violations": [s[:300] for s in sigs[:3]]}
            print(f"{sid} vs {p}: exit {cp.returncode}: {lines[-1][:200] if lines else ''}")
            for s in sigs[:2]:
                print("    " + s[:260])
    finally:
        drop(d)
        # replay files written for mutant runs are not findings of /repo
    return res


def main() -> int:
    a = sys.argv[1:]
    if a[0] == "vet":
        return vet(a[1], a[2])
    if a[0] == "vetp":
        return vet(a[1], a[2], preserving=True)
    if a[0] == "run":
        extra = []
        if "--" in a:
            i = a.index("--")
            extra = a[i + 1 :]
            a = a[:i]
        sid = a[1]
        props = a[2:] or [sid.split("-")[0]]
        run(sid, props, extra)
        return 0
    if a[0] == "matrix":
        # every stored mutant against every registered check (quick tier), N mutants in parallel; writes seeded/MATRIX.json
        import concurrent.futures as cf

        checks = [c["property_id"] for c in json.load(open(os.path.join(VERIF, "MANIFEST.json")))["checks"]]
        sids = [s for s in sorted(os.listdir(SEEDED)) if os.path.isdir(os.path.join(SEEDED, s))]
        only = [x for x in a[1:] if not x.startswith("-")]
        if only:
            sids = [s for s in sids if s in only]

        import threading

        lock = threading.Lock()
        path = os.path.join(SEEDED, "MATRIX.json")

        def one(sid):
            patch = os.path.join(SEEDED, sid, "patch.diff")
            try:
                d = scratch(patch)
            except subprocess.CalledProcessError:
                print(sid, "PATCH DOES NOT APPLY", flush=True)
                return sid, {"error": "patch does not apply"}
            row = {}
            try:
                for p in checks:
                    e = dict(os.environ)
                    e["VERIF_REPO"] = d + "/r"
                    try:
                        cp = subprocess.run([os.path.join(VERIF, "check"), p, "--no-evidence"], cwd=VERIF, env=e, capture_output=True, text=True, timeout=900)
                        row[p] = cp.returncode
                    except subprocess.TimeoutExpired:
                        row[p] = "timeout"
            finally:
                drop(d)
            print(sid, {k: v for k, v in row.items() if v != 0}, flush=True)
            with lock:
                old = json.load(open(path)) if os.path.exists(path) else {}
                old[sid] = row
                json.dump(old, open(path, "w"), indent=1, sort_keys=True)
            return sid, row

        out = {}
        with cf.ThreadPoolExecutor(max_workers=8) as ex:
            for sid, row in ex.map(one, sids):
                out[sid] = row
        return 0
    if a[0] == "runall":
        extra = a[1:]
        results = {}
        for sid in sorted(os.listdir(SEEDED)):
            if not os.path.isdir(os.path.join(SEEDED, sid)):
                continue
            results[sid] = run(sid, [sid.split("-")[0]], extra)
        json.dump(results, open(os.path.join(SEEDED, "RESULTS.json"), "w"), indent=1)
        return 0
    return 2


sys.exit(main())
