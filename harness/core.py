"""Core of the runtime-monitoring harness: run context, verdicts, evidence, findings.

Every check module exposes

    PROP      = "C07"
    RULE      = "<how cases are generated and what makes one non-trivial>"
    REQUIRED  = [("liquid/context.py", "RenderContext.assign"), ...]   anchor functions
                that the monitored executions must have entered (else inconclusive)
    def cases(ctx):  yields JSON-serialisable case dicts
    def judge(ctx, case):  executes the real code under the monitors, calls
                ctx.violation(...) / ctx.unspecified() / ctx.ok(...)

The driver (cli.py) replays the pinned witnesses of known_findings.json first, then
the generated cases, merges shards, classifies violations and writes the evidence.
"""

from __future__ import annotations

import hashlib
import json
import os
import random
import sys
import time
import traceback
from typing import Any

VERIF = os.path.dirname(os.path.dirname(os.path.abspath(__file__)))
REPO = os.environ.get("VERIF_REPO", "/repo")


class Inconclusive(Exception):
    """Raised by a check when its deciding monitor cannot observe."""


class WorkloadTooHeavy(BaseException):
    """One call into the library used more CPU than any case of a property's workload should (a generated template that grows
    geometrically, say).  Never a verdict: the case is skipped and counted; termination itself is C09's subject, on its own clock."""


class CaseWatchdog(BaseException):
    """Raised in the main thread by the per-case wall-clock watchdog (never a verdict: the case is inconclusive)."""


class case_watchdog:
    """Generous wall-clock bound around one judged case (SIGALRM, main thread only).

    A case that exceeds it is reported *inconclusive*, never as a violation: termination verdicts are taken on logical
    clocks (step counts, load counts) by the checks that own them.
    """

    def __init__(self, seconds: float | None):
        self.seconds = seconds
        self.armed = False

    def __enter__(self):
        import signal
        import threading

        if self.seconds and threading.current_thread() is threading.main_thread() and hasattr(signal, "setitimer"):
            def _fire(signum, frame):
                raise CaseWatchdog(f"case exceeded the {self.seconds:.0f}s wall-clock watchdog")

            self._old = signal.signal(signal.SIGALRM, _fire)
            signal.setitimer(signal.ITIMER_REAL, self.seconds)
            self.armed = True
        return self

    def __exit__(self, *a):
        if self.armed:
            import signal

            signal.setitimer(signal.ITIMER_REAL, 0)
            signal.signal(signal.SIGALRM, self._old)
        return False


def stable_hash(obj: Any) -> int:
    data = json.dumps(obj, sort_keys=True, default=repr, ensure_ascii=True).encode()
    return int.from_bytes(hashlib.blake2b(data, digest_size=8).digest(), "big")


def derive_seed(*parts: Any) -> int:
    h = hashlib.sha256("|".join(str(p) for p in parts).encode()).digest()
    return int.from_bytes(h[:8], "big")


class Ctx:
    """State of one run (or one shard of a run) of one property check."""

    def __init__(
        self,
        prop: str,
        tier: str,
        seed: int,
        shard: int = 0,
        nshards: int = 1,
        budget_s: float | None = None,
    ):
        self.prop = prop
        self.tier = tier
        self.seed = seed
        self.shard = shard
        self.nshards = nshards
        self.t0 = time.monotonic()
        self.budget_s = budget_s
        self.evaluations = 0
        self.nontrivial_hashes: set[int] = set()
        self.samples: list[Any] = []
        self.max_samples = 6
        self.counters: dict[str, int] = {}
        self.observed: dict[str, set[str]] = {}
        self.unspecified_n = 0
        self.violations: list[dict[str, Any]] = []
        self.inconclusive_reasons: list[str] = []
        self.current_case: Any = None
        self.pinned_phase = False
        self._rng_counter = 0
        self.case_limit: int | None = None
        self.extra: dict[str, Any] = {}

    # -- randomness ---------------------------------------------------------------
    def rng(self, *name: Any) -> random.Random:
        return random.Random(derive_seed(self.seed, self.prop, self.shard, *name))

    def next_rng(self) -> random.Random:
        self._rng_counter += 1
        return self.rng("ctr", self._rng_counter)

    # -- budgets ------------------------------------------------------------------
    def budget(self, quick: int, thorough: int) -> int:
        """Case budget for this shard."""
        if self.case_limit is not None:
            return self.case_limit
        if self.tier == "quick":
            return quick
        return max(1, thorough // max(1, self.nshards))

    def elapsed(self) -> float:
        return time.monotonic() - self.t0

    def time_left(self) -> float:
        if self.budget_s is None:
            return 1e9
        return self.budget_s - self.elapsed()

    def more(self) -> bool:
        """Workload cap only (never a verdict): stop generating when time is used up."""
        return self.time_left() > 0

    # -- recording ----------------------------------------------------------------
    def ok(self, key: Any = None, nontrivial: bool = True, sample: Any = None) -> None:
        """Record one judged execution."""
        self.evaluations += 1
        if nontrivial:
            h = stable_hash(key if key is not None else self.current_case)
            if h not in self.nontrivial_hashes:
                self.nontrivial_hashes.add(h)
                if len(self.samples) < self.max_samples and not self.pinned_phase:
                    # spread samples: keep the 1st, then sparser ones
                    n = len(self.nontrivial_hashes)
                    if n in (1, 2, 5, 20, 100, 500) or sample is not None:
                        self.samples.append(
                            sample if sample is not None else self.current_case
                        )

    def count(self, name: str, n: int = 1) -> None:
        self.counters[name] = self.counters.get(name, 0) + n

    def observe(self, name: str, value: Any) -> None:
        s = self.observed.setdefault(name, set())
        if len(s) < 400:
            s.add(str(value))

    def unspecified(self, why: str = "") -> None:
        self.unspecified_n += 1
        if why:
            self.count("unspecified:" + why)

    def violation(self, signature: str, what: str, detail: Any = None) -> None:
        self.count("violation:" + signature)
        # keep at most 3 witnesses per signature
        n = sum(1 for v in self.violations if v["signature"] == signature)
        if n >= 3:
            return
        if callable(detail):
            detail = detail()
        if callable(what):
            what = what()
        self.violations.append(
            {
                "signature": signature,
                "what": what,
                "detail": detail,
                "case": self.current_case,
                "pinned": self.pinned_phase,
            }
        )

    def inconclusive(self, reason: str) -> None:
        if reason not in self.inconclusive_reasons:
            self.inconclusive_reasons.append(reason)

    # -- serialisation for shard merging ------------------------------------------
    def dump(self) -> dict[str, Any]:
        return {
            "evaluations": self.evaluations,
            "hashes": sorted(self.nontrivial_hashes),
            "samples": self.samples,
            "counters": self.counters,
            "observed": {k: sorted(v) for k, v in self.observed.items()},
            "unspecified": self.unspecified_n,
            "violations": self.violations,
            "inconclusive": self.inconclusive_reasons,
            "extra": self.extra,
            "wall_s": self.elapsed(),
        }


def merge_dumps(dumps: list[dict[str, Any]]) -> dict[str, Any]:
    out: dict[str, Any] = {
        "evaluations": 0,
        "hashes": set(),
        "samples": [],
        "counters": {},
        "observed": {},
        "unspecified": 0,
        "violations": [],
        "inconclusive": [],
        "extra": {},
        "wall_s": 0.0,
    }
    for d in dumps:
        out["evaluations"] += d["evaluations"]
        out["hashes"].update(d["hashes"])
        for s in d["samples"]:
            if len(out["samples"]) < 8:
                out["samples"].append(s)
        for k, v in d["counters"].items():
            out["counters"][k] = out["counters"].get(k, 0) + v
        for k, v in d["observed"].items():
            out["observed"].setdefault(k, set()).update(v)
        out["unspecified"] += d["unspecified"]
        out["violations"].extend(d["violations"])
        for r in d["inconclusive"]:
            if r not in out["inconclusive"]:
                out["inconclusive"].append(r)
        for k, v in d.get("extra", {}).items():
            if isinstance(v, (int, float)) and isinstance(out["extra"].get(k, 0), (int, float)):
                out["extra"][k] = out["extra"].get(k, 0) + v
            elif isinstance(v, list):
                cur = out["extra"].setdefault(k, [])
                for x in v:
                    if x not in cur and len(cur) < 2000:
                        cur.append(x)
            elif isinstance(v, dict):
                cur = out["extra"].setdefault(k, {})
                for kk, vv in v.items():
                    if isinstance(vv, (int, float)):
                        cur[kk] = cur.get(kk, 0) + vv
                    else:
                        cur[kk] = vv
            else:
                out["extra"][k] = v
        out["wall_s"] = max(out["wall_s"], d["wall_s"])
    return out


# -- known findings ---------------------------------------------------------------

def load_findings(prop: str) -> tuple[list[dict[str, Any]], list[dict[str, Any]]]:
    path = os.path.join(VERIF, "known_findings.json")
    if not os.path.exists(path):
        return [], []
    with open(path, encoding="utf-8") as fd:
        data = json.load(fd)
    open_ = [f for f in data.get("findings", []) if f["property"] == prop and f.get("status") == "open"]
    fixed = [f for f in data.get("findings", []) if f["property"] == prop and f.get("status") == "fixed"]
    return open_, fixed


def load_corpus(prop: str) -> list[dict[str, Any]]:
    """Regression corpus: cases that once exposed a seeded or real defect."""
    path = os.path.join(VERIF, "corpus", prop + ".jsonl")
    out = []
    if os.path.exists(path):
        with open(path, encoding="utf-8") as fd:
            for line in fd:
                line = line.strip()
                if line:
                    out.append(json.loads(line))
    return out


def short_tb(exc: BaseException, limit: int = 6) -> str:
    return "".join(traceback.format_exception(type(exc), exc, exc.__traceback__, limit=-limit))[-1500:]


def liquid_frame(exc: BaseException) -> str:
    """file:function of the innermost traceback frame inside liquid/ (mechanism id)."""
    best = "?"
    tb = exc.__traceback__
    while tb is not None:
        fn = tb.tb_frame.f_code.co_filename
        if "/liquid/" in fn and "/verif/" not in fn:
            best = fn.split("/liquid/", 1)[1] + ":" + tb.tb_frame.f_code.co_qualname
        tb = tb.tb_next
    return best


def root_cause(exc: BaseException) -> BaseException:
    """Follow __cause__/__context__ to the first non-Liquid exception (if wrapped)."""
    seen = set()
    cur: BaseException | None = exc
    last = exc
    while cur is not None and id(cur) not in seen:
        seen.add(id(cur))
        last = cur
        cur = cur.__cause__ or cur.__context__
    return last


def scratch_base() -> str | None:
    """Directory for transient per-case scratch trees (tmpfs when available: ext4 rmdir stalls)."""
    for d in (os.environ.get("VERIF_TMP"), "/dev/shm"):
        if d and os.path.isdir(d) and os.access(d, os.W_OK):
            return d
    return None
