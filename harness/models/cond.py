"""R-cond: reference model of Liquid truthiness, comparison, contains, and/or/not grouping.

Three-valued: UNSPEC marks cells the property / documentation does not settle.
Operands are ("val", python_value) | ("undef",) | ("empty",) | ("blank",).
"""

from __future__ import annotations

from decimal import Decimal
from typing import Any

UNSPEC = "UNSPEC"
TYPE_ERROR = "LiquidTypeError"
# set-valued cells: the property settles that the comparison cannot hold (or, for identical operands of <= / >=, can only hold through
# equality) but not whether an ordering of such operands is a type error
FALSE_OR_TYPE_ERROR = "false-or-LiquidTypeError"
TRUE_OR_TYPE_ERROR = "true-or-LiquidTypeError"


def kind(o) -> str:
    if o[0] != "val":
        return o[0]
    v = o[1]
    if v is None:
        return "nil"
    if isinstance(v, bool):
        return "bool"
    if isinstance(v, (int, float, Decimal)):
        return "num"
    if isinstance(v, str):
        return "str"
    if isinstance(v, (list, tuple)):
        return "list"
    if isinstance(v, dict):
        return "dict"
    if isinstance(v, range):
        return "range"
    return "other"


def truthy(o) -> Any:
    k = kind(o)
    if k in ("nil", "undef"):
        return False
    if k == "bool":
        return o[1]
    if k in ("empty", "blank"):
        return UNSPEC
    return True


def _struct_eq(a: Any, b: Any) -> Any:
    """Structural equality of python values under Liquid rules (bool is not a number)."""
    ka, kb = kind(("val", a)), kind(("val", b))
    if ka == "nil" and kb == "nil":
        return True
    if ka != kb:
        if {ka, kb} == {"bool", "num"}:
            return False
        return False
    if ka == "num":
        return a == b
    if ka in ("bool", "str"):
        return a == b
    if ka == "list":
        if len(a) != len(b):
            return False
        res = True
        for x, y in zip(a, b):
            r = _struct_eq(x, y)
            if r is UNSPEC:
                return UNSPEC
            # a bool/number pair that Python considers equal: not settled for nested values
            if {kind(("val", x)), kind(("val", y))} == {"bool", "num"} and x == y:
                return UNSPEC
            res = res and r
        return res
    if ka == "dict":
        if set(a) != set(b):
            return False
        res = True
        for k2 in a:
            r = _struct_eq(a[k2], b[k2])
            if r is UNSPEC:
                return UNSPEC
            if {kind(("val", a[k2])), kind(("val", b[k2]))} == {"bool", "num"} and a[k2] == b[k2]:
                return UNSPEC
            res = res and r
        return res
    if ka == "range":
        return list(a) == list(b)
    return UNSPEC


def eq(a, b) -> Any:
    ka, kb = kind(a), kind(b)
    if ka in ("empty", "blank") or kb in ("empty", "blank"):
        if ka in ("empty", "blank") and kb in ("empty", "blank"):
            return True if ka == kb else UNSPEC
        e, o = (a, b) if ka in ("empty", "blank") else (b, a)
        ko = kind(o)
        if ko in ("nil", "undef", "range"):
            return UNSPEC
        if ko == "str":
            if o[1] == "":
                return True
            if e[0] == "blank" and o[1].strip() == "":
                return True
            return False
        if ko in ("list", "dict"):
            return len(o[1]) == 0
        return False
    if ka in ("nil", "undef") or kb in ("nil", "undef"):
        return ka in ("nil", "undef") and kb in ("nil", "undef")
    return _struct_eq(a[1], b[1])


def lt(a, b) -> Any:
    ka, kb = kind(a), kind(b)
    if ka in ("empty", "blank") or kb in ("empty", "blank"):
        return UNSPEC
    if "bool" in (ka, kb):
        # a boolean is neither a number nor a string: it is never less than anything ("incompatible types raise" or plain false)
        return FALSE_OR_TYPE_ERROR
    if ka == "num" and kb == "num":
        return a[1] < b[1]
    if ka == "str" and kb == "str":
        return a[1] < b[1]
    return TYPE_ERROR


def le(a, b) -> Any:
    ka, kb = kind(a), kind(b)
    if (ka, kb) in (("num", "num"), ("str", "str")):
        return a[1] <= b[1]
    if {ka, kb} == {"num", "str"}:
        return TYPE_ERROR
    if ka in ("empty", "blank") or kb in ("empty", "blank"):
        return UNSPEC
    if "bool" in (ka, kb):
        e = eq(a, b)
        if e is UNSPEC:
            return UNSPEC
        return TRUE_OR_TYPE_ERROR if e else FALSE_OR_TYPE_ERROR
    # the remaining pairs (nil, undefined, arrays, hashes, ranges against anything) have no order: "ordering comparisons between
    # incompatible types raise a Liquid type error".  Equal operands may also satisfy <= / >= through their equality.
    e = eq(a, b)
    if e is UNSPEC:
        return UNSPEC
    return TRUE_OR_TYPE_ERROR if e else TYPE_ERROR


def contains(a, b) -> Any:
    ka, kb = kind(a), kind(b)
    if ka in ("empty", "blank") or kb in ("empty", "blank"):
        return UNSPEC
    if ka in ("nil", "undef") or kb in ("nil", "undef"):
        return False
    if (ka == "bool" and a[1] is False) or (kb == "bool" and b[1] is False):
        return False
    if ka == "str":
        if kb == "str":
            return b[1] in a[1]
        if kb == "num" and isinstance(b[1], int):
            return str(b[1]) in a[1]
        if kb == "num" and isinstance(b[1], float) and b[1] == b[1] and abs(b[1]) < 1e15 and (b[1] == 0 or abs(b[1]) >= 1e-4):
            # the needle is the number as a template prints it ({{ 1.5 }} -> 1.5); exponent notation and nan are left open
            return repr(b[1]) in a[1]
        if kb == "bool":
            return "true" in a[1]  # (false never gets here) - the needle is the text a template prints for it
        return UNSPEC  # stringification of compound needles is not settled
    if ka in ("list", "range"):
        res = False
        for x in a[1]:
            r = eq(("val", x), b)
            if r is UNSPEC:
                return UNSPEC
            if r:
                res = True
        return res
    if ka == "dict":
        if kb == "str":
            return b[1] in a[1]
        if kb in ("list", "dict"):
            return UNSPEC  # unhashable needle: only required not to raise a non-Liquid error (C02)
        if kb == "bool":
            return UNSPEC
        return b[1] in a[1]
    if ka in ("num", "bool"):
        return TYPE_ERROR
    return UNSPEC


def compare(op: str, a, b) -> Any:
    if op == "==":
        return eq(a, b)
    if op in ("!=", "<>"):
        r = eq(a, b)
        return r if r is UNSPEC else (not r)
    if op == "<":
        return lt(a, b)
    if op == ">":
        return lt(b, a)
    if op == "<=":
        return le(a, b)
    if op == ">=":
        return le(b, a)
    if op == "contains":
        return contains(a, b)
    raise ValueError(op)


# ------------------------------------------------------------------ flat boolean expression parser
# tokens: atoms are ("atom", value-or-UNSPEC-or-TYPE_ERROR) where value is bool; operators "and" "or" "not" "(" ")"


class Err(Exception):
    pass


def eval_flat(tokens: list) -> Any:
    """Evaluate a flat token list with `and`/`or` of equal precedence grouping from the right.

    Returns bool, UNSPEC or TYPE_ERROR.  Short-circuit: the right operand is only evaluated when needed
    (a type error in an operand that is not evaluated does not surface).
    """
    pos = [0]

    def peek():
        return tokens[pos[0]] if pos[0] < len(tokens) else None

    def nxt():
        t = tokens[pos[0]]
        pos[0] += 1
        return t

    def parse_expr():
        left = parse_unary()
        t = peek()
        if t in ("and", "or"):
            nxt()
            right = parse_expr()  # right associative, equal precedence
            return (t, left, right)
        return left

    def parse_unary():
        t = peek()
        if t == "not":
            nxt()
            # `not` takes the whole rest of the (sub)expression in this implementation; only generated in
            # positions where every reading agrees: before a parenthesised group or a final atom
            operand = parse_unary()
            return ("not", operand)
        if t == "(":
            nxt()
            e = parse_expr()
            if nxt() != ")":
                raise Err("paren")
            return e
        return nxt()

    tree = parse_expr()
    if pos[0] != len(tokens):
        raise Err("trailing")

    def ev(n):
        if isinstance(n, tuple) and n[0] == "atom":
            return n[1]() if callable(n[1]) else n[1]
        if n[0] == "not":
            v = ev(n[1])
            if v in (FALSE_OR_TYPE_ERROR, TRUE_OR_TYPE_ERROR):
                return UNSPEC
            return v if v in (UNSPEC, TYPE_ERROR) else (not v)
        op, l, r = n
        lv = ev(l)
        if lv in (FALSE_OR_TYPE_ERROR, TRUE_OR_TYPE_ERROR):
            return UNSPEC
        if lv in (UNSPEC, TYPE_ERROR):
            return lv
        if op == "and":
            if not lv:
                return False
            return ev(r)
        if lv:
            return True
        return ev(r)

    return ev(tree)
