"""Documented contracts of the built-in filters (C25), written from the property text.

Each contract is  post(args, kwargs, result) -> True (holds) | False (violated) | None (unspecified cell).
`args[0]` is the filter's left value.  Contracts never call the filter under test.
"""

from __future__ import annotations

import math
from decimal import Decimal
from fractions import Fraction
from typing import Any

WS = " \t\n\r\x0b\x0c"


def _is_undef(x: Any) -> bool:
    return type(x).__name__.endswith("Undefined")


def _plain_str(x: Any) -> bool:
    return type(x) is str


def _flat(xs: Any, level: int = 5) -> list:
    out = []
    for x in xs:
        if isinstance(x, (list, tuple)) and level:
            out.extend(_flat(x, level - 1))
        else:
            out.append(x)
    return out


def _seq_input(x: Any):
    """The documented coercion of a left value to a sequence; None => not specified here."""
    if isinstance(x, (list, tuple)):
        return _flat(x)
    return None


# ------------------------------------------------------------------ size / case / whitespace


def size(a, k, r):
    x = a[0]
    if _is_undef(x):
        return r == 0
    if isinstance(x, (str, list, tuple, dict, range)):
        return r == len(x)
    if x is None or isinstance(x, (bool, int, float, Decimal)):
        return r == 0
    return None


def _strop(fn):
    def post(a, k, r):
        if not _plain_str(a[0]):
            return None
        return type(r) is str and r == fn(a[0])

    return post


upcase = _strop(str.upper)
downcase = _strop(str.lower)
capitalize = _strop(str.capitalize)
strip = _strop(str.strip)
lstrip = _strop(str.lstrip)
rstrip = _strop(str.rstrip)


def split(a, k, r):
    """split then join with the same separator restores a non-empty string."""
    s = a[0]
    if not _plain_str(s) or len(a) < 2 or not _plain_str(a[1]) or s == "":
        return None
    sep = a[1]
    if sep == " " or s == sep:
        return None  # documented exceptions (whitespace-run splitting, input equal to the separator)
    if not isinstance(r, list) or not all(isinstance(x, str) for x in r):
        return False
    return sep.join(r) == s


# ------------------------------------------------------------------ arrays


def _same_items(a: list, b: list) -> bool:
    """Multiset equality by identity-or-equality (handles unhashables)."""
    if len(a) != len(b):
        return False
    rest = list(b)
    for x in a:
        for i, y in enumerate(rest):
            if x is y or (type(x) is type(y) and x == y):
                del rest[i]
                break
        else:
            return False
    return True


def _new_list(inp: Any, r: Any) -> bool:
    return isinstance(r, list) and r is not inp


def reverse(a, k, r):
    xs = _seq_input(a[0])
    if xs is None:
        return None
    return _new_list(a[0], r) and len(r) == len(xs) and all(x is y or x == y for x, y in zip(r, reversed(xs)))


def _homogeneous(xs: list, types: tuple) -> bool:
    return all(type(x) in types for x in xs) and not any(isinstance(x, float) and math.isnan(x) for x in xs)


def sort(a, k, r):
    xs = _seq_input(a[0])
    if xs is None or len(a) > 1:
        return None if xs is None else _sort_key(a, r, xs, natural=False)
    if not (_homogeneous(xs, (int, float)) or _homogeneous(xs, (str,))):
        return None
    return _new_list(a[0], r) and _same_items(xs, r) and all(r[i] <= r[i + 1] for i in range(len(r) - 1))


def _sort_key(a, r, xs, natural: bool):
    key = a[1]
    if not _plain_str(key) or not all(isinstance(x, dict) for x in xs):
        return None
    if not _new_list(a[0], r) or not _same_items(xs, r):
        return False
    have = [x for x in r if key in x]
    missing_started = False
    for x in r:
        if key not in x:
            missing_started = True
        elif missing_started:
            return False  # items without the key go to the end
    vals = [x[key] for x in have]
    if natural:
        if not all(isinstance(v, str) for v in vals):
            return None
        vals = [v.lower() for v in vals]
    elif not (_homogeneous(vals, (int, float)) or _homogeneous(vals, (str,))):
        return None
    return all(vals[i] <= vals[i + 1] for i in range(len(vals) - 1))


def sort_natural(a, k, r):
    xs = _seq_input(a[0])
    if xs is None:
        return None
    if len(a) > 1:
        return _sort_key(a, r, xs, natural=True)
    if not _homogeneous(xs, (str,)):
        return None
    return _new_list(a[0], r) and _same_items(xs, r) and all(r[i].lower() <= r[i + 1].lower() for i in range(len(r) - 1))


def uniq(a, k, r):
    xs = _seq_input(a[0])
    if xs is None or len(a) > 1:
        return None
    if any(isinstance(x, (bool, float)) for x in xs):
        return None  # 1 / 1.0 / true identification is not settled
    exp = []
    for x in xs:
        if not any(type(x) is type(y) and x == y for y in exp):
            exp.append(x)
    return _new_list(a[0], r) and len(r) == len(exp) and all(x is y or x == y for x, y in zip(r, exp))


def compact(a, k, r):
    xs = _seq_input(a[0])
    if xs is None or len(a) > 1:
        return None
    # nil values are removed: None itself, and whatever the map filter put in for a property that is missing (an object that equals nil)
    exp = [x for x in xs if x is not None and not (type(x).__name__ == "_Null")]
    return _new_list(a[0], r) and len(r) == len(exp) and all(x is y for x, y in zip(r, exp))


def concat(a, k, r):
    xs = _seq_input(a[0])
    if xs is None or len(a) < 2 or not isinstance(a[1], (list, tuple)):
        return None
    exp = xs + list(a[1])
    return isinstance(r, list) and r is not a[0] and r is not a[1] and len(r) == len(exp) and all(x is y or x == y for x, y in zip(r, exp))


def map_(a, k, r):
    xs = _seq_input(a[0])
    if xs is None or len(a) < 2 or not _plain_str(a[1]) or not all(isinstance(x, dict) for x in xs):
        return None
    key = a[1]
    if not _new_list(a[0], r) or len(r) != len(xs):
        return False
    for x, y in zip(xs, r):
        if key in x:
            if not (y is x[key] or y == x[key]):
                return False
        elif not (y is None or y == None):  # noqa: E711 - the map filter's null object compares equal to None
            return False
    return True


def _partition(a, r, keep_matching: bool):
    xs = _seq_input(a[0])
    if xs is None or len(a) < 2 or not _plain_str(a[1]) or not all(isinstance(x, dict) for x in xs):
        return None
    key = a[1]
    if len(a) > 2 and a[2] is not None and not _is_undef(a[2]):
        val = a[2]
        if isinstance(val, (bool, float)) or any(isinstance(x.get(key), (bool, float)) for x in xs):
            return None
        match = [x for x in xs if key in x and type(x[key]) is type(val) and x[key] == val]
        nomatch = [x for x in xs if not (key in x and type(x[key]) is type(val) and x[key] == val)]
        # values of a different type that compare equal (1 vs "1") are not settled
        if any(key in x and type(x[key]) is not type(val) and x[key] == val for x in xs):
            return None
    else:
        match = [x for x in xs if x.get(key) not in (None, False)]
        nomatch = [x for x in xs if x.get(key) in (None, False)]
    exp = match if keep_matching else nomatch
    return _new_list(a[0], r) and len(r) == len(exp) and all(x is y for x, y in zip(r, exp))


def where(a, k, r):
    return _partition(a, r, True)


def reject(a, k, r):
    return _partition(a, r, False)


def first(a, k, r):
    x = a[0]
    if isinstance(x, (list, tuple)):
        return (r is None) if not x else (r is x[0] or r == x[0])
    return None


def last(a, k, r):
    x = a[0]
    if isinstance(x, (list, tuple)):
        return (r is None) if not x else (r is x[-1] or r == x[-1])
    return None


def slice_(a, k, r):
    x = a[0]
    if not isinstance(x, (str, list)) or len(a) < 2 or type(a[1]) is not int:
        return None
    start = a[1]
    length = a[2] if len(a) > 2 else 1
    if type(length) is not int:
        return None
    n = len(x)
    if length < 0:
        return None
    if start < 0:
        start += n
        if start < 0:
            return None  # a start before the beginning is not settled
    exp = x[start : start + length]
    return (r == exp) and (isinstance(r, str) == isinstance(x, str))


# ------------------------------------------------------------------ truncate


def truncate(a, k, r):
    s = a[0]
    if not _plain_str(s):
        return None
    n = a[1] if len(a) > 1 else 50
    end = a[2] if len(a) > 2 else "..."
    if type(n) is not int or not _plain_str(end):
        return None
    if n < 0:
        return None
    if len(s) <= n:
        return r == s
    return isinstance(r, str) and r.endswith(end) and len(r) <= max(n, len(end))


def truncatewords(a, k, r):
    s = a[0]
    if not _plain_str(s):
        return None
    n = a[1] if len(a) > 1 else 15
    end = a[2] if len(a) > 2 else "..."
    if type(n) is not int or not _plain_str(end) or any(c in WS for c in end) or n >= 2**31 - 1:
        return None
    n = max(n, 1)
    if not isinstance(r, str):
        return False
    words = s.split()
    rw = r.split()
    if len(rw) > n:
        return False
    # the kept words are a prefix of the input's words (the last may carry the ellipsis)
    for i, w in enumerate(rw):
        if w != words[i] and not (i == len(rw) - 1 and w == words[i] + end):
            return False
    return True


# ------------------------------------------------------------------ arithmetic


def _sig6(x: Any) -> bool:
    """Operand with at most 6 significant digits, so 28-digit decimal arithmetic is exact."""
    if type(x) is int:
        return abs(x) < 10**6
    if type(x) is float:
        if math.isnan(x) or math.isinf(x):
            return False
        d = Decimal(repr(x))
        return len(d.as_tuple().digits) <= 6 and -6 <= d.as_tuple().exponent <= 6
    return False


def _num(x: Any):
    """Documented coercion: ints/floats as is, numeric strings parsed, everything else 0; None => unspecified."""
    if type(x) in (int, float):
        return x
    if x is None or _is_undef(x):
        return 0
    if type(x) is str:
        import re

        if re.fullmatch(r"-?\d{1,6}", x):
            return int(x)
        if re.fullmatch(r"-?\d{1,3}\.\d{1,3}", x):
            return float(x)
    return None


def _exact(x) -> Fraction:
    return Fraction(x) if type(x) is int else Fraction(repr(x))


def _agree(r: Any, exact: Fraction, both_int: bool):
    if both_int:
        return type(r) is int and r == exact
    if type(r) not in (int, float):
        return False
    if exact == 0:
        return r == 0
    return abs(Fraction(r) - exact) <= abs(exact) * Fraction(1, 10**12)


def _binop(fn, int_only_exact=False):
    def post(a, k, r):
        if len(a) < 2:
            return None
        x, y = _num(a[0]), _num(a[1])
        if x is None or y is None or not (_sig6(x) or (type(x) is int)) or not (_sig6(y) or (type(y) is int)):
            return None
        if (type(x) is float and not _sig6(x)) or (type(y) is float and not _sig6(y)):
            return None
        both_int = type(x) is int and type(y) is int
        try:
            exact = fn(_exact(x), _exact(y), both_int)
        except ZeroDivisionError:
            return None
        if exact is None:
            return None
        return _agree(r, exact, both_int)

    return post


plus = _binop(lambda x, y, i: x + y)
minus = _binop(lambda x, y, i: x - y)
times = _binop(lambda x, y, i: x * y)
divided_by = _binop(lambda x, y, i: Fraction(math.floor(x / y)) if i else x / y)


def _mod(x, y, i):
    if i:
        return x - y * math.floor(x / y)
    if (x < 0) != (y < 0) and x != 0:
        return None  # sign convention of a non-integer remainder with mixed signs is not settled
    return x - y * math.floor(x / y)


modulo = _binop(_mod)


def abs_(a, k, r):
    x = _num(a[0])
    if x is None or not (type(x) is int or _sig6(x)):
        return None
    return r == abs(x) and type(r) is type(abs(x))


def ceil(a, k, r):
    x = _num(a[0])
    if x is None or not (type(x) is int or _sig6(x)):
        return None
    return type(r) is int and r == math.ceil(_exact(x))


def floor(a, k, r):
    x = _num(a[0])
    if x is None or not (type(x) is int or _sig6(x)):
        return None
    return type(r) is int and r == math.floor(_exact(x))


def round_(a, k, r):
    x = _num(a[0])
    if x is None or not (type(x) is int or _sig6(x)):
        return None
    nd = a[1] if len(a) > 1 else None
    if nd is not None and not _is_undef(nd) and (type(nd) is not int or nd < 0 or nd > 6):
        return None
    nd = 0 if (nd is None or _is_undef(nd)) else nd
    ex = _exact(x) * 10**nd
    if ex - math.floor(ex) == Fraction(1, 2):
        return None  # ties are unspecified
    exp = Fraction(math.floor(ex + Fraction(1, 2)), 10**nd)
    if type(r) not in (int, float):
        return False
    return abs(Fraction(r) - exp) <= Fraction(1, 10**9)


def at_least(a, k, r):
    if len(a) < 2:
        return None
    x, y = _num(a[0]), _num(a[1])
    if x is None or y is None or (type(x) is float and math.isnan(x)) or (type(y) is float and math.isnan(y)):
        return None
    return r == max(x, y)


def at_most(a, k, r):
    if len(a) < 2:
        return None
    x, y = _num(a[0]), _num(a[1])
    if x is None or y is None or (type(x) is float and math.isnan(x)) or (type(y) is float and math.isnan(y)):
        return None
    return r == min(x, y)


def default(a, k, r):
    x = a[0]
    d = a[1] if len(a) > 1 else ""
    allow_false = k.get("allow_false", False)
    if type(allow_false) is not bool:
        return None
    empty = x is None or _is_undef(x) or (x is False and not allow_false) or (isinstance(x, (str, list, dict)) and len(x) == 0)
    if empty:
        return r is d if len(a) > 1 else r == ""
    if x is False or isinstance(x, (str, list, dict, int, float, bool)):
        return r is x
    return None


def defined_for(name: str, a: list, k: dict) -> bool:
    """Inputs that are squarely the documented use of a list filter: the filter returns a list for them, it does not raise.  (Everything else -
    mixed types, non-lists, odd keys - stays an open cell: an error there is not judged.)"""
    if k or not a or type(a[0]) is not list:
        return False
    xs = a[0]
    if name in ("reverse", "uniq", "compact") and len(a) == 1:
        return all(type(x) in (str, int) for x in xs) or all(isinstance(x, dict) for x in xs)
    if name in ("sort", "sort_natural") and len(a) == 1:
        return _homogeneous(xs, (str,)) or (name == "sort" and _homogeneous(xs, (int,)))
    if name in ("sort", "sort_natural", "map") and len(a) == 2:
        if not _plain_str(a[1]) or not a[1] or not all(type(x) is dict for x in xs):
            return False
        vals = [x[a[1]] for x in xs if a[1] in x]
        if name == "map":
            return True
        # the items are hashes and every value found under the key is a string (or, for sort, every one an integer): ties and items
        # without the key included
        return _homogeneous(vals, (str,)) or (name == "sort" and _homogeneous(vals, (int,)))
    if name in ("where", "reject") and len(a) in (2, 3):
        return _plain_str(a[1]) and bool(a[1]) and all(type(x) is dict for x in xs) and (len(a) == 2 or type(a[2]) in (str, int))
    if name == "concat" and len(a) == 2:
        return type(a[1]) is list
    return False


CONTRACTS = {
    "size": size, "upcase": upcase, "downcase": downcase, "capitalize": capitalize, "strip": strip, "lstrip": lstrip, "rstrip": rstrip,
    "split": split, "reverse": reverse, "sort": sort, "sort_natural": sort_natural, "uniq": uniq, "compact": compact, "concat": concat,
    "map": map_, "where": where, "reject": reject, "first": first, "last": last, "slice": slice_, "truncate": truncate,
    "truncatewords": truncatewords, "plus": plus, "minus": minus, "times": times, "divided_by": divided_by, "modulo": modulo,
    "abs": abs_, "ceil": ceil, "floor": floor, "round": round_, "at_least": at_least, "at_most": at_most, "default": default,
}
