"""R-loop: reference model of for / tablerow iteration (slice_collection semantics)."""

from __future__ import annotations

from typing import Any

UNSPEC = object()


def items_of(v: Any, string_sequences: bool) -> list:
    if isinstance(v, (list, tuple)):
        return list(v)
    if isinstance(v, dict):
        return [(k, x) for k, x in v.items()]
    if isinstance(v, range):
        return list(v)
    if isinstance(v, str):
        if string_sequences:
            return list(v)
        return [] if not v else [v]
    return []


def range_bound(v: Any) -> int:
    """A range bound that is not a number counts as 0, each bound on its own (nil, undefined, a non-numeric string); a numeric
    string or a float is converted to an integer."""
    if isinstance(v, bool):
        return 0 if not isinstance(v, int) else int(v)
    if isinstance(v, int):
        return v
    if isinstance(v, float):
        return int(v)
    if isinstance(v, str):
        try:
            return int(v)
        except ValueError:
            return 0
    return 0


def fmt(v: Any) -> str:
    """How a scalar item is rendered by {{ item }} (scalars only are generated)."""
    if v is None:
        return ""
    if v is True:
        return "true"
    if v is False:
        return "false"
    return str(v)


class LoopModel:
    def __init__(self, data: dict[str, Any], string_sequences: bool):
        self.data = data
        self.ss = string_sequences
        self.stop: dict[str, int] = {}
        self.unspecified = False
        self.for_stack: list[dict[str, int]] = []

    def value_of(self, spec: Any) -> Any:
        """limit/offset/cols spec -> integer (or None)."""
        if spec is None:
            return None
        v = spec["v"]
        return int(v)

    def coll_value(self, loop: dict[str, Any]) -> Any:
        c = loop["coll"]
        if c["form"] == "var":
            return self.data.get(c["name"])
        if c["form"] == "range":
            a, b = c["a"], c["b"]
            a = range_bound(self.data.get(a) if isinstance(a, str) else a)
            b = range_bound(self.data.get(b) if isinstance(b, str) else b)
            return range(a, b + 1) if a <= b else range(0)
        raise ValueError(c)

    def coll_text(self, loop: dict[str, Any]) -> str:
        c = loop["coll"]
        if c["form"] == "var":
            return c["name"]
        return f"({c['a']}..{c['b']})"

    def segment(self, loop: dict[str, Any]) -> list:
        items = items_of(self.coll_value(loop), self.ss)
        key = f"{loop['var']}-{self.coll_text(loop)}"
        off = loop.get("offset")
        if off == "continue":
            frm = self.stop.get(key, 0)
            if self.stop.get(key + "#unspec"):
                self.unspecified = True
        elif off is None:
            frm = 0
        else:
            frm = self.value_of(off)
        lim = self.value_of(loop.get("limit"))
        to = None if lim is None else frm + lim
        seg = [x for i, x in enumerate(items) if frm <= i and (to is None or i < to)]
        self.stop[key] = frm + len(seg)
        # the stored index after an offset outside [0, len] is not pinned down by the documentation
        self.stop[key + "#unspec"] = 1 if (frm < 0 or frm > len(items)) else 0
        if loop.get("reversed"):
            seg = seg[::-1]
        return seg

    def render(self, loops: list[dict[str, Any]]) -> str:
        return "".join(self.render_loop(lp) for lp in loops)

    def item_text(self, x: Any) -> str:
        if isinstance(x, tuple):
            return f"{fmt(x[0])}={fmt(x[1])}"
        return fmt(x)

    def render_loop(self, lp: dict[str, Any]) -> str:
        seg = self.segment(lp)
        n = len(seg)
        out: list[str] = []
        if lp["tag"] == "for":
            if n == 0:
                return "ELSE;" if lp.get("else") else ""
            if lp.get("quiet") is not None:
                # a body without any output (an assignment only): the items are visited, nothing is printed
                return ""
            for i, x in enumerate(seg):
                helper = {"index": i + 1}
                parent = self.for_stack[-1]["index"] if self.for_stack else ""
                out.append(
                    f"<{self.item_text(x)}|{i + 1}|{i}|{n - i}|{n - i - 1}|{fmt(i == 0)}|{fmt(i == n - 1)}|{n}|P{parent}>"
                )
                if lp.get("break_at") == i + 1:
                    break
                if lp.get("continue_at") == i + 1:
                    continue
                self.for_stack.append(helper)
                out.append(self.render(lp.get("body", [])))
                self.for_stack.pop()
                out.append(";")
            return "".join(out)
        # tablerow
        cols_spec = lp.get("cols")
        ncols = n if cols_spec is None else self.value_of(cols_spec)
        out.append('<tr class="row1">\n')
        col, row = 0, 1
        for i, x in enumerate(seg):
            if col == ncols and i > 0:  # (before the first item there is no row to wrap: cols 0 starts in row 1 like any other)
                col = 1
                row += 1
            else:
                col += 1
            out.append(f'<td class="col{col}">')
            out.append(
                f"<{self.item_text(x)}|{i + 1}|{i}|{n - i}|{n - i - 1}|{fmt(i == 0)}|{fmt(i == n - 1)}|{n}|c{col}|{col - 1}|{fmt(col == 1)}|{fmt(col == ncols)}|r{row}>"
            )
            out.append(self.render(lp.get("body", [])))
            out.append("</td>")
            if col == ncols and i != n - 1:
                out.append(f'</tr>\n<tr class="row{row + 1}">')
        out.append("</tr>\n")
        return "".join(out)


# ------------------------------------------------------------------ printer (template source)


def spec_src(spec: Any) -> str:
    if spec == "continue":
        return "continue"
    if spec["form"] == "lit":
        return str(spec["v"])
    if spec["form"] == "strlit":
        return f"'{spec['v']}'"
    return spec["name"]  # var / strvar


def loop_src(lp: dict[str, Any]) -> str:
    var = lp["var"]
    c = lp["coll"]
    coll = c["name"] if c["form"] == "var" else f"({c['a']}..{c['b']})"
    args = []
    if lp.get("limit") is not None:
        args.append(f"limit: {spec_src(lp['limit'])}")
    if lp.get("offset") is not None:
        args.append(f"offset: {spec_src(lp['offset'])}")
    if lp.get("cols") is not None:
        args.append(f"cols: {spec_src(lp['cols'])}")
    if lp.get("reversed"):
        args.append("reversed")
    if lp.get("arg_order"):
        args = [args[i % len(args)] for i in lp["arg_order"][: len(args)]] if args else args
        args = list(dict.fromkeys(args))
    head = f"{var} in {coll}" + (" " + " ".join(args) if args else "")
    item = f"{{{{ {var}[0] }}}}={{{{ {var}[1] }}}}" if lp.get("pairs") else f"{{{{ {var} }}}}"
    if lp["tag"] == "for":
        h = "forloop"
        body = (
            f"<{item}|{{{{ {h}.index }}}}|{{{{ {h}.index0 }}}}|{{{{ {h}.rindex }}}}|{{{{ {h}.rindex0 }}}}|{{{{ {h}.first }}}}|{{{{ {h}.last }}}}|{{{{ {h}.length }}}}|P{{{{ {h}.parentloop.index }}}}>"
        )
        if lp.get("break_at"):
            body += f"{{% if forloop.index == {lp['break_at']} %}}{{% break %}}{{% endif %}}"
        if lp.get("continue_at"):
            body += f"{{% if forloop.index == {lp['continue_at']} %}}{{% continue %}}{{% endif %}}"
        body += "".join(loop_src(c2) for c2 in lp.get("body", [])) + ";"
        els = "{% else %}ELSE;" if lp.get("else") else ""
        if lp.get("quiet") is not None:
            body = lp["quiet"]
        src = f"{{% for {head} %}}{body}{els}{{% endfor %}}"
        w = lp.get("wrap")
        if w:
            src = {"if": "{% if true %}@{% endif %}", "unless": "{% unless false %}@{% endunless %}", "case": "{% case 1 %}{% when 1 %}@{% endcase %}",
                   "for1": "{% for w_ in (1..1) %}@{% endfor %}", "else": "{% if false %}{% else %}@{% endif %}", "capture": "{% capture cw %}@{% endcapture %}{{ cw }}"}[w].replace("@", src)
        return src
    h = "tablerowloop"
    body = (
        f"<{item}|{{{{ {h}.index }}}}|{{{{ {h}.index0 }}}}|{{{{ {h}.rindex }}}}|{{{{ {h}.rindex0 }}}}|{{{{ {h}.first }}}}|{{{{ {h}.last }}}}|{{{{ {h}.length }}}}"
        f"|c{{{{ {h}.col }}}}|{{{{ {h}.col0 }}}}|{{{{ {h}.col_first }}}}|{{{{ {h}.col_last }}}}|r{{{{ {h}.row }}}}>"
    )
    body += "".join(loop_src(c2) for c2 in lp.get("body", []))
    return f"{{% tablerow {head} %}}{body}{{% endtablerow %}}"
