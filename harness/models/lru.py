"""R-lru: reference model of a bounded LRU map and a WGL linearizability checker."""

from __future__ import annotations

from typing import Any

MISSING = "<KeyError>"


class RLru:
    """List of (k, v), most recently used first."""

    __slots__ = ("cap", "items")

    def __init__(self, cap: int, items: tuple = ()):
        self.cap = cap
        self.items = list(items)

    def state(self) -> tuple:
        return tuple(self.items)

    def _find(self, k):
        for i, (kk, _) in enumerate(self.items):
            if kk == k:
                return i
        return -1

    def apply(self, op: str, k: Any = None, v: Any = None) -> Any:
        """Apply an operation, return its documented result."""
        if op == "set":
            i = self._find(k)
            if i >= 0:
                del self.items[i]
            elif len(self.items) >= self.cap:
                self.items.pop()
            self.items.insert(0, (k, v))
            return None
        if op == "getitem":
            i = self._find(k)
            if i < 0:
                return MISSING
            it = self.items.pop(i)
            self.items.insert(0, it)
            return it[1]
        if op == "get":
            i = self._find(k)
            if i < 0:
                return v  # default
            it = self.items.pop(i)
            self.items.insert(0, it)
            return it[1]
        if op == "del":
            i = self._find(k)
            if i < 0:
                return MISSING
            del self.items[i]
            return None
        if op == "contains":
            return self._find(k) >= 0
        if op == "len":
            return len(self.items)
        if op in ("keys", "iter"):
            return [k for k, _ in self.items]
        if op == "values":
            return [v for _, v in self.items]
        if op == "items":
            return [(k, v) for k, v in self.items]
        raise ValueError(op)


def real_apply(cache, op: str, k: Any = None, v: Any = None) -> Any:
    """The same operation on the real cache, result normalised like the model's."""
    try:
        if op == "set":
            cache[k] = v
            return None
        if op == "getitem":
            return cache[k]
        if op == "get":
            return cache.get(k, v)
        if op == "del":
            del cache[k]
            return None
        if op == "contains":
            return k in cache
        if op == "len":
            return len(cache)
        if op == "keys":
            return list(cache.keys())
        if op == "iter":
            return list(iter(cache))
        if op == "values":
            return list(cache.values())
        if op == "items":
            return [tuple(x) for x in cache.items()]
    except KeyError:
        return MISSING
    raise ValueError(op)


def linearizable(history: list[dict[str, Any]], cap: int, max_nodes: int = 200_000) -> bool | None:
    """WGL search with memoisation.  history: [{id, op, k, v, result, call, ret}].
    True / False / None (search budget exhausted => inconclusive)."""
    n = len(history)
    ops = sorted(history, key=lambda o: o["call"])
    full = (1 << n) - 1
    seen: set[tuple[int, tuple]] = set()
    nodes = [0]

    def search(done: int, state: tuple) -> bool | None:
        if done == full:
            return True
        key = (done, state)
        if key in seen:
            return False
        seen.add(key)
        nodes[0] += 1
        if nodes[0] > max_nodes:
            return None
        # minimal return time among pending ops: an op may go first only if it was called before that
        min_ret = min(ops[i]["ret"] for i in range(n) if not done >> i & 1)
        inconclusive = False
        for i in range(n):
            if done >> i & 1:
                continue
            o = ops[i]
            if o["call"] > min_ret:
                break  # sorted by call: later ones cannot be minimal either
            m = RLru(cap, state)
            res = m.apply(o["op"], o.get("k"), o.get("v"))
            if _same(res, o["result"]):
                r = search(done | (1 << i), m.state())
                if r:
                    return True
                if r is None:
                    inconclusive = True
        return None if inconclusive else False

    return search(0, ())


def _same(a: Any, b: Any) -> bool:
    if isinstance(a, list) and isinstance(b, list):
        return [_norm(x) for x in a] == [_norm(x) for x in b]
    return _norm(a) == _norm(b)


def _norm(x: Any) -> Any:
    if isinstance(x, (list, tuple)):
        return tuple(_norm(y) for y in x)
    return x
