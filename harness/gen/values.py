"""Typed JSON codec for render data + hostile / friendly value pools (G-data)."""

from __future__ import annotations

import datetime
import decimal
import math
from typing import Any

# --------------------------------------------------------------------------- codec


def enc(v: Any) -> Any:
    """Python value -> JSON-serialisable tagged form (exact types preserved)."""
    t = type(v)
    if v is None or t is bool or t is str:
        return v
    if isinstance(v, str):
        # str subclasses (markupsafe.Markup) must keep their type through the codec
        try:
            from markupsafe import Markup

            if isinstance(v, Markup):
                return {"$": "markup", "v": str.__str__(v)}
        except ImportError:  # pragma: no cover
            pass
        return str.__str__(v)
    if t is int:
        if abs(v) < 2**53:
            return v
        return {"$": "int", "v": hex(v)}
    if t is float:
        if math.isnan(v):
            return {"$": "float", "v": "nan"}
        if math.isinf(v):
            return {"$": "float", "v": "inf" if v > 0 else "-inf"}
        return {"$": "float", "v": repr(v)}
    if t is list:
        return [enc(x) for x in v]
    if t is tuple:
        return {"$": "tuple", "v": [enc(x) for x in v]}
    if t is dict:
        if all(isinstance(k, str) and k != "$" for k in v):
            return {"$": "dict", "v": {k: enc(x) for k, x in v.items()}}
        return {"$": "items", "v": [[enc(k), enc(x)] for k, x in v.items()]}
    if t is range:
        return {"$": "range", "v": [v.start, v.stop, v.step]}
    if t is decimal.Decimal:
        return {"$": "decimal", "v": str(v)}
    if t is datetime.datetime:
        return {"$": "datetime", "v": v.isoformat()}
    if t is datetime.date:
        return {"$": "date", "v": v.isoformat()}
    try:
        from markupsafe import Markup

        if t is Markup:
            return {"$": "markup", "v": str(v)}
    except ImportError:  # pragma: no cover
        pass
    if t is bytes:
        return {"$": "bytes", "v": v.hex()}
    return {"$": "repr", "v": repr(v)}


def dec(j: Any) -> Any:
    if j is None or isinstance(j, (bool, str, int)):
        return j
    if isinstance(j, float):
        return j
    if isinstance(j, list):
        return [dec(x) for x in j]
    if isinstance(j, dict):
        tag = j.get("$")
        v = j.get("v")
        if tag == "int":
            return int(v, 16)
        if tag == "float":
            return float(v)
        if tag == "tuple":
            return tuple(dec(x) for x in v)
        if tag == "dict":
            return {k: dec(x) for k, x in v.items()}
        if tag == "items":
            return {_hashable(dec(k)): dec(x) for k, x in v}
        if tag == "range":
            return range(*v)
        if tag == "decimal":
            return decimal.Decimal(v)
        if tag == "datetime":
            return datetime.datetime.fromisoformat(v)
        if tag == "date":
            return datetime.date.fromisoformat(v)
        if tag == "markup":
            from markupsafe import Markup

            return Markup(v)
        if tag == "bytes":
            return bytes.fromhex(v)
        if tag == "repr":
            return v
        raise ValueError(f"bad tagged value {j!r}")
    raise ValueError(f"bad value {j!r}")


def _hashable(k: Any) -> Any:
    if isinstance(k, list):
        return tuple(k)
    return k


def snapshot(v: Any, depth: int = 0) -> Any:
    """Type-strict structural snapshot (used to detect mutation of render data)."""
    if depth > 12:
        return ("deep",)
    t = type(v).__name__
    if isinstance(v, dict):
        return (t, tuple((snapshot(k, depth + 1), snapshot(x, depth + 1)) for k, x in v.items()))
    if isinstance(v, (list, tuple)):
        return (t, tuple(snapshot(x, depth + 1) for x in v))
    if isinstance(v, float):
        return (t, repr(v))
    if isinstance(v, (int, str, bool, bytes, type(None), decimal.Decimal, range, datetime.date)):
        return (t, repr(v))
    return (t, repr(v))


# --------------------------------------------------------------------------- pools

HUGE = 10**5000

HOSTILE_SCALARS: list[Any] = [
    None, True, False, 0, 1, -1, 2, 7, -3, 255, 2**63 - 1, 2**63 + 1, -(2**63) - 1, 10**30, HUGE,
    0.0, -0.0, 1.5, -2.5, 1e308, 1e-320, float("inf"), float("-inf"), float("nan"),
    "", " ", "a", "abc", "Hello World", "0", "1", "-1", "3.7", "-0.5", "1e3", "1e999", "nan", "inf",
    "-inf", "0x10", "1_000", " 42 ", "٣", "%", "%s", "%(x)s", "%d %%", "100%", "{{", "{% x %}",
    "<b>&amp;</b>", "a,b,c", "a b  c", "\n", "\t x \n", "é", "日本語", "\ud800", "\x00", "'", '"',
    "Zm9v", "Zm9", "!!!!", "/w==", "gICA", "%41%zz%", "%ff", "&lt;p&gt;", "true", "false", "nil",
    "2020-01-01", "now", "today", "2020-13-45", "1577836800", "first", "size", "last",
    # digit strings and timestamps beyond time_t / year 9999, markup that trips html.parser, malformed character references
    "9" * 30, "9" * 400, "-" + "9" * 25, "253402300800", "-62135596801", 2**31, 253402300800, -62135596801, "1e400",
    # strings for which str.isdigit() / isnumeric() hold but int() fails, and digits of other scripts
    "\u00b2", "\u2460\u2461\u2462", "20\u00b25", "\u00bd", "\u0664\u0662", "\uff11\uff12", "1\u00b2", "\u2082",
    "<![x]>", "<!x", "<?php", "<!DOCTYPE", "a<![CDATA[x]]>b", "<a b='c", "</", "<!--", "&#xZZ;", "&#99999999999;", "<![if x]>", "<!ELEMENT",
]

HOSTILE_COMPOUND: list[Any] = [
    [], [1, 2, 3], ["b", "a", "C"], [None], [None, 1, "a"], [[1, 2], [3, [4, 5]]], [1, "1", 1.0, True],
    [{"k": 1}, {"k": 2}, {"j": 3}], [{"k": "b"}, {"k": "a"}, {"k": None}, 3], [float("nan"), 1],
    {}, {"a": 1}, {"k": [1, 2]}, {"size": 5, "first": "f", "last": "l"}, {"a": {"b": {"c": 1}}},
    {"title": "x", "k": None}, range(0), range(1, 4), range(-2, 2), (1, 2), [[]], [{}], ["", " "],
    [3, 1, 2, 10, "10", "x"], ["a b", "c"], [{"k": {"n": 1}}, {"k": {"n": 0}}],
    [float("inf"), float("-inf")], [float("inf"), float("nan")], ["inf", "-inf"], [1e308, 1e308, 1e308], [HUGE, 1.5], [{"k": float("inf")}, {"k": float("-inf")}],
    ["9" * 400], [2**63, -(2**63)],
]

FRIENDLY_STR = ["", "a", "b", "ab", "abc", "foo bar", "Hello", "x y z", "10", "2", "-4", "3.5", " pad ", "a,b", "A-b"]
FRIENDLY_INT = [0, 1, 2, 3, -1, 5, 10, 42]
FRIENDLY_FLOAT = [0.5, 1.5, -2.25, 3.0]


def hostile_pool() -> list[Any]:
    return list(HOSTILE_SCALARS) + list(HOSTILE_COMPOUND)


def literal_source(v: Any) -> str | None:
    """Liquid literal text for a value, when one exists."""
    if v is None:
        return "nil"
    if v is True:
        return "true"
    if v is False:
        return "false"
    if type(v) is int:
        if abs(v) < 10**40:
            return str(v)
        return None
    if type(v) is float:
        if math.isnan(v) or math.isinf(v):
            return None
        s = repr(v)
        if "e" in s or "E" in s:
            return None
        return s
    if type(v) is str:
        if "'" not in v and "\n" not in v and "%}" not in v and "}}" not in v:
            return "'" + v + "'"
        if '"' not in v and "\n" not in v and "%}" not in v and "}}" not in v:
            return '"' + v + '"'
        return None
    if type(v) is range and v.step == 1 and len(v) > 0:
        return f"({v.start}..{v.stop - 1})"
    return None


def random_value(rng, depth: int = 0, hostile: float = 0.3) -> Any:
    """JSON-like value, nested to depth <= 3."""
    r = rng.random()
    if r < hostile:
        v = rng.choice(HOSTILE_SCALARS if depth else HOSTILE_SCALARS + HOSTILE_COMPOUND)
        # "now" / "today" name the current time wherever a value is used as a date or as a variable name ({{ [s] }}): render data for
        # checks that compare outputs must not depend on the clock (C02, which only looks at exception types, draws from the pool itself)
        return "soon" if v in ("now", "today") else v
    r = rng.random()
    if depth >= 3 or r < 0.55:
        k = rng.random()
        if k < 0.35:
            return rng.choice(FRIENDLY_STR)
        if k < 0.65:
            return rng.choice(FRIENDLY_INT)
        if k < 0.8:
            return rng.choice(FRIENDLY_FLOAT)
        if k < 0.9:
            return rng.choice([True, False])
        return None
    if r < 0.8:
        return [random_value(rng, depth + 1, hostile) for _ in range(rng.randint(0, 4))]
    keys = ["a", "b", "k", "title", "size", "first", "n", "x y", "0"]
    return {rng.choice(keys): random_value(rng, depth + 1, hostile) for _ in range(rng.randint(0, 3))}
