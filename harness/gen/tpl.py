"""G-ast: harness-side abstract template language, random generator and printer.

Nodes (JSON-serialisable):
  ["text", s]
  ["out", expr]
  ["tag", name, expr]
  ["block", name, expr, [[inner_name, inner_expr, body], ...]]   first entry is the main body
         (inner_name == "" for the main body), end tag is "end"+name
  ["raw", s] ["comment", s] ["doc", s] ["inline", s] ["tcomment", s]
  ["liquid", [nodes without text]]
Expressions are source strings (their syntax does not depend on delimiters).

The printer is parameterised by a Style (delimiters, whitespace control, spacing), so
that the same abstract template can be printed for different environments (C11) and
metadata (assigned names, tags, filters) is known without trusting the repo parser.
"""

from __future__ import annotations

import random
from dataclasses import dataclass, field
from typing import Any

from harness.gen import values as V


@dataclass
class Style:
    ts: str = "{%"
    te: str = "%}"
    os: str = "{{"
    oe: str = "}}"
    cs: str = "{#"
    ce: str = "#}"
    wc: float = 0.0  # probability of a whitespace-control hyphen (needs an rng)
    tight: float = 0.0  # probability of no padding inside delimiters
    line_comment_from_cs: bool = False  # C11: print liquid-tag line comments with the marker derived from cs


def print_nodes(nodes: list, st: Style, rng: random.Random | None = None) -> str:
    out: list[str] = []
    for n in nodes:
        _print(n, st, rng, out)
    return "".join(out)


def _h(st: Style, rng) -> str:
    return "-" if (rng is not None and st.wc and rng.random() < st.wc) else ""


def _pad(st: Style, rng) -> str:
    return "" if (rng is not None and st.tight and rng.random() < st.tight) else " "


def _tag(st, rng, name, expr) -> str:
    p = _pad(st, rng)
    body = name + ((" " + expr) if expr else "")
    return f"{st.ts}{_h(st, rng)}{p}{body}{p}{_h(st, rng)}{st.te}"


def _print(n, st: Style, rng, out: list[str]) -> None:
    k = n[0]
    if k == "text":
        out.append(n[1])
    elif k == "out":
        p = _pad(st, rng)
        out.append(f"{st.os}{_h(st, rng)}{p}{n[1]}{p}{_h(st, rng)}{st.oe}")
    elif k == "tag":
        out.append(_tag(st, rng, n[1], n[2]))
    elif k == "block":
        name, expr, parts = n[1], n[2], n[3]
        out.append(_tag(st, rng, name, expr))
        for i, (iname, iexpr, body) in enumerate(parts):
            if i:
                out.append(_tag(st, rng, iname, iexpr))
            for c in body:
                _print(c, st, rng, out)
        out.append(_tag(st, rng, "end" + name, ""))
    elif k == "raw":
        out.append(f"{st.ts} raw {st.te}{n[1]}{st.ts} endraw {st.te}")
    elif k == "comment":
        out.append(f"{st.ts} comment {st.te}{n[1]}{st.ts} endcomment {st.te}")
    elif k == "doc":
        out.append(f"{st.ts} doc {st.te}{n[1]}{st.ts} enddoc {st.te}")
    elif k == "inline":
        out.append(f"{st.ts} # {n[1]} {st.te}")
    elif k == "tcomment":
        out.append(f"{st.cs} {n[1]} {st.ce}")
    elif k == "liquid":
        lines: list[str] = []
        # inside a liquid tag the line-comment marker is the environment's comment start string without '{' ('#' by default)
        marker = (st.cs.replace("{", "") or "#") if st.line_comment_from_cs else "#"
        for c in n[1]:
            _print_line(c, lines, 1, marker)
        out.append(f"{st.ts}{_h(st, rng)} liquid\n" + "\n".join(lines) + f"\n{_h(st, rng)}{st.te}")
    else:  # pragma: no cover
        raise ValueError(k)


def _print_line(n, lines: list[str], ind: int, marker: str = "#") -> None:
    pad = "  " * ind
    k = n[0]
    if k == "out":
        lines.append(f"{pad}echo {n[1]}")
    elif k == "tag":
        lines.append(f"{pad}{n[1]} {n[2]}".rstrip())
    elif k == "block":
        name, expr, parts = n[1], n[2], n[3]
        lines.append(f"{pad}{name} {expr}".rstrip())
        for i, (iname, iexpr, body) in enumerate(parts):
            if i:
                lines.append(f"{pad}{iname} {iexpr}".rstrip())
            for c in body:
                _print_line(c, lines, ind + 1, marker)
        lines.append(f"{pad}end{name}")
    elif k == "inline":
        lines.append(f"{pad}{marker} {n[1]}")
    elif k == "liquid":
        for c in n[1]:
            _print_line(c, lines, ind, marker)
    else:  # text etc. cannot appear inside a liquid tag
        raise ValueError(f"{k} inside liquid tag")


def liquid_safe(nodes: list) -> bool:
    for n in nodes:
        k = n[0]
        if k in ("text", "raw", "comment", "doc", "tcomment"):
            return False
        if k == "block" and not all(liquid_safe(b) for _, _, b in n[3]):
            return False
        if k == "block" and n[1] in ("comment",):
            return False
        if k == "liquid" and not liquid_safe(n[1]):
            return False
    return True


# ------------------------------------------------------------------------------ data
# Variable-name convention shared by generator and data maker.
INT_VARS = ["n", "m"]
FLOAT_VARS = ["f"]
STR_VARS = ["s", "t"]
BOOL_VARS = ["b"]
NIL_VARS = ["z"]
LIST_VARS = ["xs", "ys", "os"]
DICT_VARS = ["h", "d"]
UNDEF_VARS = ["u", "uu"]
ALL_VARS = INT_VARS + FLOAT_VARS + STR_VARS + BOOL_VARS + NIL_VARS + LIST_VARS + DICT_VARS + UNDEF_VARS


def make_data(rng: random.Random, hostile: float = 0.1, drop: float = 0.1) -> dict[str, Any]:
    d: dict[str, Any] = {
        "n": rng.choice(V.FRIENDLY_INT),
        "m": rng.choice(V.FRIENDLY_INT),
        "f": rng.choice(V.FRIENDLY_FLOAT),
        "s": rng.choice(V.FRIENDLY_STR),
        "t": rng.choice(V.FRIENDLY_STR),
        "b": rng.choice([True, False]),
        "z": None,
        "xs": [rng.choice(V.FRIENDLY_INT) for _ in range(rng.randint(0, 5))],
        "ys": [rng.choice(V.FRIENDLY_STR) for _ in range(rng.randint(0, 4))],
        "os": [
            {"k": rng.choice(V.FRIENDLY_INT + [None]), "title": rng.choice(V.FRIENDLY_STR), "tags": ["p", "q"][: rng.randint(0, 2)]}
            for _ in range(rng.randint(0, 4))
        ],
        "h": {"a": rng.choice(V.FRIENDLY_INT), "b": rng.choice(V.FRIENDLY_STR), "k": [1, 2, 3][: rng.randint(0, 3)]},
        "d": {"a": {"b": [1, 2, {"c": "deep"}]}, "list": ["p", "q", "r"], "x y": 1, "size": 99, "s": "key", "2024": "Y", "7-1": "Z", "a-b": "AB", "": "E", "a.b": "DOT", "x\\y": "BSL", "\u20ac": "EUR", "a\u2192b": "ARROW", "\u00d7": "TIMES", "\u65e5\u672c": "NIHON", "t\tb": "TAB", "q'q": "QQ", "..": "DOTS",
              "first": "F1", "1st": "ST", "é": "U", "if": "KIF", "and": "KAND", "true": "KTRUE", "empty": "KEMPTY", "in": ["KIN"], "with": "KWITH", "contains": "KCONT",
              "nil": "KNIL", "not": {"x": "KNOT"}, "for": "KFOR", "as": "KAS", "blank": "KBLANK", "or": "KOR", "else": "KELSE"},
    }
    for k in list(d):
        r = rng.random()
        if r < drop:
            del d[k]
        elif r < drop + hostile:
            d[k] = V.random_value(rng, 0, hostile=0.7)
    d["true"], d["empty"], d["nil"], d["blank"] = "RTRUE", "REMPTY", "RNIL", "RBLANK"  # root names spelled like literals (bracket notation only)
    d["r1"] = rng.choice([0, 1, 2, 3, 5, -1])
    d["r2"] = rng.choice([0, 1, 2, 4, 7])
    return d


# ------------------------------------------------------------------------- generator

STD_FILTERS_STR = [
    ("upcase", []), ("downcase", []), ("capitalize", []), ("strip", []), ("lstrip", []), ("rstrip", []),
    ("size", []), ("append", ["s"]), ("prepend", ["s"]), ("remove", ["s"]), ("remove_first", ["s"]),
    ("remove_last", ["s"]), ("replace", ["s", "s"]), ("replace_first", ["s", "s"]), ("replace_last", ["s", "s"]),
    ("slice", ["i"]), ("slice", ["i", "i"]), ("split", ["s"]), ("truncate", ["i"]), ("truncate", ["i", "s"]),
    ("truncatewords", ["i"]), ("escape", []), ("escape_once", []), ("url_encode", []), ("url_decode", []),
    ("base64_encode", []), ("base64_decode", []), ("base64_url_safe_encode", []), ("base64_url_safe_decode", []),
    ("strip_html", []), ("strip_newlines", []), ("newline_to_br", []), ("squish", []), ("default", ["s"]),
    ("default", ["s", "kw:allow_false:b"]),
]
STD_FILTERS_NUM = [
    ("abs", []), ("ceil", []), ("floor", []), ("round", []), ("round", ["i"]), ("plus", ["n"]), ("minus", ["n"]),
    ("times", ["n"]), ("divided_by", ["n"]), ("modulo", ["n"]), ("at_least", ["n"]), ("at_most", ["n"]),
    ("size", []), ("default", ["n"]),
]
STD_FILTERS_ARR = [
    ("join", []), ("join", ["s"]), ("first", []), ("last", []), ("reverse", []), ("sort", []), ("sort", ["k"]),
    ("sort_natural", []), ("sort_natural", ["k"]), ("uniq", []), ("uniq", ["k"]), ("compact", []), ("compact", ["k"]),
    ("concat", ["a"]), ("map", ["k"]), ("where", ["k"]), ("where", ["k", "n"]), ("reject", ["k"]), ("reject", ["k", "n"]),
    ("size", []), ("sum", []), ("sum", ["k"]), ("find", ["k", "n"]), ("find_index", ["k", "n"]), ("has", ["k"]), ("has", ["k", "n"]),
    ("slice", ["i", "i"]),
]
EXTRA_FILTERS = [("json", []), ("index", ["n"]), ("sort_numeric", []), ("t", []), ("gettext", [])]

# result kind of filter when applied (rough, for chaining)
_RESULT_KIND = {
    "size": "num", "split": "arr", "join": "str", "first": "any", "last": "any", "map": "arr", "sum": "num",
    "find": "any", "find_index": "num", "has": "any", "json": "str", "index": "num",
}


@dataclass
class Meta:
    assigned: set[str] = field(default_factory=set)
    tags: set[str] = field(default_factory=set)
    filters: set[str] = field(default_factory=set)
    partials: set[str] = field(default_factory=set)
    roots: set[str] = field(default_factory=set)
    nodes: int = 0


@dataclass
class GenCfg:
    max_depth: int = 3
    max_nodes: int = 14
    extra: bool = False  # extra tags (macro/call/with/translate) and filters
    ternary: bool = False
    logical_not: bool = False
    parens: bool = False
    partial_names: list[str] = field(default_factory=list)  # names available to include/render
    allow_include: bool = True
    var_partial_name: bool = True  # `include pname` (name bound in data by the driver); off inside partials: pname may name the partial itself,
    # and a self-including partial under a loop in lax mode fans out to loop_length ** context_depth_limit renders (a harness hang, not a verdict)
    allow_render: bool = True
    tags: set[str] | None = None  # restrict to these tag names (None = all standard)
    filters_ok: set[str] | None = None  # restrict filters
    no_filters: set[str] = field(default_factory=set)
    liquid_tag: bool = True
    comments: bool = True
    wild: float = 0.08  # probability of ill-typed / hostile expression choices
    text_alphabet: list[str] = field(default_factory=lambda: ["a", "b", " ", "\n", "x-y", ".", "1", "é", "  ", "\r\n", "\r"])
    template_comments: bool = False
    weird_paths: bool = True  # bracketed roots, nested [x] roots, quoted segments
    loops_stateful: bool = True  # offset: continue, cycle, ifchanged, increment
    weird_idents: bool = False  # names bound by assign / capture written in bracket notation (['a b'], ['true'], ["w"])
    wide_floats: bool = False  # float literals whose Python repr uses exponent notation
    orphan_interrupts: float = 0.0  # probability of allowing break / continue outside any loop of the same template
    string_lits: list[str] = field(default_factory=lambda: ["", "a", "b", "ab", "x y", "k", "title", "1", "2", ","])


class Gen:
    def __init__(self, rng: random.Random, cfg: GenCfg | None = None):
        self.rng = rng
        self.cfg = cfg or GenCfg()
        self.meta = Meta()
        self.loop_vars: list[str] = []
        self.local_names: list[str] = []
        self.macros: list[tuple[str, int]] = []
        self._uniq = 0

    # ---- helpers
    def ch(self, seq):
        return self.rng.choice(seq)

    def p(self, x: float) -> bool:
        return self.rng.random() < x

    def allowed(self, tag: str) -> bool:
        return self.cfg.tags is None or tag in self.cfg.tags

    # ---- expressions
    def str_lit(self) -> str:
        s = self.ch(self.cfg.string_lits)
        qs = [q for q in ("'", '"') if q not in s]
        if not qs:
            s = s.replace('"', "")
            qs = ['"']
        q = self.ch(qs)
        return f"{q}{s}{q}"

    def literal(self, kind: str = "any") -> str:
        r = self.rng
        if kind == "any":
            kind = self.ch(["s", "i", "f", "b", "nil", "i", "s"])
        if kind in ("s", "k"):
            if kind == "k":
                return self.ch(["'k'", "'title'", "'a'", '"k"'])
            return self.str_lit()
        if kind in ("i", "n"):
            if kind == "n" and self.p(0.3):
                return self.ch(["1.5", "0.5", "-2.0", "3.0"])
            return str(self.ch([0, 1, 2, 3, -1, 5, 10, -2]))
        if kind == "f":
            if self.cfg.wide_floats and self.p(0.25):
                return self.ch(["100000000000000000000.0", "0.00001", "-0.000001", "123456789012345678.0", "0.0001", "10000000000000000.0"])
            return self.ch(["1.5", "0.5", "-2.25", "3.0"])
        if kind == "b":
            return self.ch(["true", "false"])
        if kind == "a":
            return self.ch(LIST_VARS)
        return self.ch(["nil", "null"]) if r.random() < 0.5 else "nil"

    def var(self, kind: str = "any") -> str:
        pools = {
            "s": STR_VARS, "i": INT_VARS, "n": INT_VARS + FLOAT_VARS, "f": FLOAT_VARS, "b": BOOL_VARS,
            "a": LIST_VARS, "k": STR_VARS, "h": DICT_VARS, "nil": NIL_VARS + UNDEF_VARS,
        }
        if kind == "any" or self.p(self.cfg.wild):
            pool = ALL_VARS + self.loop_vars + self.local_names
        else:
            pool = list(pools.get(kind, ALL_VARS))
            if self.loop_vars and self.p(0.3):
                pool = pool + self.loop_vars
            if self.local_names and self.p(0.3):
                pool = pool + self.local_names
        root = self.ch(pool)
        self.meta.roots.add(root)
        return root

    def path(self, kind: str = "any") -> str:
        r = self.rng.random()
        root = self.var(kind)
        if r < 0.45:
            return root
        if root in ("d",) or (kind == "any" and self.p(0.3)):
            segs = self.ch(
                [".a.b[0]", ".a.b[2].c", ".list[1]", ".list.first", ".list.last", ".list.size", "['x y']", ".size",
                 ".a.b.size", ".list[-1]", ".list[n]", "[s]", "[t]", ".a['b'][1]", '["list"][0]', ".nope", ".a.nope.x", ".list[9]",
                 "['2024']", '["7-1"]', "['a-b']", ".a-b", "['']", "['a.b']", ".first", "['first']", "['1st']", "['é']", ".é", "['size']", "['0']", "[' ']",
                 # keys spelled like keywords of the expression language: only reachable in bracket notation
                 "['\u20ac']", "['a\u2192b']", "['\u00d7']", "['\u65e5\u672c']", "['x\\y']", "['t\tb']", '["q\'q"]', "['..']", "['if']", "['and']", "['true']", "['empty']", "['in']", "['with']", "['contains']", "['nil']", "['not'].x", "['for']", "['as']", "['blank']", "['or']", "['else']"]
            )
            self.meta.roots.update({"n", "s", "t"} & set(segs.replace("[", " ").replace("]", " ").split()))
            return "d" + segs if root == "d" else root + self.ch([".a", ".b", ".k", "[0]", ".size", ".first", ".last", "[-1]", ".title", "['a']", ".k[0]"])
        if root in ("h",):
            return root + self.ch([".a", ".b", ".k", ".k[0]", ".k.size", "['a']", ".size", ".nope", ".first", ".k.last"])
        if root in ("os",):
            return root + self.ch(["[0].k", "[0].title", ".first.title", ".last.k", "[1].tags[0]", ".size", "[-1].title", "[0]"])
        if root in LIST_VARS:
            return root + self.ch(["[0]", "[1]", "[-1]", ".first", ".last", ".size", "[n]", "[9]"])
        if root in self.loop_vars:
            return root + self.ch(["", "", ".k", ".title", "[0]", "[1]", ".size"])
        if root in STR_VARS:
            return root + self.ch(["", "", ".size", ".first", "[0]"])
        if self.cfg.weird_paths and not root.startswith("[") and self.p(0.15):
            w = self.ch([f'["{root}"]', f"['{root}']", f"[ '{root}' ]", "['true']", "['empty']", "['nil']", "['blank']"])
            return w
        if self.cfg.weird_paths and self.p(0.03):
            return "[s]"
        return root

    def primitive(self, kind: str = "any") -> str:
        r = self.rng.random()
        if r < 0.55:
            return self.path(kind)
        if r < 0.9 or kind not in ("a", "any"):
            if kind in ("a", "h", "nil"):
                return self.path(kind)
            return self.literal(kind)
        return self.range_()

    def range_(self) -> str:
        # r1 / r2 are always small ints in make_data: a hostile bound (2**63, 10**5000) makes a loop that never ends in practice,
        # which is a workload hazard (watchdog -> inconclusive), not a verdict; hostile range bounds are C02's dedicated sweep
        a = self.ch(["1", "0", "r1", "-1", "2", "r2"])
        b = self.ch(["3", "5", "r1", "r2", "2", "0", "xs.size"])
        for x in (a, b):
            if x[0].isalpha():
                self.meta.roots.add(x.split(".")[0])
        return f"({a}..{b})"

    def filter_arg(self, spec: str) -> str:
        if spec.startswith("kw:"):
            _, name, kind = spec.split(":")
            return f"{name}: {self.primitive(kind)}"
        if self.p(self.cfg.wild):
            return self.primitive("any")
        if self.p(0.6):
            return self.literal(spec)
        return self.primitive(spec)

    def filters(self, kind: str, n: int) -> str:
        out = []
        for _ in range(n):
            if self.p(self.cfg.wild):
                pool = STD_FILTERS_STR + STD_FILTERS_NUM + STD_FILTERS_ARR
            elif kind in ("s", "k"):
                pool = STD_FILTERS_STR
            elif kind in ("i", "n", "f", "num"):
                pool = STD_FILTERS_NUM
            elif kind in ("a", "arr"):
                pool = STD_FILTERS_ARR
            else:
                pool = STD_FILTERS_STR + STD_FILTERS_NUM + STD_FILTERS_ARR
            if self.cfg.extra and self.p(0.1):
                pool = EXTRA_FILTERS
            cand = [f for f in pool if f[0] not in self.cfg.no_filters and (self.cfg.filters_ok is None or f[0] in self.cfg.filters_ok)]
            if not cand:
                break
            name, specs = self.ch(cand)
            self.meta.filters.add(name)
            args = ", ".join(self.filter_arg(s) for s in specs)
            out.append(f"{name}: {args}" if args else name)
            nk = _RESULT_KIND.get(name)
            if nk:
                kind = nk
            elif kind in ("a", "arr") and name in ("reverse", "sort", "sort_natural", "uniq", "compact", "concat", "where", "reject", "slice"):
                kind = "arr"
            elif name in ("default",):
                pass
            elif name in [f[0] for f in STD_FILTERS_STR]:
                kind = "s"
            elif name in [f[0] for f in STD_FILTERS_NUM]:
                kind = "num"
        return "".join(" | " + f for f in out)

    def filtered(self, kind: str = "any") -> str:
        if kind == "any":
            kind = self.ch(["s", "n", "a", "s", "n", "any", "h"])
        left = self.primitive(kind)
        n = self.ch([0, 0, 1, 1, 2, 3])
        expr = left + self.filters(kind, n)
        if self.cfg.ternary and self.p(0.15):
            expr += " if " + self.boolean(1)
            if self.p(0.6):
                expr += " else " + self.primitive(kind) + self.filters(kind, self.ch([0, 1]))
            if self.p(0.25):
                expr += " ||" + self.filters(kind, 1)[2:]
        return expr

    def comparison(self) -> str:
        r = self.rng.random()
        if r < 0.25:
            return self.primitive("any")
        if r < 0.5:
            k = self.ch(["n", "s"])
            if self.cfg.parens and self.p(0.15):
                # a parenthesised logical expression as an operand of a comparison
                grp = f"({self.primitive('any')} {self.ch(['and', 'or'])} {self.primitive('any')})"
                other = self.primitive("any")
                op = self.ch(["==", "!="])
                return f"{grp} {op} {other}" if self.p(0.5) else f"{other} {op} {grp}"
            return f"{self.primitive(k)} {self.ch(['==', '!=', '<', '>', '<=', '>=', '<>'])} {self.primitive(k)}"
        if r < 0.65:
            return f"{self.primitive('any')} {self.ch(['==', '!='])} {self.ch(['empty', 'blank', 'nil', 'true', 'false', self.literal()])}"
        if r < 0.85:
            k = self.ch(["s", "a", "h"])
            return f"{self.path(k)} contains {self.primitive('s' if k != 'a' else 'any')}"
        return f"{self.primitive('any')} {self.ch(['==', '<', '>='])} {self.primitive('any')}"

    def boolean(self, depth: int = 2) -> str:
        if depth <= 0 or self.p(0.4):
            c = self.comparison()
            if self.cfg.logical_not and self.p(0.15):
                return "not " + c
            return c
        left = self.boolean(depth - 1)
        right = self.boolean(depth - 1)
        op = self.ch(["and", "or"])
        if self.cfg.parens and self.p(0.4):
            if self.p(0.5):
                left = f"({left})"
            else:
                right = f"({right})"
        e = f"{left} {op} {right}"
        if self.cfg.parens and self.cfg.logical_not and self.p(0.1):
            e = f"not ({e})"
        return e

    # ---- nodes
    def text(self) -> list:
        n = self.rng.randint(1, 4)
        return ["text", "".join(self.ch(self.cfg.text_alphabet) for _ in range(n))]

    def body(self, depth: int, lo: int = 0, hi: int = 3) -> list:
        return [self.node(depth) for _ in range(self.rng.randint(lo, hi))]

    def new_name(self) -> str:
        name = self.ch(["v", "w", "s", "n", "xs", "acc", "t"])
        if self.cfg.weird_idents and self.p(0.15):
            return self.ch(["['a b']", '["w"]', "['true']", "['v-1']", "['it''s']".replace("''", ""), "['é']", "['2024']", "['if']", '["x y"]'])
        return name

    def node(self, depth: int) -> list:
        self.meta.nodes += 1
        over = self.meta.nodes > self.cfg.max_nodes
        r = self.rng.random()
        if depth >= self.cfg.max_depth or over:
            r = r * 0.5  # leaves only
        if r < 0.14:
            return self.text()
        if r < 0.30:
            return ["out", self.filtered()]
        if r < 0.50:
            return self.leaf_tag(depth)
        return self.block_tag(depth)

    def leaf_tag(self, depth: int) -> list:
        opts = ["assign", "echo", "increment", "decrement", "cycle", "comment", "raw", "inline", "include", "render", "break", "continue", "call", "tcomment", "doc"]
        for _ in range(8):
            k = self.ch(opts)
            if not self.allowed(k):
                continue
            if k in ("comment", "raw", "inline", "doc") and not self.cfg.comments:
                continue
            if k == "tcomment" and not self.cfg.template_comments:
                continue
            if k in ("break", "continue") and not self.loop_vars and not (self.cfg.orphan_interrupts and self.rng.random() < self.cfg.orphan_interrupts):
                continue
            if k == "call" and not (self.cfg.extra and self.macros):
                continue
            if k == "include" and not (self.cfg.allow_include and self.cfg.partial_names):
                continue
            if k == "render" and not (self.cfg.allow_render and self.cfg.partial_names):
                continue
            if k in ("increment", "decrement", "cycle") and not self.cfg.loops_stateful:
                continue
            break
        else:
            return ["out", self.filtered()]
        if k not in ("tcomment",):
            self.meta.tags.add("#" if k == "inline" else k)
        if k == "assign":
            name = self.new_name()
            self.meta.assigned.add(name)
            self.local_names.append(name)
            expr = self.filtered()
            if self.loop_vars:
                # inside a loop, a value built from the assigned name itself (s = ... | join: s, s = s | append: s) grows geometrically with
                # the iterations: a workload hazard, not a subject of any property. Such expressions are drawn again.
                import re as _re

                for _ in range(6):
                    if not _re.search(r"(?<![\w.'\"])" + _re.escape(name) + r"(?![\w'\"])", expr):
                        break
                    expr = self.filtered()
                else:
                    expr = "1"
            return ["tag", "assign", f"{name} = {expr}"]
        if k == "echo":
            return ["tag", "echo", self.filtered()]
        if k in ("increment", "decrement"):
            return ["tag", k, self.ch(["c", "cnt", "n", "v"])]
        if k == "cycle":
            items = ", ".join(self.primitive(self.ch(["s", "i"])) for _ in range(self.rng.randint(1, 3)))
            grp = self.ch(["", "", "'g': ", "s: ", '"h": ', "1: "])
            if grp.startswith("s"):
                self.meta.roots.add("s")
            return ["tag", "cycle", grp + items]
        if k == "comment":
            return ["comment", self.ch(["", " note ", " {{ s }} ", " {% if %} ", "x\ny"])]
        if k == "raw":
            return ["raw", self.ch(["", " {{ s }} ", "{% if x %}", "plain", " a\n b ", "a{", "{", "%}", "}}", "#}", "{%", "a{ "])]
        if k == "doc":
            return ["doc", self.ch(["", " text ", " {{ s }} "])]
        if k == "inline":
            return ["inline", self.ch(["note", "a b", ""])]
        if k == "tcomment":
            return ["tcomment", self.ch(["note", "{{ s }}", ""])]
        if k in ("break", "continue"):
            return ["tag", k, ""]
        if k == "call":
            name, npar = self.ch(self.macros)
            args = [self.primitive("any") for _ in range(self.rng.randint(0, npar + 1))]
            kw = [f"{self.ch(['p0', 'p1', 'q'])}: {self.primitive('any')}" for _ in range(self.rng.randint(0, 2))]
            return ["tag", "call", f"{name} " + ", ".join(args + kw)]
        # include / render
        name = self.ch(self.cfg.partial_names)
        self.meta.partials.add(name)
        expr = f"'{name}'"
        if k == "include" and self.p(0.1) and self.cfg.var_partial_name:
            expr = "pname"  # variable template name, bound in data by the driver
            self.meta.roots.add("pname")
        r = self.rng.random()
        if r < 0.25:
            expr += f" with {self.path(self.ch(['a', 'h', 's']))}"
            if self.p(0.5):
                expr += f" as {self.ch(['item', 'v', 's'])}"
        elif r < 0.45:
            expr += f" for {self.path('a')}"
            if self.p(0.5):
                expr += f" as {self.ch(['item', 'v', 's'])}"
        if self.p(0.5):
            kws = [f"{self.ch(['arg', 'v', 's', 'n'])}: {self.primitive('any')}" for _ in range(self.rng.randint(1, 2))]
            expr += self.ch([", ", " "]) + ", ".join(kws)
        return ["tag", k, expr]

    def loop_expr(self, var: str, tablerow: bool = False) -> str:
        it = self.ch([self.path("a"), self.path("a"), self.range_(), self.path("h"), self.path("s"), self.path("any")])
        e = f"{var} in {it}"
        opts = []
        if self.p(0.3):
            opts.append(f"limit: {self.ch(['1', '2', '3', 'n', '0', '10'])}")
        if self.p(0.3):
            o = self.ch(["1", "2", "n", "0", "5"])
            if self.cfg.loops_stateful and self.p(0.3):
                o = "continue"
            opts.append(f"offset: {o}")
        if tablerow and self.p(0.6):
            opts.append(f"cols: {self.ch(['1', '2', '3', 'n'])}")
        if self.p(0.2):
            opts.append("reversed")
        self.rng.shuffle(opts)
        sep = self.ch([" ", ", "])
        return e + ("" if not opts else " " + sep.join(opts))

    def block_tag(self, depth: int) -> list:
        opts = ["if", "if", "unless", "case", "for", "for", "tablerow", "capture", "ifchanged", "liquid", "with", "macro", "translate"]
        for _ in range(8):
            k = self.ch(opts)
            if not self.allowed(k):
                continue
            if k in ("with", "macro", "translate") and not self.cfg.extra:
                continue
            if k == "liquid" and not self.cfg.liquid_tag:
                continue
            if k == "ifchanged" and not self.cfg.loops_stateful:
                continue
            break
        else:
            return ["out", self.filtered()]
        self.meta.tags.add(k)
        d = depth + 1
        if k in ("if", "unless"):
            parts = [["", "", self.body(d, 1, 3)]]
            for _ in range(self.ch([0, 0, 1, 2])):
                parts.append(["elsif", self.boolean(2), self.body(d, 0, 2)])
            if self.p(0.5):
                parts.append(["else", "", self.body(d, 0, 2)])
            return ["block", k, self.boolean(2), parts]
        if k == "case":
            parts = [["", "", [["text", self.ch(["", " ", "\n"])]]]]
            for _ in range(self.rng.randint(1, 3)):
                vals = self.ch([", ", " or "]).join(self.primitive(self.ch(["i", "s"])) for _ in range(self.rng.randint(1, 2)))
                parts.append(["when", vals, self.body(d, 0, 2)])
            if self.p(0.5):
                parts.append(["else", "", self.body(d, 0, 2)])
                if self.p(0.3):
                    # when / else blocks in any order, more than one else: each block keeps its place
                    for _ in range(self.rng.randint(1, 2)):
                        if self.p(0.6):
                            parts.append(["when", self.primitive(self.ch(["i", "s"])), self.body(d, 0, 2)])
                        else:
                            parts.append(["else", "", self.body(d, 0, 2)])
            return ["block", "case", self.primitive(self.ch(["i", "s", "any"])), parts]
        if k in ("for", "tablerow"):
            var = self.ch(["i", "x", "item", "o"])
            expr = self.loop_expr(var, tablerow=(k == "tablerow"))
            self.loop_vars.append(var)
            body = self.body(d, 1, 3)
            if self.p(0.4):
                helper = "forloop" if k == "for" else "tablerowloop"
                prop = self.ch(["index", "index0", "rindex", "rindex0", "first", "last", "length"] + (["parentloop.index", "name"] if k == "for" else ["col", "col0", "row", "col_first", "col_last"]))
                body.append(["out", f"{helper}.{prop}"])
            self.loop_vars.pop()
            parts = [["", "", body]]
            if k == "for" and self.p(0.3):
                parts.append(["else", "", self.body(d, 0, 2)])
            return ["block", k, expr, parts]
        if k == "capture":
            name = self.new_name()
            self.meta.assigned.add(name)
            self.local_names.append(name)
            body = self.body(d, 0, 3)
            if self.loop_vars:
                # inside a loop, a capture whose body prints the captured name itself grows geometrically (see assign): drawn again
                import json as _json
                import re as _re

                for _ in range(6):
                    if not _re.search(r"(?<![\w.])" + _re.escape(name) + r"(?![\w])", _json.dumps(body)):
                        break
                    body = self.body(d, 0, 2)
                else:
                    body = [["text", "c"]]
            return ["block", "capture", name, [["", "", body]]]
        if k == "ifchanged":
            return ["block", "ifchanged", "", [["", "", self.body(d, 1, 2)]]]
        if k == "liquid":
            inner = []
            for _ in range(self.rng.randint(1, 4)):
                for _try in range(6):
                    n = self.node(d)
                    if liquid_safe([n]):
                        inner.append(n)
                        break
            if not inner:
                inner = [["out", self.filtered()]]
            return ["liquid", inner]
        if k == "with":
            kws = ", ".join(f"{self.ch(['a1', 'v', 's', 'n'])}: {self.primitive('any')}" for _ in range(self.rng.randint(1, 2)))
            return ["block", "with", kws, [["", "", self.body(d, 1, 3)]]]
        if k == "macro":
            self._uniq += 1
            name = f"'mac{self._uniq}'"
            npar = self.rng.randint(0, 2)
            params = []
            pnames = [f"p{i}" for i in range(npar)]
            if npar and self.p(0.12):
                # a parameter named like one of the names every macro body gets anyway: the parameter is what the body sees
                pnames[self.rng.randrange(npar)] = self.ch(["args", "kwargs"])
            for pn in pnames:
                params.append(pn + (f": {self.literal()}" if self.p(0.4) else ""))
            saved = (self.loop_vars, self.local_names)
            self.loop_vars, self.local_names = [], pnames + ["args", "kwargs"]
            body = self.body(d, 1, 3)
            body.append(["out", self.ch(pnames + ["args", "kwargs | size"])])
            self.loop_vars, self.local_names = saved
            self.macros.append((name, npar))
            self.meta.tags.add("macro")
            return ["block", "macro", f"{name} " + ", ".join(params), [["", "", body]]]
        if k == "translate":
            args = []
            if self.p(0.3):
                args.append(f"count: {self.primitive('i')}")
            if self.p(0.3):
                args.append(f"you: {self.primitive('s')}")
            parts = [["", "", [["text", self.ch(["Hello", "Hi  there", " a "])], ["out", self.ch(["you", "s", "n"])]]]]
            self.meta.roots.update({"s", "n"})
            if self.p(0.4):
                parts.append(["plural", "", [["text", "Many"], ["out", "count"]]])
            return ["block", "translate", ", ".join(args), parts]
        raise AssertionError(k)

    def template(self, lo: int = 1, hi: int = 6) -> list:
        return [self.node(0) for _ in range(self.rng.randint(lo, hi))]


def gen_template_set(rng: random.Random, cfg: GenCfg, n_partials: int = 2) -> tuple[list, dict[str, list], Meta]:
    """Main template + partials (partials may include/render later partials only: no recursion)."""
    names = [f"p{i}" for i in range(n_partials)]
    if n_partials and rng.random() < 0.5:
        names[0] = "dir/p0.liquid"
    partials: dict[str, list] = {}
    meta_all = Meta()
    for i in reversed(range(n_partials)):
        sub = GenCfg(**{**cfg.__dict__})
        sub.partial_names = names[i + 1 :]
        sub.var_partial_name = False
        sub.max_nodes = max(4, cfg.max_nodes // 2)
        g = Gen(rng, sub)
        g.local_names = ["item", "v", "arg"]
        partials[names[i]] = g.template(1, 4)
        _merge(meta_all, g.meta)
    main_cfg = GenCfg(**{**cfg.__dict__})
    main_cfg.partial_names = names
    g = Gen(rng, main_cfg)
    main = g.template()
    _merge(meta_all, g.meta)
    return main, partials, meta_all


def _merge(a: Meta, b: Meta) -> None:
    a.assigned |= b.assigned
    a.tags |= b.tags
    a.filters |= b.filters
    a.partials |= b.partials
    a.roots |= b.roots
    a.nodes += b.nodes
