"""G-malformed: token-level mutation of valid sources and raw markup soup."""

from __future__ import annotations

import random
import re

MARKUP_RE = re.compile(r"(\{%-?.*?-?%\}|\{\{-?.*?-?\}\})", re.DOTALL)

TAG_NAMES = [
    "if", "elsif", "else", "endif", "unless", "endunless", "case", "when", "endcase", "for", "endfor", "break",
    "continue", "tablerow", "endtablerow", "capture", "endcapture", "assign", "echo", "cycle", "increment",
    "decrement", "ifchanged", "endifchanged", "include", "render", "liquid", "comment", "endcomment", "raw",
    "endraw", "doc", "enddoc", "#", "nosuchtag", "end", "macro", "endmacro", "call", "with", "endwith", "block",
    "endblock", "extends", "translate", "plural", "endtranslate", "",
]
EXPR_FRAGMENTS = [
    "", "x", "x y", "x in", "x in y", "x in (1..3)", "x in (1..", "a == b", "a ==", "== b", "a and", "or", "a | b:",
    "a | ", "| upcase", "a |", "'unterminated", '"x', "a.b.", ".a", "a[", "a[]", "a[1", "a['x'", "a[1]b", "(1..2", "1..2)",
    "(a..b)", "x = ", "= 1", "x = 1 |", "x: 1", ",", ",,", "a,,b", "x = y | f: ,", "a ? b", "a && b", "a !! b", "@", "$x",
    "not", "not not a", "(a", "a)", "((a))", "a if", "a if b else", "a else b", "1 2 3", "x in y limit", "x in y limit:",
    "x in y offset: continue, limit: -1", "x in y cols:", "'p' with", "'p' for", "'p' with x as", "'p', a:", "'p' a: 1 b: 2",
    "1: 'a', 'b'", "'g':", ":", "a: 'b'", "x in y reversed reversed", "x.y in z", "'s' in z", "x in y z", "a contains", "contains b",
    "a <> b", "a <=> b", "a < b < c", "true", "nil", "empty", "blank", "a == empty", "-", "--1", "1.", ".5", "1.2.3", "a.1", "a.-1",
    "a[-1]", "a[1.5]", "a['b'].c", "a | f: b: 1", "a | f: b = 1", "a | f:b:c", "x-1", "x?", "?x", "é", "日本", "\x00", "a\nb",
    "x in y\nlimit: 2", "'a' 'b'", "[x]", "[[x]]", "[1]", "['a']['b']", "a[b[c[d]]]", "a[b.c", "product required", "name required x",
    "'m' a, b: 1, c", "'m', , a", "m a b", "count: 2, x", "x: 1, count:", "when", "x or y", "1, 2 or 3", "1,", "or 1",
    # a valid prefix followed by junk (some tag parsers stop reading at the first thing they do not understand)
    "1, a[\"b\"] c", "1 2", "a b", "1, a.b c", "x y z", "'a' 'b' c", "1 or 2 3", "a == 1 b", "x in y z w", "x = 1 2", "'p' with a b", "a | upcase b", "1, 2,, 3", "a, b c, d",
]


def split_tokens(source: str) -> list[str]:
    return [t for t in MARKUP_RE.split(source) if t != ""]


def mutate(rng: random.Random, source: str, n: int = 2) -> str:
    toks = split_tokens(source)
    if not toks:
        toks = [""]
    for _ in range(rng.randint(1, n)):
        op = rng.random()
        i = rng.randrange(len(toks))
        if op < 0.15 and len(toks) > 1:
            del toks[i]
        elif op < 0.27:
            toks.insert(i, toks[i])
        elif op < 0.37 and len(toks) > 1:
            j = rng.randrange(len(toks))
            toks[i], toks[j] = toks[j], toks[i]
        elif op < 0.47:
            t = toks[i]
            if len(t) > 1:
                k = rng.randrange(1, len(t))
                toks[i] = t[:k]
        elif op < 0.60:
            toks.insert(i, "{% " + rng.choice(TAG_NAMES) + " " + rng.choice(EXPR_FRAGMENTS) + " %}")
        elif op < 0.70:
            toks.insert(i, "{{ " + rng.choice(EXPR_FRAGMENTS) + " }}")
        elif op < 0.85:
            # replace the expression of a tag
            m = re.match(r"(\{%-?\s*)(#|\w*)(.*?)(-?%\})$", toks[i], re.DOTALL)
            if m:
                toks[i] = f"{m.group(1)}{m.group(2)} {rng.choice(EXPR_FRAGMENTS)} {m.group(4)}"
            else:
                m2 = re.match(r"(\{\{-?)(.*?)(-?\}\})$", toks[i], re.DOTALL)
                if m2:
                    toks[i] = f"{m2.group(1)} {rng.choice(EXPR_FRAGMENTS)} {m2.group(3)}"
                else:
                    toks[i] = toks[i] + rng.choice(["{%", "{{", "%}", "}}", "{", "%", "-"])
        elif op < 0.93:
            # rename a tag
            m = re.match(r"(\{%-?\s*)(#|\w*)(.*)$", toks[i], re.DOTALL)
            if m:
                toks[i] = f"{m.group(1)}{rng.choice(TAG_NAMES)}{m.group(3)}"
        else:
            k = rng.randrange(len(toks[i]) + 1)
            toks[i] = toks[i][:k] + rng.choice(["{%", "%}", "{{", "}}", "-", "{%-", "-%}", "\n", "{% raw %}", "{% endraw %}", "{#", "#}"]) + toks[i][k:]
    return "".join(toks)


SOUP = ["{%", "%}", "{{", "}}", "{%-", "-%}", "{{-", "-}}", " ", "\n", "a", "if", "endif", "for", "x", "in", "(", ")", "..", "|", ":", ",",
        "'", '"', "[", "]", ".", "1", "-", "=", "==", "<", "raw", "endraw", "comment", "endcomment", "liquid", "#", "{#", "#}", "else",
        "case", "when", "endcase", "endfor", "assign", "echo", "é", "\t", "doc", "enddoc", "%", "{", "}"]


def soup(rng: random.Random, n: int = 12) -> str:
    return "".join(rng.choice(SOUP) + rng.choice(["", "", " "]) for _ in range(rng.randint(1, n)))


def random_tag_source(rng: random.Random) -> str:
    """A few tags with random expression fragments, mostly balanced."""
    parts = []
    for _ in range(rng.randint(1, 4)):
        name = rng.choice(TAG_NAMES)
        expr = rng.choice(EXPR_FRAGMENTS)
        parts.append(f"{{% {name} {expr} %}}")
        if rng.random() < 0.5:
            parts.append(rng.choice(["a", " ", "{{ x }}", "{{ " + rng.choice(EXPR_FRAGMENTS) + " }}"]))
        if rng.random() < 0.5 and name and not name.startswith("end") and name != "#":
            parts.append(f"{{% end{name} %}}")
    return "".join(parts)
