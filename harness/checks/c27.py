"""C27 Macro calls and with blocks bind arguments as documented.

Monitor: M1 (rendered output of a body that prints every parameter, args and kwargs).
Oracle : reference model R-macro (inline), three-valued.
"""

from __future__ import annotations

import itertools
from typing import Any

from harness import core, drv

PROP = "C27"
TECHNIQUE = "reference-model runtime monitor (R-macro) over the exhaustive signature x call-shape space, plus nested with blocks"
RULE = (
    "macro: every signature with 0..3 parameters, each without default / literal default / late-bound variable default, called with 0..4 "
    "positional and every ordered selection of 0..3 distinct keyword names from {p0,p1,p2,z0,z1} (matching and non-matching), keywords "
    "before or after positionals (exhaustive); duplicate keyword names are generated and counted as unspecified. with: nested with blocks "
    "to depth 3 around assigned, global and undefined names incl. assignment inside the block. Non-trivial = a call/with that binds >= 1 "
    "name, distinct by source."
    " Rounds 5-6 added enumerated families: two or three calls of one definition (every ordered pair of 24 call shapes); calls whose arguments lack commas."
)
REQUIRED = [
    ("liquid/extra/tags/macro_tag.py", "CallNode.macro_args"),
    ("liquid/extra/tags/macro_tag.py", "CallNode.render_to_output"),
    ("liquid/extra/tags/macro_tag.py", "MacroNode.render_to_output"),
    ("liquid/extra/tags/_with.py", "WithNode.render_to_output"),
    ("liquid/builtin/expressions/arguments.py", "parse_arguments"),
    ("liquid/builtin/expressions/arguments.py", "Parameter.parse"),
]

_env = None


def env():
    global _env
    if _env is None:
        _env = drv.make_env({"extra": True})
    return _env


_lax = None


def lax_env():
    global _lax
    if _lax is None:
        _lax = drv.make_env({"extra": True, "mode": "lax"})
    return _lax


PNAMES = ["p0", "p1", "p2"]
KNAMES = ["p0", "p1", "p2", "z0", "z1"]
BODY = (
    "[" + "|".join(f"{p}={{{{ {p} }}}}" for p in PNAMES) + "|args={{ args | join: ',' }}|kwargs={% for kv in kwargs %}{{ kv[0] }}={{ kv[1] }};{% endfor %}"
    "|loc={{ loc }}|g={{ g }}]"
)


def call_source(case: dict[str, Any]) -> str:
    nil = case.get("nil_args", False)  # every argument is given as nil: a parameter bound to nil is bound all the same
    tag = case.get("tag", "")
    pos = ["nil" if nil else f"'A{i}{tag}'" for i in range(case["npos"])]
    kws = [f"{k}: " + ("nilvar" if nil else f"'K{j}{tag}'") for j, k in enumerate(case["kws"])]
    if case.get("kw_first"):
        call_args = kws + pos
    else:
        call_args = pos + kws
    joiner = ", " if case.get("call_comma", True) else " "
    call = "{% call 'm'" + ((", " if case.get("lead_comma") else " ") + joiner.join(call_args) if call_args else "") + " %}"
    if case.get("in_loop"):
        call = "{% for t in (1..2) %}" + call + "{% endfor %}"
    return call


def macro_source(case: dict[str, Any]) -> str:
    params = []
    for i, d in enumerate(case["params"]):
        if d == "none":
            params.append(PNAMES[i])
        elif d == "lit":
            params.append(f"{PNAMES[i]}: 'D{i}'")
        else:
            params.append(f"{PNAMES[i]}: dv")
    sep = ", " if case.get("comma", True) else " "
    head = "{% macro 'm'" + ((sep if case.get("lead_comma") else " ") + ", ".join(params) if params else "") + " %}"
    call = "".join(call_source(dict(case, **c)) for c in case["calls"]) if case.get("calls") else call_source(case)
    # dv is assigned AFTER the macro definition: defaults are bound late, in the caller's scope at call time
    return "{% assign dv = 'early' %}{% assign loc = 'LOCAL' %}" + head + BODY + "{% endmacro %}{% assign dv = 'late' %}" + call


def macro_expected(case: dict[str, Any]):
    if case.get("calls"):
        # several calls of one definition in one render: each call binds afresh, nothing a call bound is left for the next one
        outs = [macro_expected(dict({k: v for k, v in case.items() if k != "calls"}, **c)) for c in case["calls"]]
        return None if any(o is None for o in outs) else "".join(o * (2 if c.get("in_loop") else 1) for o, c in zip(outs, case["calls"]))
    tag = case.get("tag", "")
    n = len(case["params"])
    kws = case["kws"]
    if len(set(kws)) != len(kws):
        return None  # duplicate keyword names: unspecified
    bound: dict[str, str] = {}
    npos = case["npos"]
    nil = case.get("nil_args", False)
    for i in range(min(n, npos)):
        bound[PNAMES[i]] = "" if nil else f"A{i}{tag}"
    excess_args = ["" if nil else f"A{i}{tag}" for i in range(n, npos)]
    excess_kw = []
    for j, k in enumerate(kws):
        if k in PNAMES[:n]:
            bound[k] = "" if nil else f"K{j}{tag}"
        else:
            excess_kw.append((k, "" if nil else f"K{j}{tag}"))
    vals = []
    for i in range(3):
        p = PNAMES[i]
        if i >= n:
            vals.append(f"{p}=GP{i}")  # not a parameter: the body sees the global of that name (excess keyword arguments only go to kwargs)
            continue
        if p in bound:
            vals.append(f"{p}={bound[p]}")
        elif case["params"][i] == "lit":
            vals.append(f"{p}=D{i}")
        elif case["params"][i] == "var":
            vals.append(f"{p}=late")
        else:
            vals.append(f"{p}=")
    return "[" + "|".join(vals) + f"|args={','.join(excess_args)}|kwargs={''.join(f'{k}={v};' for k, v in excess_kw)}|loc=|g=GLOBAL]"


# ---- with blocks: tiny interpreter -------------------------------------------------
# program: list of ops:  ["out", name] | ["assign", name, literal] | ["with", {name: ["lit", s] | ["var", name]}, [ops]]


def with_source(ops: list) -> str:
    out = []
    for op in ops:
        if op[0] == "out":
            out.append("<{{ " + op[1] + " }}>")
        elif op[0] == "assign":
            out.append("{% assign " + op[1] + " = '" + op[2] + "' %}")
        elif op[0] == "for":
            out.append("{% for i in (1.." + str(op[1]) + ") %}" + with_source(op[2]) + "{% endfor %}")
        elif op[0] in ("break", "continue"):
            out.append("{% " + op[0] + " %}")
        elif op[0] == "err":
            out.append("{{ 1 | divided_by: 0 }}")  # a render error: raised in strict mode, suppressed in lax mode
        else:
            args = ", ".join(f"{k}: " + (f"'{v[1]}'" if v[0] == "lit" else "nil" if v[0] == "nil" else v[1]) for k, v in op[1].items())
            out.append("{% with " + args + " %}" + with_source(op[2]) + "{% endwith %}")
    return "".join(out)


def with_expected(ops: list, glob: dict[str, str]) -> str:
    locals_: dict[str, str] = {}
    stack: list[dict[str, str]] = []

    def lookup(name: str) -> str:
        for ns in reversed(stack):
            if name in ns:
                return ns[name]
        if name in locals_:
            return locals_[name]
        return glob.get(name, "")

    class _Interrupt(Exception):
        def __init__(self, kind):
            self.kind = kind

    class _Abort(Exception):
        """A render error in lax mode: the top-level node it happened in is abandoned (what it wrote so far stays), the next one renders."""

    buf: list[str] = []

    def run(ops2: list) -> None:
        for op in ops2:
            if op[0] == "out":
                buf.append("<" + lookup(op[1]) + ">")
            elif op[0] == "assign":
                locals_[op[1]] = op[2]
            elif op[0] == "err":
                raise _Abort()
            elif op[0] in ("break", "continue"):
                raise _Interrupt(op[0])
            elif op[0] == "for":
                for _i in range(op[1]):
                    depth = len(stack)
                    try:
                        run(op[2])
                    except _Interrupt as it:
                        del stack[depth:]  # whatever the loop body pushed goes out of scope with it
                        if it.kind == "break":
                            break
            else:
                ns = {k: (v[1] if v[0] == "lit" else "" if v[0] == "nil" else lookup(v[1])) for k, v in op[1].items()}
                stack.append(ns)
                try:
                    run(op[2])
                finally:
                    stack.pop()

    for top in ops:
        depth0 = len(stack)
        try:
            run([top])
        except _Abort:
            del stack[depth0:]
    return "".join(buf)


def judge(ctx: core.Ctx, case: dict[str, Any]) -> None:
    if case["kind"] == "macro":
        src = macro_source(case)
        exp = macro_expected(case)
        data = {"g": "GLOBAL", "p0": "GP0", "p1": "GP1", "p2": "GP2", "args": "GARGS", "kwargs": "GKW", "nilvar": None}
        if exp is None:
            ctx.unspecified("duplicate-keyword")
            o = drv.parse_and_render(env(), src, data)
            if not o.ok and not o.is_liquid_error:
                ctx.count("non_liquid_error_forwarded_to_C02")
            return
        sig = "macro:" + classify_macro(case)
    else:
        src = with_source(case["ops"])
        data = {"g": "GLOBAL", "x": "GX", "nz": None}
        exp = with_expected(case["ops"], {"g": "GLOBAL", "x": "GX", "nz": ""})
        sig = "with:" + ("nested" if any(op[0] == "with" and any(o2[0] == "with" for o2 in op[2]) for op in case["ops"]) else "flat")
        flat = repr(case["ops"])
        if "'break'" in flat or "'continue'" in flat or "'err'" in flat:
            sig += "+block-left-by-interrupt-or-error"
            ctx.count("with_blocks_left_early")
    e = lax_env() if case["kind"] != "macro" and "'err'" in repr(case["ops"]) else env()
    o = drv.parse_and_render(e, src, data, use_async=case.get("async", False))
    if not o.ok and case.get("call_comma") is False and o.err_class == "LiquidSyntaxError":
        # a call whose arguments are not separated by commas: rejecting it is one consistent answer (binding all of them is the other);
        # binding some and dropping the rest without a word is neither
        ctx.count("comma_less_call_rejected")
        ctx.ok((src,), nontrivial=True)
        return
    if not o.ok:
        ctx.evaluations += 1
        ctx.violation(f"raises-{o.err_class}:{sig}", f"{src!r:.300} raised {o.err_class}: {drv.safe_str(o.exc)[:100]}")
        return
    if o.value != exp:
        ctx.evaluations += 1
        ctx.violation(sig, f"{src!r:.400} rendered {o.value!r}, R-macro expects {exp!r}", {"source": src, "got": o.value, "expected": exp})
        return
    ctx.ok((src,), nontrivial=True)


def classify_macro(case: dict[str, Any]) -> str:
    if case.get("calls"):
        return "several-calls-of-one-definition"
    if case.get("call_comma") is False:
        return "arguments-without-commas"
    n = len(case["params"])
    parts = []
    if case["npos"] > n:
        parts.append("excess-positional")
    if any(k not in PNAMES[:n] for k in case["kws"]):
        parts.append("excess-keyword")
    if any(k in PNAMES[: min(n, case["npos"])] for k in case["kws"]):
        parts.append("keyword-overrides-positional")
    if any(d != "none" for d in case["params"]):
        parts.append("default")
    if case.get("kw_first"):
        parts.append("keyword-first")
    return "+".join(parts) or "plain"


def gen_with(rng, depth: int = 0, in_for: bool = False) -> list:
    ops: list = []
    names = ["x", "y", "w", "g", "nope"]
    for _ in range(rng.randint(2, 5)):
        r = rng.random()
        if in_for and r < 0.08:
            ops.append([rng.choice(["break", "continue"])])
            break
        if r < 0.05:
            ops.append(["err"])
            continue
        if r < 0.12 and depth < 3:
            ops.append(["for", rng.choice([1, 2, 3]), gen_with(rng, depth + 1, True)])
            continue
        if r < 0.4:
            ops.append(["out", rng.choice(names)])
        elif r < 0.6:
            ops.append(["assign", rng.choice(["x", "y", "w"]), rng.choice(["L1", "L2", "L3"])])
        elif depth < 3:
            bound = rng.sample(["x", "y", "w", "g"], rng.randint(1, 3))
            # a value may name a variable that the same tag binds: it is still evaluated in the enclosing scope
            args = {k: (["lit", rng.choice(["W1", "W2", "W3"])] if rng.random() < 0.55 else ["nil"] if rng.random() < 0.25 else ["var", rng.choice(names + ["nz"])]) for k in bound}
            inner = gen_with(rng, depth + 1, in_for)
            if not (inner and inner[-1][0] in ("break", "continue")):
                inner = inner + [["out", bound[0]]]
            ops.append(["with", args, inner])
    ops.append(["out", "x"])
    return ops


def cases(ctx: core.Ctx):
    rng = ctx.rng("cases")
    idx = 0
    kw_lists = [()]
    for r in (1, 2, 3):
        kw_lists += list(itertools.permutations(KNAMES, r))
    kw_lists += [("p0", "p0"), ("z0", "z0"), ("p1", "z0", "p1")]  # duplicates: unspecified
    for n in range(4):
        for params in itertools.product(["none", "lit", "var"], repeat=n):
            for npos in range(5):
                for kws in kw_lists:
                    idx += 1
                    if idx % ctx.nshards != ctx.shard:
                        continue
                    yield {"kind": "macro", "params": list(params), "npos": npos, "kws": list(kws), "kw_first": (idx % 5 == 0), "lead_comma": (idx % 7 == 0), "async": (idx % 11 == 0)}
                    if all(d == "none" for d in params) and (npos or kws) and npos <= len(params) and idx % 3 == 0:  # (how join prints surplus nil arguments is not this property's subject)
                        yield {"kind": "macro", "params": list(params), "npos": npos, "kws": list(kws), "kw_first": False, "lead_comma": False, "async": (idx % 2 == 0), "nil_args": True}
    # the same calls written without commas between the arguments (the macro tag accepts its parameters that way)
    for n in range(1, 4):
        for params in itertools.product(["none", "lit"], repeat=n):
            for npos in range(0, 4):
                for kws in ((), ("p0",), ("p1", "z0"), ("z0",)):
                    if npos + len(kws) < 2:
                        continue
                    idx += 1
                    if idx % ctx.nshards == ctx.shard:
                        yield {"kind": "macro", "params": list(params), "npos": npos, "kws": list(kws), "call_comma": False, "async": idx % 5 == 0}
    # histories: two or three calls of one definition in one render, every ordered pair of call shapes (one of them possibly in a loop)
    shapes = [{"npos": npos, "kws": list(kws)} for npos in range(4) for kws in ((), ("p0",), ("p1",), ("p2",), ("p1", "p0"), ("z0",))]
    for n in range(1, 4):
        for params in itertools.product(["none", "lit", "var"], repeat=n):
            for c1, c2 in itertools.product(shapes, shapes):
                idx += 1
                if idx % ctx.nshards != ctx.shard or (ctx.tier == "quick" and n == 3 and idx % 3):
                    continue
                calls = [dict(c1, tag="a", in_loop=(idx % 5 == 0)), dict(c2, tag="b")]
                if idx % 4 == 0:
                    calls.append(dict(shapes[idx % len(shapes)], tag="c"))
                yield {"kind": "macro", "params": list(params), "npos": 0, "kws": [], "calls": calls, "async": (idx % 11 == 0)}
    ctx.extra["exhaustive"] = True
    for _ in range(ctx.budget(4000, 400_000)):
        yield {"kind": "with", "ops": gen_with(rng), "async": rng.random() < 0.1}
