"""C25 Built-in filters honour their documented contracts.

Monitor: M3 - icontract.ensure postconditions (named conditions, explicit error class, evaluation
counters) on the REAL registered filter callables of an environment and on liquid.utils.text.truncate_chars;
driven by direct calls over typed value pools and through rendered templates.
"""

from __future__ import annotations

import itertools
from decimal import Decimal
from typing import Any

import icontract

from harness import core, drv
from harness.gen import values as V
from harness.models import filters_spec as S

PROP = "C25"
TECHNIQUE = "runtime contracts (icontract postconditions written from the property text) on the real filter callables, over exhaustive small typed pools"
RULE = (
    "for each of the 34 contracted filters: left value x 0-2 arguments from typed pools (strings over a small alphabet, ints incl. negative "
    "and huge, floats with <= 6 significant digits, numeric strings, lists of mixed values, lists of hashes, dicts, nil, undefined); unary and "
    "binary combinations exhaustive, ternary sampled; called directly and through {{ l | f: a, b }} renders of an environment whose registry "
    "holds the contracted callables. Plus the split/join round trip rendered through both real filters ({{ s | split: sep | join: sep }} and three equivalent spellings) over 28 strings x 15 separators. Inputs on which the filter raises a Liquid error, and cells the documentation leaves open, are not judged. "
    "Non-trivial = a call whose contract returned a verdict (not 'unspecified'), distinct by (filter, arguments)."
    " Rounds 5-6 added enumerated families: documented chains (map | compact, sort | map | compact | join, missing keys last) over hash lists with ties, nil values and missing keys; list filters must return a list on documented inputs."
)
REQUIRED = [
    ("liquid/utils/text.py", "truncate_chars"),
    ("liquid/builtin/filters/array.py", "where"),
    ("liquid/builtin/filters/array.py", "uniq"),
    ("liquid/builtin/filters/math.py", "modulo"),
    ("liquid/builtin/filters/misc.py", "default"),
    ("liquid/builtin/filters/string.py", "truncatewords"),
    ("liquid/filter.py", "flatten"),
]


class PostBroken(Exception):
    pass


STATE: dict[str, Any] = {"evals": {}, "unspec": 0, "last": None}
_env = None


def make_cond(name: str):
    spec = S.CONTRACTS[name]

    def contract_holds(_ARGS, _KWARGS, result) -> bool:
        kw = {k: v for k, v in _KWARGS.items() if k not in ("environment", "context")}
        STATE["evals"][name] = STATE["evals"].get(name, 0) + 1
        try:
            verdict = spec(list(_ARGS), kw, result)
        except Exception as e:  # noqa: BLE001 - a crashing oracle is a harness bug, never a verdict
            STATE["last"] = ("oracle-error", name, repr(e))
            return True
        if verdict is None:
            STATE["unspec"] += 1
            STATE["last"] = ("unspecified", name)
            return True
        STATE["last"] = ("judged", name)
        if verdict is False:
            STATE["last"] = ("violated", name, V.enc(_safe(list(_ARGS))), V.enc(_safe(kw)), V.enc(_safe(result)))
        return verdict

    contract_holds.__name__ = f"contract_{name}"
    return contract_holds


def _safe(x: Any) -> Any:
    if type(x).__name__.endswith("Undefined"):
        return {"$undefined": True}
    if isinstance(x, list):
        return [_safe(y) for y in x]
    if isinstance(x, dict):
        return {k: _safe(v) for k, v in x.items()}
    return x


def truncate_chars_bound(val: str, num: int, end: str, result: str) -> bool:
    STATE["evals"]["truncate_chars"] = STATE["evals"].get("truncate_chars", 0) + 1
    if num < 0:
        return True
    if len(val) <= num:
        return result == val
    return result.endswith(end) and len(result) <= max(num, len(end))


def env():
    """Environment whose filter registry holds the contracted real callables."""
    global _env
    if _env is None:
        import liquid.builtin.filters.string as string_mod
        import liquid.utils.text as text_mod

        if not hasattr(text_mod, "truncate_chars"):
            raise core.Inconclusive("liquid.utils.text.truncate_chars is gone: contract target missing")
        contracted = icontract.ensure(truncate_chars_bound, error=PostBroken)(text_mod.truncate_chars)
        text_mod.truncate_chars = contracted
        if hasattr(string_mod, "truncate_chars"):
            string_mod.truncate_chars = contracted  # `from ... import` bound the name before decoration
        e = drv.make_env({})
        for name in S.CONTRACTS:
            fn = e.filters.get(name)
            if fn is None:
                raise core.Inconclusive(f"filter {name!r} is not registered")
            wrapped = icontract.ensure(make_cond(name), error=PostBroken)(fn)
            for attr in ("with_context", "with_environment", "filter_async", "validate"):
                if hasattr(fn, attr) and not hasattr(wrapped, attr):
                    setattr(wrapped, attr, getattr(fn, attr))
            e.filters[name] = wrapped
        _env = e
    return _env


UNDEF = {"$undefined": True}
TOTAL = {"size": {1}, "default": {1, 2}}  # filter -> number of positional values (left value included) for which it is total


def realise(v: Any, e) -> Any:
    v = V.dec(v) if not (isinstance(v, dict) and v.get("$undefined")) else v
    if isinstance(v, dict) and v.get("$undefined"):
        return e.undefined("nosuch")
    return v


def sig_of(name: str, args: list) -> str:
    def cls(x):
        if type(x).__name__.endswith("Undefined"):
            return "undefined"
        if isinstance(x, list):
            if x and all(isinstance(i, dict) for i in x):
                return "list-of-hash"
            return "list"
        return type(x).__name__

    return f"{name}(" + ",".join(cls(a) for a in args) + ")"


def judge_roundtrip(ctx: core.Ctx, case: dict[str, Any]) -> None:
    """split followed by the join *filter* with the same separator restores a non-empty string (rendered, so both real filters run)."""
    e = env()
    s0, sep = case["s"], case["sep"]
    src = case["source"]
    o = drv.parse_and_render(e, src, {"s": s0, "sep": sep}, use_async=case.get("async", False))
    if not o.ok:
        ctx.count("liquid_error_not_judged" if o.is_liquid_error else "non_liquid_error_forwarded_to_C02")
        return
    if s0 == "" or sep == " " or s0 == sep:
        ctx.unspecified("roundtrip-documented-exception")
        return
    ctx.count("judged:roundtrip")
    if o.value != s0:
        ctx.evaluations += 1
        ctx.violation("roundtrip:split-join", f"{src!r} with s={s0!r} sep={sep!r} rendered {o.value!r}, expected the input back")
        return
    ctx.ok(("roundtrip", src, s0, sep), nontrivial=True)


def _plain_vals(l: list, k: str):
    vals = [x[k] for x in l if k in x and x[k] is not None]
    if any(type(v) not in (int, str) for v in vals):
        return None
    return vals


def chain_expected(chain: str, l: list, k: str):
    """Documented compositions of the list filters (the examples of the filter reference): what they select, in which order."""
    vals = _plain_vals(l, k)
    if vals is None:
        return None
    if chain == "map-compact-size":
        return str(len(vals))
    if chain == "map-compact-join":
        return ",".join(str(v) for v in vals)
    if chain.startswith("sort") and any(k in x and x[k] is None for x in l):
        return None  # where an explicit nil value sorts is not settled (only objects *without* the property are)
    if chain in ("sort-map-compact-join", "sort_natural-map-compact-join"):
        if len({type(v) for v in vals}) > 1 or (chain.startswith("sort_natural") and any(type(v) is not str for v in vals)):
            return None
        keyf = (lambda v: v.lower()) if chain.startswith("sort_natural") else (lambda v: v)
        sv = sorted(vals, key=keyf)
        if [keyf(v) for v in sv] != [keyf(v) for v in sorted(vals, key=keyf, reverse=True)][::-1]:
            return None  # ties between different spellings: their relative order is not settled
        return ",".join(str(v) for v in sv)
    if chain == "sort-last-has-no-key":
        # "objects without the key property will be at the end"
        if len({type(v) for v in vals}) > 1 or not any(k not in x for x in l) or not vals:
            return None
        return "missing-last"
    raise ValueError(chain)


CHAIN_SOURCES = {
    "map-compact-size": "{% assign r = l | map: k | compact %}{{ r | size }}",
    "map-compact-join": "{{ l | map: k | compact | join: ',' }}",
    "sort-map-compact-join": "{{ l | sort: k | map: k | compact | join: ',' }}",
    "sort_natural-map-compact-join": "{{ l | sort_natural: k | map: k | compact | join: ',' }}",
    "sort-last-has-no-key": "{% assign r = l | sort: k %}{% assign z = r | last %}{% if z[k] == nil %}missing-last{% else %}has:{{ z[k] }}{% endif %}",
}


def judge_chain(ctx: core.Ctx, case: dict[str, Any]) -> None:
    l, k, chain = V.dec(case["l"]), case["k"], case["chain"]
    exp = chain_expected(chain, l, k)
    if exp is None:
        ctx.unspecified("chain:" + chain)
        return
    o = drv.parse_and_render(env(), CHAIN_SOURCES[chain], {"l": l, "k": k}, use_async=case.get("async", False))
    ctx.count("judged:chain")
    ctx.evaluations += 1
    if not o.ok:
        if not o.is_liquid_error:
            ctx.count("non_liquid_error_forwarded_to_C02")
        ctx.violation(f"chain:{chain}:raises-{o.err_class}", f"{CHAIN_SOURCES[chain]!r} with l={l!r:.160} k={k!r} raised {o.err_class}: {drv.safe_str(o.exc)[:80]}; the documented result is {exp!r}")
        return
    if o.value != exp:
        ctx.violation(f"chain:{chain}", f"{CHAIN_SOURCES[chain]!r} with l={l!r:.160} k={k!r} rendered {o.value!r}, documented result {exp!r}")
        return
    ctx.ok((chain, case["l"], k), nontrivial=True)


def judge(ctx: core.Ctx, case: dict[str, Any]) -> None:
    if case.get("kind") == "roundtrip":
        judge_roundtrip(ctx, case)
        return
    if case.get("kind") == "chain":
        judge_chain(ctx, case)
        return
    e = env()
    name = case["filter"]
    args = [realise(a, e) for a in case["args"]]
    kwargs = {k: realise(v, e) for k, v in (case.get("kwargs") or {}).items()}
    STATE["last"] = None
    if case.get("via") == "render":
        data = {}
        parts = []
        for i, a in enumerate(args):
            if type(a).__name__.endswith("Undefined"):
                parts.append("nosuch")
            else:
                data[f"v{i}"] = a
                parts.append(f"v{i}")
        kparts = []
        for k, v in kwargs.items():
            data[f"k_{k}"] = v
            kparts.append(f"{k}: k_{k}")
        src = "{% assign r = " + parts[0] + " | " + name + (": " + ", ".join(parts[1:] + kparts) if len(parts) > 1 or kparts else "") + " %}{{ r | size }}"
        o = drv.parse_and_render(e, src, data, use_async=case.get("async", False))
    else:
        fn = e.filters[name]
        kw = dict(kwargs)
        if getattr(fn, "with_environment", False):
            kw["environment"] = e
        o = drv.call(fn, *args, **kw)
    last = STATE["last"]
    if not o.ok and isinstance(o.exc, PostBroken):
        ctx.evaluations += 1
        shown = last[2:] if last and last[0] == "violated" else None
        ctx.violation(
            f"contract:{sig_of(name, args)}" if shown else "contract:truncate_chars(len-bound)",
            f"{name} broke its documented contract: args={shown[0] if shown else case['args']!r:.200} kwargs={shown[1] if shown else {}!r} -> {shown[2] if shown else '?'!r:.200}",
            {"via": case.get("via", "direct")},
        )
        return
    if not o.ok:
        if not o.is_liquid_error:
            ctx.count("non_liquid_error_forwarded_to_C02")
        elif name in TOTAL and len(args) in TOTAL[name] and not kwargs:
            # "size returns the length of sized values and 0 otherwise", "default returns its argument exactly for nil, false, undefined and
            # empty values": these two are defined for every left value, so an error is not an open cell
            ctx.evaluations += 1
            ctx.violation(f"contract:{sig_of(name, args)}:raises-{o.err_class}", f"{name} raised {o.err_class} for args={case['args']!r:.200} ({case.get('via', 'direct')}); it is defined for every input")
        elif S.defined_for(name, args, kwargs):
            # the documented use of a list filter (a list of strings / integers / hashes whose values under the key are all strings or all
            # integers, ties and items without the key included): "return new lists", so an error is not an open cell either
            ctx.evaluations += 1
            ctx.violation(f"contract:{sig_of(name, args)}:raises-{o.err_class}", f"{name} raised {o.err_class}: {drv.safe_str(o.exc)[:80]} for args={case['args']!r:.200} ({case.get('via', 'direct')}); it returns a list for such input")
        else:
            ctx.count("liquid_error_not_judged")
        return
    if last is None:
        ctx.count("contract_not_reached")
        return
    if last[0] == "unspecified":
        ctx.unspecified(name)
        return
    if last[0] == "oracle-error":
        ctx.inconclusive(f"oracle crashed for {name}: {last[2]}")
        return
    ctx.count(f"judged:{name}")
    ctx.ok((name, case["args"], case.get("kwargs"), case.get("via")), nontrivial=True)


def finish(ctx: core.Ctx) -> None:
    for k, v in STATE["evals"].items():
        ctx.count(f"contract_evaluations:{k}", v)
    ctx.count("contract_evaluations_total", sum(STATE["evals"].values()))
    STATE["evals"] = {}
    missing = [n for n in S.CONTRACTS if not ctx.counters.get(f"judged:{n}")]
    if missing and ctx.nshards == 1:
        ctx.inconclusive("contracts never judged (every call unspecified or raising): " + ",".join(missing))


MIN_COUNTERS = {"contract_evaluations_total": 2000, "judged:roundtrip": 200}

# ------------------------------------------------------------------------ pools

STRS = ["", "a", "ab", "abc", " a b ", "a,b,c", "a b  c d", "Hello World", "hello", "ÀÉ ß", ",", "a,", ",a,,b", "x\ty\n", "one two three four"]
INTS = [0, 1, 2, 3, -1, -7, 5, 10, 100, 999999, 2**63, -(10**30)]
FLOATS = [0.5, 1.5, -2.5, 3.0, -0.25, 2.675, 100.125, 1e-3, 7.0]
NUMSTRS = ["3", "-4", "2.5", "10", "0"]
LISTS: list[Any] = [[], [3, 1, 2], ["b", "a", "C", "a"], [1, 1, 2, 3, 3], [None, 1, None, 2], [[1, 2], [3, [4]]], ["x"], [2, "a"], [1.5, 0.5, 1.5]]
HASHLISTS: list[Any] = [
    [{"k": 1, "t": "b"}, {"k": 2, "t": "a"}, {"k": 1, "t": "C"}],
    [{"k": "x"}, {"j": 1}, {"k": None}, {"k": False}, {"k": "y"}],
    [{"t": "B"}, {"t": "a"}, {"u": 1}],
    [],
    [{"k": 0, "t": "z"}, {"k": 1, "t": ""}, {"k": "", "t": "e"}, {"k": "x"}, {"j": 2}],
    # ties under the key: equal values, values that differ only in case, and several items without the key
    [{"t": "a", "n": 1}, {"t": "A", "n": 2}, {"t": "a", "n": 3}, {"u": 1}, {"u": 2}],
    [{"k": "x"}, {"k": "x"}],
    [{"k": 2, "t": "b"}, {"k": 2, "t": "B"}, {"k": 1, "t": "b"}],
    [{"j": 1}, {"j": 2}],
]
OTHERS: list[Any] = [None, True, False, {}, {"a": 1}, UNDEF]


def pool_for(kind: str) -> list[Any]:
    if kind == "s":
        return STRS
    if kind == "i":
        return INTS
    if kind == "n":
        return INTS + FLOATS + NUMSTRS + [None, UNDEF]
    if kind == "l":
        return LISTS + HASHLISTS
    if kind == "h":
        return HASHLISTS
    if kind == "k":
        return ["k", "t", "nope"]
    if kind == "kv":
        return [1, "x", "a", None, 2, 0, ""]  # falsy targets are targets all the same (only nil / undefined mean "no target given")
    if kind == "sep":
        return [",", " ", "", "b", ", ", "ab"]
    if kind == "e":
        return ["...", "", "…", "--", ".", "-ellipsis-"]
    if kind == "any":
        return STRS[:6] + INTS[:6] + FLOATS[:3] + LISTS[:4] + OTHERS
    if kind == "len":
        return [0, 1, 2, 3, 4, 5, 7, 11, 50, -1, 2**31 - 1]
    raise ValueError(kind)


SHAPES = {
    "size": [["any"], ["l"], ["s"]], "upcase": [["s"]], "downcase": [["s"]], "capitalize": [["s"]], "strip": [["s"]], "lstrip": [["s"]], "rstrip": [["s"]],
    "split": [["s", "sep"]], "reverse": [["l"]], "sort": [["l"], ["h", "k"]], "sort_natural": [["l"], ["h", "k"]], "uniq": [["l"]], "compact": [["l"]],
    "concat": [["l", "l"]], "map": [["h", "k"]], "where": [["h", "k"], ["h", "k", "kv"]], "reject": [["h", "k"], ["h", "k", "kv"]], "first": [["l"], ["any"]],
    "last": [["l"], ["any"]], "slice": [["s", "len"], ["s", "len", "len"], ["l", "len", "len"], ["s", "i"]], "truncate": [["s"], ["s", "len"], ["s", "len", "e"]],
    "truncatewords": [["s"], ["s", "len"], ["s", "len", "e"]], "plus": [["n", "n"]], "minus": [["n", "n"]], "times": [["n", "n"]], "divided_by": [["n", "n"]],
    "modulo": [["n", "n"]], "abs": [["n"]], "ceil": [["n"]], "floor": [["n"]], "round": [["n"], ["n", "len"]], "at_least": [["n", "n"]], "at_most": [["n", "n"]],
    "default": [["any", "any"], ["any"]],
}


def enc_arg(a: Any) -> Any:
    return a if (isinstance(a, dict) and a.get("$undefined")) else V.enc(a)


RT_SOURCES = [
    "{{ s | split: sep | join: sep }}",
    "{% assign parts = s | split: sep %}{{ parts | join: sep }}",
    "{% assign parts = s | split: sep %}{% for p in parts %}{{ p }}{% unless forloop.last %}{{ sep }}{% endunless %}{% endfor %}",
    "{% capture c %}{{ s | split: sep | join: sep }}{% endcapture %}{{ c }}",
]
RT_STRS = STRS + ["a,b", "aXbX", "XaXXb", "a, b, c", "abcabc", "é,ß", "a\nb\nc", "--a--b--", "a.b", "a|b", "1,2", "  ", "a  b"]
RT_SEPS = [",", " ", "", "b", ", ", "ab", "X", "XX", "\n", "--", ".", "|", "  ", "a", "é"]


def cases(ctx: core.Ctx):
    rng = ctx.rng("cases")
    idx = 0
    for s0, sep, src in itertools.product(RT_STRS, RT_SEPS, RT_SOURCES):
        idx += 1
        if idx % ctx.nshards == ctx.shard:
            yield {"kind": "roundtrip", "s": s0, "sep": sep, "source": src, "async": idx % 7 == 0}
    for l in HASHLISTS + [[{"k": 2}, {}, {"k": 1}], [{"t": "b", "k": 3}, {"u": 1}, {"t": "a", "k": 1}, {"k": 2}], [{"k": None, "t": "x"}, {"k": 5, "t": None}, {"t": "y"}]]:
        for k in ("k", "t", "nope", "n", "j"):
            for chain in CHAIN_SOURCES:
                idx += 1
                if idx % ctx.nshards == ctx.shard:
                    yield {"kind": "chain", "chain": chain, "l": V.enc(l), "k": k, "async": idx % 5 == 0}
    for name, shapes in SHAPES.items():
        for shape in shapes:
            pools = [pool_for(k) for k in shape]
            total = 1
            for p in pools:
                total *= len(p)
            combos: Any = itertools.product(*pools)
            if total > 3000 and ctx.tier == "quick":
                combos = (tuple(rng.choice(p) for p in pools) for _ in range(1500))
            for combo in combos:
                idx += 1
                if idx % ctx.nshards != ctx.shard:
                    continue
                c = {"filter": name, "args": [enc_arg(a) for a in combo]}
                if name == "default" and idx % 3 == 0:
                    c["kwargs"] = {"allow_false": bool(idx % 2)}
                yield c
                if idx % 4 == 0:
                    yield dict(c, via="render", **({"async": True} if idx % 8 == 0 else {}))
    ctx.extra["exhaustive"] = ctx.tier != "quick"
    # random wider values
    for _ in range(ctx.budget(8000, 800_000)):
        name = rng.choice(list(SHAPES))
        shape = rng.choice(SHAPES[name])
        args = []
        for k in shape:
            if rng.random() < 0.15:
                args.append(rng.choice(pool_for("any")))
            elif k == "s" and rng.random() < 0.5:
                args.append("".join(rng.choice("ab ,.\nA") for _ in range(rng.randint(0, 12))))
            elif k == "n" and rng.random() < 0.5:
                args.append(rng.choice([rng.randint(-50, 50), round(rng.uniform(-50, 50), 2)]))
            elif k == "l" and rng.random() < 0.5:
                args.append([rng.choice([1, 2, 3, "a", "b", None, 2.5]) for _ in range(rng.randint(0, 6))])
            elif k == "len":
                args.append(rng.randint(-2, 14))
            else:
                args.append(rng.choice(pool_for(k)))
        yield {"filter": name, "args": [enc_arg(a) for a in args], "via": rng.choice(["direct", "render"])}
