"""C19 Static analysis reports everything a render can touch.

Monitors (M2, installed from the harness; the repository carries no hook code):
  * class-attribute wrappers on Path.evaluate / evaluate_async (every variable path evaluated: template, segments, token index, and
    which namespace answered its root), Filter.evaluate / evaluate_async (every filter applied), Node.render / render_async (every
    tag node rendered);
  * a RenderContext subclass installed through the documented template_class / context_class extension point that records the
    identity of every namespace pushed by extend() / copy() and of every context's locals and counters, so that the mapping that
    answered a root lookup can be classified as block binding / template local / counter / builtin / render arguments-or-globals.
Oracle: containment of the dynamic trace in BoundTemplate.analyze().
"""

from __future__ import annotations

import itertools

import re
from typing import Any

from liquid import BoundTemplate, DictLoader, Environment, RenderContext
from liquid import ast as liquid_ast
from liquid.builtin.expressions import Path
from liquid.builtin.expressions import filtered as _filtered
from liquid.builtin.tags.case_tag import MultiExpressionBlockNode
from liquid.context import builtin as _builtin
from liquid.token import TOKEN_TAG
from liquid.utils.chain_map import ReadOnlyChainMap

from harness import core, drv
from harness.gen import tpl
from harness.gen import values as V

PROP = "C19"
TECHNIQUE = "runtime trace monitor (variable lookups with answering namespace, filter applications, rendered tags) checked for containment in static analysis"
RULE = (
    "scope-matrix cases: a partial reading names {a,b,c,k} (plain, dotted and nested paths, filters) is included / rendered 2-4 times from one "
    "template, each call site binding a different subset of the names (keyword arguments, with / for bound value and alias, enclosing for, "
    "tablerow, with, capture/assign before or after, macro parameters) or none, in every order; generated cases: G-ast template sets (main + "
    "partials, all standard and extra tags). Each set is analysed once and rendered (sync or async) with 3 data sets so that different branches "
    "run. Judged per render: every evaluated variable path is reported in analysis.variables with the same segments, every applied filter in "
    "analysis.filters, every rendered tag in analysis.tags, and every root answered by the render arguments / globals whose name no "
    "assign / capture / increment / decrement in the whole template set mentions is reported in analysis.globals. Non-trivial = >= 1 lookup "
    "answered by globals and >= 1 partial call; distinct by sources."
    " Rounds 5-6 added enumerated families: names bound twice by one block; re-entrant partials; partials inside rendered partials."
)
REQUIRED = [
    ("liquid/static_analysis.py", "analyze"),
    ("liquid/static_analysis.py", "analyze_async"),
    ("liquid/static_analysis.py", "_analyze_variables"),
    ("liquid/builtin/tags/include_tag.py", "IncludeNode.partial_scope"),
    ("liquid/builtin/tags/render_tag.py", "RenderNode.partial_scope"),
    ("liquid/builtin/tags/for_tag.py", "ForNode.block_scope"),
    ("liquid/extra/tags/macro_tag.py", "MacroNode.block_scope"),
]
MIN_COUNTERS = {
    "lookups_traced": 5000, "answered_by:globals": 1000, "answered_by:block": 1000, "answered_by:locals": 100, "filters_traced": 500, "tags_traced": 2000,
    "global_lookups_judged": 800, "partial_visited_from_several_scopes": 200, "global_lookups_judged_before_a_later_assignment": 30,
}
ASSUMPTIONS = [
    "a root lookup is attributed to the first leaf mapping of the context's scope chain that contains the name; mappings pushed by "
    "extend()/copy() are block bindings, RenderContext.locals are template locals, anything else below them is render arguments / globals",
    "the lexical exclusion of the property (inside a block binding the name / preceded by an assignment to it) is decided dynamically for "
    "block bindings (the binding namespace answers the lookup) and conservatively for assignments (any assign/capture/increment/decrement "
    "of that name anywhere in the template set exempts the name)",
]

# ------------------------------------------------------------------------------ monitors

TRACE: dict[str, Any] = {"on": False, "lookups": [], "filters": set(), "tags": set(), "binding": set(), "locals": set(), "counters": set(), "keep": []}


class MonContext(RenderContext):
    __slots__ = ()

    def __init__(self, *a, **k):
        super().__init__(*a, **k)
        if TRACE["on"]:
            TRACE["locals"].add(id(self.locals))
            TRACE["counters"].add(id(self.counters))
            TRACE["keep"].append(self)

    def extend(self, namespace, template=None):
        if TRACE["on"]:
            TRACE["binding"].add(id(namespace))
            TRACE["keep"].append(namespace)
        return super().extend(namespace, template)

    def copy(self, namespace, *a, **k):
        if TRACE["on"]:
            TRACE["binding"].add(id(namespace))
            TRACE["keep"].append(namespace)
        return super().copy(namespace, *a, **k)


class MonTemplate(BoundTemplate):
    context_class = MonContext


class MonEnv(Environment):
    template_class = MonTemplate


def _leaf(m: Any, key: str, inside: bool = False):
    """(leaf mapping that answers key, whether it lies inside a namespace pushed by extend()/copy()) or None."""
    inside = inside or id(m) in TRACE["binding"]
    if isinstance(m, ReadOnlyChainMap):
        for sub in m._maps:
            r = _leaf(sub, key, inside)
            if r is not None:
                return r
        return None
    try:
        m[key]
    except (KeyError, TypeError, IndexError):
        return None
    return m, inside


def answered_by(context: RenderContext, root: Any) -> str:
    if not isinstance(root, str):
        return "non-string-root"
    found = _leaf(context.scope, root)
    if found is None:
        return "undefined"
    leaf, inside = found
    i = id(leaf)
    if inside:
        return "block"
    if i in TRACE["locals"]:
        return "locals"
    if i in TRACE["counters"]:
        return "counters"
    if leaf is _builtin:
        return "builtin"
    return "globals"


_installed = False


def install() -> None:
    global _installed
    if _installed:
        return
    for attr in ("evaluate", "evaluate_async", "location"):
        if not hasattr(Path, attr):
            raise core.Inconclusive(f"hook target Path.{attr} missing")
    orig_eval, orig_eval_async = Path.evaluate, Path.evaluate_async

    def record(self, context):
        if TRACE["on"]:
            head = self.path[0]
            root = head.evaluate(context) if isinstance(head, Path) and False else head
            # the template the reference is *written* in: a macro defined in an included partial runs under its caller's template
            tname = TRACE.get("by_source", {}).get(getattr(self.token, "source", None)) or getattr(context.template, "name", "?")
            TRACE["lookups"].append((tname, self.location(), self.token.start_index, answered_by(context, root) if not isinstance(root, Path) else "nested-root"))

    def evaluate(self, context):
        record(self, context)
        return orig_eval(self, context)

    async def evaluate_async(self, context):
        record(self, context)
        return await orig_eval_async(self, context)

    Path.evaluate = evaluate  # type: ignore[method-assign]
    Path.evaluate_async = evaluate_async  # type: ignore[method-assign]

    F = getattr(_filtered, "Filter", None)
    if F is None or not hasattr(F, "evaluate"):
        raise core.Inconclusive("hook target Filter.evaluate missing")
    f_eval, f_eval_async = F.evaluate, F.evaluate_async

    def fev(self, left, context):
        if TRACE["on"]:
            TRACE["filters"].add(self.name)
        return f_eval(self, left, context)

    async def fev_async(self, left, context):
        if TRACE["on"]:
            TRACE["filters"].add(self.name)
        return await f_eval_async(self, left, context)

    F.evaluate = fev  # type: ignore[method-assign]
    F.evaluate_async = fev_async  # type: ignore[method-assign]

    N = liquid_ast.Node
    n_render, n_render_async = N.render, N.render_async
    structural = (liquid_ast.BlockNode, liquid_ast.ConditionalBlockNode, MultiExpressionBlockNode)

    def nrender(self, context, buffer):
        if TRACE["on"] and not isinstance(self, structural) and self.token.kind == TOKEN_TAG:
            TRACE["tags"].add(self.token.value)
        return n_render(self, context, buffer)

    async def nrender_async(self, context, buffer):
        if TRACE["on"] and not isinstance(self, structural) and self.token.kind == TOKEN_TAG:
            TRACE["tags"].add(self.token.value)
        return await n_render_async(self, context, buffer)

    N.render = nrender  # type: ignore[method-assign]
    N.render_async = nrender_async  # type: ignore[method-assign]
    _installed = True


def setup(ctx: core.Ctx) -> None:
    install()


def traced_render(t, data: dict[str, Any], use_async: bool):
    TRACE.update(on=True, lookups=[], filters=set(), tags=set(), binding=set(), locals=set(), counters=set(), keep=[])
    try:
        o = drv.render_async(t, data) if use_async else drv.render(t, data)
    finally:
        TRACE["on"] = False
    tr = {"lookups": TRACE["lookups"], "filters": TRACE["filters"], "tags": TRACE["tags"]}
    TRACE.update(lookups=[], filters=set(), tags=set(), binding=set(), locals=set(), counters=set(), keep=[])
    return o, tr


# ------------------------------------------------------------------------------ oracle

def norm(seg: Any) -> Any:
    if isinstance(seg, (list, tuple)):
        return tuple(norm(s) for s in seg)
    return seg


ASSIGNS = re.compile(r"\b(?:assign|capture|increment|decrement)\s+([A-Za-z_][\w-]*)")


def assigned_names(sources: dict[str, str]) -> set[str]:
    out: set[str] = set()
    for s in sources.values():
        out.update(ASSIGNS.findall(s))
    return out


BLOCK_BINDERS = re.compile(r"\b(?:with|include|render|call|macro)\b[^%]*?%\}|\b(?:for|tablerow)\s+([A-Za-z_][\w-]*)\s+in\b")
KWARG = re.compile(r"([A-Za-z_][\w-]*)\s*:")
ALIAS = re.compile(r"\bas\s+([A-Za-z_][\w-]*)")


def block_bound_names(sources: dict[str, str]) -> set[str]:
    """Names some block construct binds somewhere in the set (loop variables, with / include / render / call / macro arguments, aliases)."""
    out: set[str] = set()
    for s in sources.values():
        for m in BLOCK_BINDERS.finditer(s):
            if m.group(1):
                out.add(m.group(1))
            else:
                out.update(KWARG.findall(m.group(0)))
                out.update(ALIAS.findall(m.group(0)))
                if re.match(r"macro\b", m.group(0)):
                    out.update(re.findall(r"[A-Za-z_][\w-]*", m.group(0)))
    return out


_ASSIGN_AT = re.compile(r"\b(assign|capture|increment|decrement)\s+([A-Za-z_][\w-]*)")


def assign_effects(source: str) -> dict[str, list[int]]:
    """name -> source positions from which an assignment to it is in effect (the end of the assigning tag / line, the endcapture)."""
    out: dict[str, list[int]] = {}
    liquid_regions = [(m.start(), m.end()) for m in re.finditer(r"\{%-?\s*liquid\b.*?%\}", source, re.S)]
    for m in _ASSIGN_AT.finditer(source):
        kind, name = m.group(1), m.group(2)
        if kind == "capture":
            e = source.find("endcapture", m.end())
        else:
            e = source.find("%}", m.end())
            if any(a <= m.start() < b for a, b in liquid_regions):
                nl = source.find("\n", m.end())
                if nl != -1 and (e == -1 or nl < e):
                    e = nl
        out.setdefault(name, []).append(e if e != -1 else len(source))
    return out


def root_key(loc: tuple) -> str:
    """The key static analysis files a variable under: str() of its first segment."""
    head = loc[0]
    if isinstance(head, tuple):
        return str(_listify(head))
    return str(head)


def _listify(t: Any) -> Any:
    if isinstance(t, tuple):
        return [_listify(x) for x in t]
    return t


def judge(ctx: core.Ctx, case: dict[str, Any]) -> None:
    sources = dict(case["partials"])
    sources["main"] = case["main"]
    env = drv.make_env({"extra": True, "mode": case.get("mode", "strict"), "flags": case.get("flags") or {}}, loader=DictLoader(dict(case["partials"])), base=MonEnv)
    o = drv.call(env.from_string, case["main"], name="main")
    if not o.ok:
        ctx.count("parse_error_skipped")
        return
    t = o.value
    a = drv.call_async(t.analyze_async) if case.get("async_analysis") else drv.call(t.analyze)
    if not a.ok:
        ctx.count("analysis_raised_skipped:" + str(a.err_class))
        if not a.is_liquid_error:
            ctx.count("non_liquid_error_forwarded_to_C02")
        return
    an = a.value
    rep_vars = {k: {norm(v.segments) for v in vs} for k, vs in an.variables.items()}
    rep_globals = set(an.globals)
    rep_filters = set(an.filters)
    rep_tags = set(an.tags)
    assigned = assigned_names(sources)
    effects = {t: assign_effects(src) for t, src in sources.items()}
    # a macro body is isolated at run time but lies lexically inside whatever blocks surround its definition: a name bound by an
    # enclosing with / for is "inside a block binding that name" in the property's (lexical) sense although the globals answer it
    has_macro = any(re.search(r"(?:\{%-?|\n)\s*macro\b", s) for s in sources.values())  # (tag form, or a line of a liquid tag)
    lexically_bound = block_bound_names(sources) if has_macro else set()
    n_partial_calls = sum(len(re.findall(r"\b(?:include|render)\s+['\"]", s)) for s in sources.values())
    globals_hit = 0
    by_source: dict[str, Any] = {}
    for tn, src in sources.items():
        by_source[src] = tn if src not in by_source else None  # identical texts: fall back to the rendering template's name
    TRACE["by_source"] = by_source
    for data_enc in case["datas"]:
        data = V.dec(data_enc)
        out, tr = traced_render(t, data, case.get("async", False))
        ctx.evaluations += 1
        ctx.count("renders")
        ctx.count("lookups_traced", len(tr["lookups"]))
        ctx.count("filters_traced", len(tr["filters"]))
        ctx.count("tags_traced", len(tr["tags"]))
        if not out.ok and not out.is_liquid_error:
            ctx.count("non_liquid_error_forwarded_to_C02")
        seen_in: dict[tuple, set[str]] = {}
        for tname, loc, index, by in tr["lookups"]:
            ctx.count("answered_by:" + by)
            seen_in.setdefault((tname, index), set()).add(by)
            key = root_key(loc)
            if norm(loc) not in rep_vars.get(key, ()):
                ctx.violation(
                    f"variable-path-not-reported:{'in-partial' if tname != 'main' else 'in-main'}",
                    lambda: f"render evaluated the path {loc!r} at {tname}:{index} but analysis.variables[{key!r}] is {sorted(map(str, rep_vars.get(key, ())))[:6]}; sources {sources!r:.600}",
                    {"sources": sources, "data": data_enc},
                )
                return
            if by == "globals":
                globals_hit += 1
                root = loc[0]
                if root in assigned:
                    # "preceded in source order by an assignment to it": decided in the reference's own template by positions (an assignment
                    # takes effect at the end of its tag, so `assign n = n | plus: 1` reads n *before* assigning it); an assignment in any
                    # other template of the set exempts the name conservatively (include shares its caller's scope)
                    # (a partial may be included several times: an assignment made by an earlier inclusion precedes a later one, so inside
                    # partials any assignment to the name anywhere exempts it; positions are only compared in the main template)
                    elsewhere = any(root in eff for t, eff in effects.items() if t != tname) or tname != "main"
                    before = any(p <= index for p in effects.get(tname, {}).get(root, []))
                    if elsewhere or before or not isinstance(index, int):
                        ctx.count("global_lookup_of_a_name_assigned_earlier_or_elsewhere_exempt")
                        continue
                    ctx.count("global_lookups_judged_before_a_later_assignment")
                if root in lexically_bound:
                    ctx.count("global_lookup_of_a_name_bound_by_a_block_in_a_set_with_macros_exempt")
                    continue
                ctx.count("global_lookups_judged")
                if root not in rep_globals:
                    ctx.violation(
                        f"global-not-reported:{'in-partial' if tname != 'main' else 'in-main'}",
                        lambda: f"the render read {root!r} (path {loc!r} at {tname}:{index}) from the render arguments / globals, no assign/capture in the template set mentions it, "
                        f"but analysis.globals only has {sorted(rep_globals)}; sources {sources!r:.700}",
                        {"sources": sources, "data": data_enc},
                    )
                    return
        for (tname, _index), bys in seen_in.items():
            if tname != "main" and "globals" in bys and "block" in bys:
                ctx.count("partial_visited_from_several_scopes")
        for f in tr["filters"]:
            if f not in rep_filters:
                ctx.violation("filter-not-reported", lambda: f"render applied filter {f!r}; analysis.filters has {sorted(rep_filters)}; sources {sources!r:.600}", {"sources": sources})
                return
        for tg in tr["tags"]:
            if tg not in rep_tags:
                ctx.violation(f"tag-not-reported:{tg}", lambda: f"render rendered tag {tg!r}; analysis.tags has {sorted(rep_tags)}; sources {sources!r:.600}", {"sources": sources})
                return
    h = core.stable_hash([case["main"], case["partials"]])
    if globals_hit and n_partial_calls and h not in ctx.nontrivial_hashes:
        ctx.nontrivial_hashes.add(h)
        if len(ctx.samples) < ctx.max_samples and len(ctx.nontrivial_hashes) in (1, 5, 50, 300, 1500):
            ctx.samples.append(case)


# ------------------------------------------------------------------------------ workload

NAMES = ["a", "b", "c", "k", "p", "q"]  # p and q are also the partials' names: the default name of a bound variable


def partial_body(rng) -> str:
    reads = []
    for _ in range(rng.randint(2, 5)):
        n = rng.choice(NAMES)
        reads.append(rng.choice([
            "{{ @ }}", "{{ @.x }}", "{{ @ | upcase }}", "{% if @ %}y{% endif %}", "{{ d[@] }}", "{{ @.x[b] }}", "{% for q in @ %}{{ q }}{% endfor %}", "{{ @ | default: c }}",
            "{% echo @ | append: k %}", "{% case @ %}{% when b %}w{% endcase %}", "{{ ['@'] }}", "{% liquid\n echo @\n%}", "{% unless @ == k %}u{% endunless %}",
            "{% assign @ = @ | append: 'x' %}{{ @ }}", "{% assign @ = @.x %}", "{% liquid\n assign @ = @ | default: k\n echo @\n%}", "{% capture @ %}[{{ @ }}]{% endcapture %}{{ @ }}",
            "{% for q in xs %}{{ @ }}{% assign @ = q %}{% endfor %}",
        ]).replace("@", n))
    if rng.random() < 0.3:
        n = rng.choice(NAMES)
        reads.append(rng.choice(["{% assign loc = @ %}{{ loc }}", "{% capture cp %}{{ @ }}{% endcapture %}{{ cp }}"]).replace("@", n))
    if rng.random() < 0.25:
        reads.append("{% for " + rng.choice(NAMES) + " in xs %}{{ " + rng.choice(NAMES) + " }}{% endfor %}")
    return "".join(reads)


def call_site(rng, pname: str, tag: str) -> str:
    """One include/render of pname with a random way of binding (or not binding) some of the names."""
    r = rng.random()
    q = f"'{pname}'"
    if r < 0.2:
        call = "{% " + tag + " " + q + " %}"
    elif r < 0.45:
        kws = ", ".join(f"{n}: {rng.choice(['1', chr(39) + 'lit' + chr(39), 'g1', 'g2.x'])}" for n in rng.sample(NAMES, rng.randint(1, 3)))
        call = "{% " + tag + " " + q + ", " + kws + " %}"
    elif r < 0.6:
        call = "{% " + tag + " " + q + " with g1 as " + rng.choice(NAMES) + " %}"
    elif r < 0.7:
        call = "{% " + tag + " " + q + " with g2 %}"  # binds the partial's own name
    elif r < 0.85:
        call = "{% " + tag + " " + q + " for xs as " + rng.choice(NAMES) + " %}"
    else:
        call = "{% " + tag + " " + q + " for xs %}"
    w = rng.random()
    n = rng.choice(NAMES)
    if w < 0.15:
        return "{% for " + n + " in xs %}" + call + "{% endfor %}"
    if w < 0.25:
        return "{% with " + n + ": g1 %}" + call + "{% endwith %}"
    if w < 0.32:
        return "{% tablerow " + n + " in xs %}" + call + "{% endtablerow %}"
    if w < 0.4:
        return "{% if g1 %}" + call + "{% else %}" + call + "{% endif %}"
    if w < 0.46:
        return "{% macro 'mm' " + n + " %}" + ("{% render " + q + " %}" if tag == "render" else "{{ " + n + " }}") + "{% endmacro %}{% call 'mm' 1 %}" + call
    return call


def gen_matrix(rng) -> dict[str, Any]:
    partials = {"p": partial_body(rng)}
    if rng.random() < 0.5:
        partials["q"] = partial_body(rng) + rng.choice(["", "{% render 'p' %}", "{% include 'p' %}", "{% render 'p', a: b %}"])
        if "include 'p'" in partials["q"]:
            pass
    names = list(partials)
    calls = []
    for _ in range(rng.randint(2, 4)):
        pn = rng.choice(names)
        tag = rng.choice(["include", "render"])
        calls.append(call_site(rng, pn, tag))
        if rng.random() < 0.35:
            n = rng.choice(NAMES)
            calls.append(rng.choice(["{% assign z1 = 1 %}", "{{ " + n + " }}", "{% assign " + rng.choice(["a", "zz"]) + " = 2 %}", "{% assign @ = @ | append: 'x' %}{{ @ }}".replace("@", n),
                                     "{% capture @ %}[{{ @.x }}]{% endcapture %}".replace("@", n), "{% liquid\n assign @ = @ | default: k\n echo @\n%}".replace("@", n),
                                     "{% for z in xs %}{{ @ }}{% assign @ = z %}{% endfor %}".replace("@", n)]))
    # q may include p through `include`; a `render`ed q must not (include is disabled there)
    main = "".join(calls)
    if "include 'p'" in partials.get("q", "") and "render 'q'" in main:
        partials["q"] = partials["q"].replace("{% include 'p' %}", "{% render 'p' %}")
    datas = []
    for _ in range(3):
        datas.append(V.enc({
            "a": rng.choice(["GA", {"x": ["u", "v"]}, None]), "b": rng.choice([0, 1, "GB"]), "c": rng.choice(["GC", True]), "k": rng.choice(["GK", "x"]),
            "p": rng.choice(["GP", {"x": "px"}]), "q": "GQ", "g1": rng.choice([True, False, "G1", None, None]), "g2": rng.choice([{"x": "G2X"}, {"x": "G2X"}, None]), "xs": rng.choice([[], [1, 2], ["p"]]), "d": {"GA": 1, "GK": 2, "x": 3},
        }))
    return {"kind": "matrix", "main": main, "partials": partials, "datas": datas, "async": rng.random() < 0.3, "async_analysis": rng.random() < 0.3}


def gen_generic(rng) -> dict[str, Any]:
    fl = rng.random() < 0.5  # the optional expression syntaxes: their expression classes report their own children
    cfg = tpl.GenCfg(extra=True, max_nodes=16, wild=0.03, var_partial_name=False, ternary=fl, logical_not=fl, parens=fl)
    main, partials, _ = tpl.gen_template_set(rng, cfg, 2)
    st = tpl.Style(wc=0.05)
    msrc = tpl.print_nodes(main, st, rng)
    psrc = {k: tpl.print_nodes(v, st, rng) for k, v in partials.items()}
    datas = [V.enc(tpl.make_data(rng, hostile=0.0, drop=0.15)) for _ in range(3)]
    c = {"kind": "generic", "main": msrc, "partials": psrc, "datas": datas, "async": rng.random() < 0.3, "async_analysis": rng.random() < 0.3, "mode": "lax" if rng.random() < 0.3 else "strict"}
    if fl:
        c["flags"] = {"ternary_expressions": True, "logical_not_operator": True, "logical_parentheses": True}
        if rng.random() < 0.5:
            # every slot of a ternary with a tail filter reads its own variable
            c["main"] += rng.choice(["{{ g1 if m else s | append: t || prepend: n }}", "{{ s | append: g1 if xs.first else t | prepend: m || append: h.a | default: n }}",
                                     "{% assign tv = 'a' if not (m or b) else 'b' | append: f || append: z %}{{ tv }}", "{% echo s if (m and b) else t | upcase || append: xs[0] %}"])
    return c


def twice_in_block_cases():
    """The same partial reached twice, identically, from inside a block that binds a name; afterwards the name is read where only the
    globals can answer (enumerated: binder x tag x name x what follows)."""
    datas = [V.enc({"a": "GA", "b": "GB", "k": "GK", "p": "GP", "q": "GQ", "xs": [1, 2], "g1": "G1"})]
    for name in ("a", "k", "q"):
        for tag in ("include", "render"):
            call = "{% " + tag + " 'p' %}"
            for binder in ("{% with N: 1 %}@{% endwith %}", "{% for N in xs %}@{% endfor %}", "{% tablerow N in xs %}@{% endtablerow %}", "{% macro m N %}@{% endmacro %}{% call m 1 %}",
                           "{% for N in xs %}{% if true %}@{% endif %}{% endfor %}", "{% with N: g1 %}{% with z: 1 %}@{% endwith %}{% endwith %}"):
                for body in (call + call, call + "x" + call + call, "{% if true %}" + call + "{% endif %}" + call):
                    for after in ("{{ N }}", "{{ N.x }}{% if N %}y{% endif %}", "{% " + tag + " 'p' %}{{ N | upcase }}"):
                        main = binder.replace("@", body).replace("N", name) + after.replace("N", name)
                        yield {"kind": "matrix", "main": main, "partials": {"p": "[{{ b }}{{ " + name + " }}]"}, "datas": datas, "async": False, "async_analysis": len(main) % 2 == 0}


def bound_twice_cases():
    """One block binds the same name more than once (repeated keyword argument, repeated parameter, loop variable that is also an argument);
    after the block the name is read where only the globals can answer."""
    datas = [V.enc({"a": "GA", "b": "GB", "k": "GK", "x": "GX", "y": "GY", "xs": [1, 2]})]
    for name in ("a", "k"):
        for binder in ("{% with N: x, N: y %}[{{ N }}]{% endwith %}", "{% with N: 1, b: 2, N: 3 %}[{{ N }}]{% endwith %}", "{% include 'p', N: x, N: y %}", "{% render 'p', N: 1, N: 2 %}",
                       "{% include 'p' with xs as N, N: y %}", "{% render 'p' for xs as N, N: y %}", "{% macro m N, N %}[{{ N }}]{% endmacro %}{% call m 1, 2 %}",
                       "{% macro m N: 1, N: 2 %}[{{ N }}]{% endmacro %}{% call m %}", "{% with N: x %}{% with N: y %}[{{ N }}]{% endwith %}{% endwith %}",
                       "{% for N in xs %}{% for N in xs %}[{{ N }}]{% endfor %}{% endfor %}"):
            for after in ("({{ N }})", "({{ N.size }}){% if N %}y{% endif %}", "{% include 'p' %}", "{% for i in xs %}{{ N }}{% endfor %}"):
                main = binder.replace("N", name) + after.replace("N", name)
                yield {"kind": "matrix", "main": main, "partials": {"p": "[{{ b }}{{ " + name + " }}]"}, "datas": datas, "async": False, "async_analysis": len(main) % 2 == 0}


def nested_partial_scope_cases():
    """A rendered (isolated) partial that itself extends a base or includes a further partial, reached from places of the root where
    names are bound and from places where they are not: what the inner templates read comes from the globals either way."""
    datas = [V.enc({"xs": [1, 2], "x": "GX", "c": "GC", "y": "GY"})]
    inner = {"child": "{% extends 'base' %}{% block b %}!{{ y }}{% endblock %}", "base": "<{{ x }}{% block b %}{% endblock %}{% assign c = 'from-base' %}>", "inc": "{% include 'leafx' %}", "leafx": "({{ x | upcase }}{{ c }})"}
    for binder in ("{% for x in xs %}@{% endfor %}", "{% with x: 1, y: 2 %}@{% endwith %}", "{% assign x = 1 %}@", "{% capture y %}q{% endcapture %}@", "@"):
        for call in ("{% render 'child' %}", "{% render 'inc' %}", "{% render 'child', y: 1 %}", "{% render 'inc', c: 2 %}"):
            for tail in ("|" + call, "[{{ c }}]", "|" + call + "[{{ x }}{{ y }}]"):
                yield {"kind": "matrix", "main": binder.replace("@", call) + tail, "partials": dict(inner), "datas": datas, "async": False, "async_analysis": len(binder) % 2 == 0}


def reentrant_cases():
    """A partial that re-enters itself (or its includer) with other arguments before it reaches a further partial: whatever pass of the
    analysis gets to that further partial first, its variables, filters and tags are what a render evaluates."""
    datas = [V.enc({"d": True, "q": "hi", "a": "GA", "b": "GB", "n": 2, "xs": [1, 2]}), V.enc({"d": False, "q": "lo", "n": 0, "xs": []})]
    leaf = "{{ q | upcase }}{% echo b | append: a %}{% for i in xs %}{{ i | plus: n }}{% endfor %}"
    for tag2 in ("include", "render"):
        call_leaf = "{% " + tag2 + " 'leaf'" + (", q: q, b: b, a: a, xs: xs, n: n" if tag2 == "render" else "") + " %}"
        shapes = {
            "self-with-arg-then-leaf": {"rec": "{% if d %}{% assign d = false %}{% include 'rec', depth: 1 %}{% endif %}" + call_leaf, "main": "{% include 'rec' %}"},
            "leaf-inside-the-reentry": {"rec": "{% if d %}{% assign d = false %}{% include 'rec', depth: 1 %}{% else %}" + call_leaf + "{% endif %}", "main": "{% include 'rec' %}{{ a }}"},
            "mutual": {"rec": "{% if d %}{% assign d = false %}{% include 'other', k: 1 %}{% endif %}", "other": "{% include 'rec', k: 2 %}" + call_leaf, "main": "{% include 'rec' %}"},
            "reentry-from-a-loop": {"rec": "{% for i in xs %}{% if d %}{% assign d = false %}{% include 'rec', i: i %}{% endif %}{% endfor %}" + call_leaf, "main": "{% include 'rec' %}{% include 'rec', z: 1 %}"},
            "main-reenters-itself": {"main": "{% if d %}{% assign d = false %}{% include 'main', depth: 1 %}{% endif %}" + call_leaf},
            "twice-then-reentry": {"rec": call_leaf + "{% if d %}{% assign d = false %}{% include 'rec', depth: 1 %}{% endif %}" + call_leaf, "main": "{% include 'rec' %}"},
        }
        for name, tpls in shapes.items():
            partials = {k: v for k, v in tpls.items() if k != "main"}
            partials["leaf"] = leaf
            for is_async in (False, True):
                yield {"kind": "matrix", "main": tpls["main"], "partials": partials, "datas": datas, "async": is_async, "async_analysis": is_async}


def cases(ctx: core.Ctx):
    rng = ctx.rng("cases")
    for i, c in enumerate(itertools.chain(twice_in_block_cases(), bound_twice_cases(), reentrant_cases(), nested_partial_scope_cases())):
        if i % ctx.nshards == ctx.shard:
            yield c
    for i in range(ctx.budget(3000, 400_000)):
        yield gen_matrix(rng) if i % 3 else gen_generic(rng)
