"""C17 Rendering is pure and independent of history.

Monitors: (a) type-strict deep snapshots of the render data and a structural dump of the parsed template taken before and
after every render (M3-style invariant at the API boundary); (b) M10 forked twins: the probe render is executed alone in a
pristine forked child of a zygote that imported liquid but never rendered, and again in a second pristine child after the
history; functools cache_info() of every module-level memo is read in the child to show the caches were really hit.
"""

from __future__ import annotations

import datetime
import itertools
import json
import os
import sys
from typing import Any

from harness import core, drv
from harness.gen import tpl
from harness.gen import values as V

PROP = "C17"
CASE_WATCHDOG_S = 900.0  # a case runs several forked children one after the other; each child has its own (shorter) alarm
TECHNIQUE = "snapshot invariants around every render + forked-twin history monitor (probe alone vs probe after a history, each in a pristine child)"
RULE = (
    "purity cases: generated template (all standard tags/filters incl. sort, reverse, map, concat, push-like filters) rendered sync/async with "
    "generated data; judged: type-strict deep snapshot of the data and structural dump of the parsed template unchanged by 2 renders, and the "
    "2 renders agree. history cases: a probe render preceded by 1-30 other renders (same and other templates, other environments incl. same "
    "delimiters with other modes/flags, equal-but-distinct values 1/1.0/True, str/Markup format strings, equal datetimes in different zones, "
    "aimed at the date, lexer, parser and error-context memo caches); judged: outcome of the probe after the history equals the outcome of "
    "the probe alone (each in a pristine forked child). now/today are never generated. Non-trivial = data non-empty and template has a tag "
    "(purity) or history non-empty (history); distinct by content."
    " Rounds 5-6 added enumerated families: virtual clock under the date filter and the date parser (now / today / times without a date); template objects kept across other renders; refused templates repeated, then an ordinary one."
    " Round 7 added: purity of templates that load partials; back references in the tree dump."
)
REQUIRED = [  # entered in this process by the purity workload; the history workload runs in forked children and is shown by the memo counters
    ("liquid/builtin/filters/array.py", "sort"),
    ("liquid/lex.py", "get_lexer"),
    ("liquid/parser.py", "get_parser"),
    ("liquid/context.py", "RenderContext.assign"),
]
MIN_COUNTERS = {"clock_reading_renders": 50, "purity_renders": 300, "history_pairs": 30, "batched_probe_pairs": 1000}
ASSUMPTIONS = ["time-dependent constructs (now, today, date of 'now'/'today') are excluded from probes and histories", "no template sources are reloaded"]

# ------------------------------------------------------------------ snapshots


def snap(v: Any, depth: int = 0) -> Any:
    """Type-strict deep snapshot (1 != 1.0 != True; tuple != list; dict order kept)."""
    if depth > 12:
        return "<deep>"
    if isinstance(v, dict):
        return ("dict", type(v).__name__, [(snap(k, depth + 1), snap(x, depth + 1)) for k, x in v.items()])
    if isinstance(v, (list, tuple)):
        return (type(v).__name__, [snap(x, depth + 1) for x in v])
    if isinstance(v, float) and v != v:
        return ("float", "nan")
    if type(v) is int:
        return ("int", hex(v))
    try:
        return (type(v).__name__, repr(v))
    except ValueError:
        return (type(v).__name__, "<unprintable>")


def dump_tree(obj: Any, seen: set[int], depth: int = 0) -> Any:
    """Structural dump of a parsed template: class names and attribute values of every liquid object reachable from nodes."""
    if depth > 40:
        return "<deep>"
    if type(obj) is int:
        return ("int", hex(obj))
    if obj is None or isinstance(obj, (bool, int, float, str, bytes)):
        return (type(obj).__name__, repr(obj))
    if isinstance(obj, (list, tuple)):
        return (type(obj).__name__, [dump_tree(x, seen, depth + 1) for x in obj])
    if isinstance(obj, dict):
        return ("dict", [(repr(k), dump_tree(x, seen, depth + 1)) for k, x in obj.items()])
    mod = type(obj).__module__ or ""
    if not mod.startswith("liquid"):
        return ("<" + type(obj).__name__ + ">",)
    if type(obj).__name__ in ("Environment", "VEnv") or mod == "liquid.environment":
        return ("<env>",)
    if id(obj) in seen:
        return ("<cycle " + type(obj).__name__ + ">",)
    seen.add(id(obj))
    attrs: dict[str, Any] = {}
    if hasattr(obj, "__dict__"):
        attrs.update(vars(obj))
    for cls in type(obj).__mro__:
        for s in getattr(cls, "__slots__", ()) or ():
            if isinstance(s, str) and hasattr(obj, s):
                attrs.setdefault(s, getattr(obj, s))
    out = [type(obj).__name__]
    for k in sorted(attrs):
        if k in ("env", "source"):
            continue
        if k in ("parent", "template"):
            # back references: not followed, but whether one is there (and of what class) is part of the template's state
            out.append((k, "<" + type(attrs[k]).__name__ + ">"))
            continue
        out.append((k, dump_tree(attrs[k], seen, depth + 1)))
    seen.discard(id(obj))
    return tuple(out)


# ------------------------------------------------------------------ zygote (pristine children)

Z: dict[str, Any] = {}


_ENVS: dict[str, Any] = {}
_HELD: dict[str, Any] = {}


def _render_spec(spec: dict[str, Any]) -> Any:
    # one environment object per configuration and process, as an application would hold it
    key = json.dumps(spec.get("env") or {}, sort_keys=True)
    env = _ENVS.get(key)
    if env is None:
        cfg = dict(spec.get("env") or {})
        loader = None
        if cfg.get("templates"):
            from liquid import CachingDictLoader, CachingFileSystemLoader  # noqa: F401

            loader = CachingDictLoader(dict(cfg.pop("templates")), auto_reload=cfg.pop("auto_reload", True), capacity=cfg.pop("capacity", 8))
        babel_locale = cfg.pop("babel_default_locale", None)
        env = _ENVS[key] = drv.make_env(cfg, loader=loader)
        if babel_locale:
            # an application that configures the number / currency / date filters with its own default locale (documented constructor arguments)
            from liquid.extra.filters.babel import Currency, DateTime, Number, Unit

            env.add_filter("decimal", Number(default_locale=babel_locale))
            env.add_filter("currency", Currency(default_locale=babel_locale))
            env.add_filter("datetime", DateTime(default_locale=babel_locale))
            env.add_filter("unit", Unit(default_locale=babel_locale))
    data = V.dec(spec["data"])
    if spec.get("rerender"):
        # a template object the application obtained earlier and kept: rendered again with this data
        t = _HELD[spec["rerender"]]
        o = drv.render_async(t, data) if spec.get("async") else drv.render(t, data)
        return o.key() if o.ok else ["err", o.err_class, drv.safe_str(o.exc).split("\n")[0][:100]]
    if spec.get("get"):
        # the template comes from the environment's (caching) loader; `globals` given with a request belong to that request only
        kw = {"globals": dict(spec["globals"])} if spec.get("globals") is not None else {}
        t = drv.call_async(env.get_template_async, spec["get"], **kw) if spec.get("async") else drv.call(env.get_template, spec["get"], **kw)
        o = (drv.render_async(t.value, data) if spec.get("async") else drv.render(t.value, data)) if t.ok else t
        if t.ok and spec.get("hold"):
            _HELD[spec["hold"]] = t.value
    else:
        o = drv.parse_and_render(env, spec["source"], data, use_async=spec.get("async", False))
    return o.key() if o.ok else ["err", o.err_class, drv.safe_str(o.exc).split("\n")[0][:100]]


class _VirtualClock:
    """A logical clock put where the date filter (and the date parser it uses) look for the time - the module attribute `datetime`: every
    reading is `step` later than the one before, and every reading is recorded."""

    def __init__(self, step_hours: int = 1) -> None:
        self.readings: list[datetime.datetime] = []
        clock = self

        def tick() -> datetime.datetime:
            t = datetime.datetime(2031, 5, 6, 7, 8, 9) + datetime.timedelta(hours=step_hours * len(clock.readings))
            clock.readings.append(t)
            return t

        class _LikeReal(type):
            """isinstance(x, <virtual class>) answers for the real class: the code under the clock tests values made by the real one"""

            def __instancecheck__(cls, inst):  # noqa: N805
                return isinstance(inst, cls.__mro__[1])

        class VDateTime(datetime.datetime, metaclass=_LikeReal):
            @classmethod
            def now(cls, tz=None):  # noqa: ANN001
                return tick()

            @classmethod
            def today(cls):
                return tick()

        class VDate(datetime.date, metaclass=_LikeReal):
            @classmethod
            def today(cls):
                return tick().date()

        import types

        self.module = types.SimpleNamespace(**{k: getattr(datetime, k) for k in dir(datetime) if not k.startswith("__")})
        self.module.datetime = VDateTime
        self.module.date = VDate


def _clock_job(job: dict[str, Any]) -> dict[str, Any]:
    """Render the steps one after the other under the virtual clock; report each output with the clock readings made during that render."""
    from liquid.builtin.filters import misc

    clock = _VirtualClock(job.get("step_hours", 1))
    if not hasattr(misc, "datetime"):
        return {"result": ["no-clock-seam"], "memo_hits": {}}
    misc.datetime = clock.module
    try:
        import dateutil.parser._parser as _dp

        if hasattr(_dp, "datetime"):
            _dp.datetime = clock.module  # a time without a date is completed from today's date
    except Exception:  # noqa: BLE001
        pass
    out = []
    for sp in job["steps"]:
        n0 = len(clock.readings)
        r = _render_spec(sp)
        out.append({"out": r, "readings": [t.isoformat() for t in clock.readings[n0:]]})
    return {"result": out, "memo_hits": {}}


def _child_job(job: dict[str, Any]) -> dict[str, Any]:
    if "steps" in job:
        return _clock_job(job)
    for spec in job["history"]:
        _render_spec(spec)
    if "probes" in job:
        res = [_render_spec(p) for p in job["probes"]]
    else:
        res = _render_spec(job["probe"])
    info = {}
    try:
        from liquid.builtin.filters import misc
        from liquid import lex, parser

        hits = 0
        for obj in list(vars(misc).values()):  # every functools memo reachable from the module's functions
            f = obj
            while f is not None and callable(f) and not hasattr(f, "cache_info"):
                f = getattr(f, "__wrapped__", None)
            if f is not None and hasattr(f, "cache_info") and getattr(f, "__module__", "") == misc.__name__:
                hits = max(hits, f.cache_info().hits)
        info["date"] = hits
        info["lexer"] = lex.get_lexer.cache_info().hits if hasattr(lex.get_lexer, "cache_info") else 0
        info["parser"] = parser.get_parser.cache_info().hits if hasattr(parser.get_parser, "cache_info") else 0
    except Exception as e:  # noqa: BLE001
        info["error"] = repr(e)
    return {"result": res, "memo_hits": info}


def _zygote_loop(rfd: int, wfd: int) -> None:
    rf = os.fdopen(rfd, "r", encoding="utf-8")
    wf = os.fdopen(wfd, "w", encoding="utf-8")
    for line in rf:
        job = json.loads(line)
        cr, cw = os.pipe()
        pid = os.fork()
        if pid == 0:
            try:
                os.close(cr)
                try:
                    out = _child_job(job)
                except BaseException as e:  # noqa: BLE001
                    out = {"result": ["child-crash", type(e).__name__, str(e)[:200]], "memo_hits": {}}
                with os.fdopen(cw, "w", encoding="utf-8") as f:
                    f.write(json.dumps(out, default=repr))
            finally:
                os._exit(0)
        os.close(cw)
        with os.fdopen(cr, "r", encoding="utf-8") as f:
            data = f.read()
        os.waitpid(pid, 0)
        wf.write((data or json.dumps({"result": ["child-died"], "memo_hits": {}})) + "\n")
        wf.flush()
    os._exit(0)


def setup(ctx: core.Ctx) -> None:
    import liquid  # noqa: F401 - imported, nothing rendered yet in this process
    import liquid.builtin.filters.misc  # noqa: F401
    import dateutil.parser  # noqa: F401

    p2c_r, p2c_w = os.pipe()
    c2p_r, c2p_w = os.pipe()
    pid = os.fork()
    if pid == 0:
        os.close(p2c_w)
        os.close(c2p_r)
        try:
            _zygote_loop(p2c_r, c2p_w)
        finally:
            os._exit(0)
    os.close(p2c_r)
    os.close(c2p_w)
    Z.update(pid=pid, w=os.fdopen(p2c_w, "w", encoding="utf-8"), r=os.fdopen(c2p_r, "r", encoding="utf-8"))


def finish(ctx: core.Ctx) -> None:
    if Z:
        try:
            Z["w"].close()
            os.waitpid(Z["pid"], 0)
        except Exception:  # noqa: BLE001
            pass
        Z.clear()


def in_child(history: list, probe: dict | None, probes: list | None = None) -> dict[str, Any]:
    if not Z:
        raise core.Inconclusive("zygote not running")
    job = {"history": history, "probes": probes} if probes is not None else {"history": history, "probe": probe}
    Z["w"].write(json.dumps(job, default=repr) + "\n")
    Z["w"].flush()
    line = Z["r"].readline()
    if not line:
        raise core.Inconclusive("zygote died")
    return json.loads(line)


# ------------------------------------------------------------------ judge


def construct_of(src: str) -> str:
    import re

    m = re.findall(r"\|\s*(\w+)", src)
    if m:
        return "filter:" + m[-1]
    m = re.search(r"\{%-?\s*(\w+)", src)
    return "tag:" + m.group(1) if m else "output"


def judge(ctx: core.Ctx, case: dict[str, Any]) -> None:
    if case["kind"] == "purity":
        data = V.dec(case["data"])
        ecfg = dict(case.get("env") or {})
        ploader = None
        if ecfg.get("templates"):
            from liquid import DictLoader

            ploader = DictLoader(dict(ecfg.pop("templates")))
        env = drv.make_env(ecfg, loader=ploader)
        o = drv.parse(env, case["source"])
        if not o.ok:
            ctx.count("parse_error_skipped")
            return
        t = o.value
        before_data = snap(data)
        before_tree = dump_tree(t.nodes, set())
        r1 = drv.render_async(t, data) if case.get("async") else drv.render(t, data)
        ctx.count("purity_renders")
        after1 = snap(data)
        r2 = drv.render(t, data)
        ctx.count("purity_renders")
        ctx.evaluations += 1
        if snap(data) != before_data:
            from harness import shrink

            def pred(src: str) -> bool:
                d2 = V.dec(case["data"])
                b = snap(d2)
                drv.parse_and_render(drv.make_env(case.get("env") or {}), src, d2)
                return snap(d2) != b

            small = shrink.shrink_source(case["source"], pred)
            ctx.violation(f"data-mutated:{construct_of(small)}", f"render of {small!r:.300} changed the data passed to it: before {before_data!r:.300} after {after1!r:.300}", {"source": case["source"]})
            return
        if dump_tree(t.nodes, set()) != before_tree:
            ctx.violation(f"template-mutated:{construct_of(case['source'])}", f"render of {case['source']!r:.300} changed the parsed template's node tree")
            return
        if r1.key() != r2.key() and not case.get("async"):
            ctx.violation(f"second-render-differs:{construct_of(case['source'])}", f"{case['source']!r:.300}: first render {r1.brief()} second render {r2.brief()}")
            return
        h = core.stable_hash([case["source"], case["data"]])
        if case["data"] and "{%" in case["source"] and h not in ctx.nontrivial_hashes:
            ctx.nontrivial_hashes.add(h)
            if len(ctx.samples) < 3 and len(ctx.nontrivial_hashes) in (1, 50, 500):
                ctx.samples.append(case)
        return
    if case["kind"] == "clock":
        # "apart from the current time": what a template says about the time is the time at which it is rendered, not the time at which it
        # (or something like it) was rendered before.  Logical clock, so no wall-clock reading decides anything.
        if not Z:
            raise core.Inconclusive("zygote not running")
        Z["w"].write(json.dumps({"steps": case["steps"], "step_hours": case.get("step_hours", 1)}, default=repr) + "\n")
        Z["w"].flush()
        line = Z["r"].readline()
        if not line:
            raise core.Inconclusive("zygote died")
        res = json.loads(line)["result"]
        if res and res[0] in ("child-crash", "child-died", "no-clock-seam"):
            raise core.Inconclusive(f"clock child failed: {res}")
        ctx.evaluations += 1
        ctx.count("clock_renders", len(res))
        for i, (sp, r) in enumerate(zip(case["steps"], res)):
            if not sp.get("reads_clock"):
                continue
            fmt = sp["clock_fmt"]
            ok_values = {datetime.datetime.fromisoformat(t).strftime(fmt) for t in r["readings"]}
            if sp.get("time_of_day"):
                # a time without a date: the date is today's, i.e. that of a clock reading made during this render
                ok_values = {datetime.datetime.fromisoformat(t).strftime("%Y-%m-%d") + "|" + sp["time_of_day"] for t in r["readings"]}
            got = r["out"][1] if r["out"] and r["out"][0] == "ok" else None
            if got is None:
                ctx.count("clock_render_failed")
                continue
            ctx.count("clock_reading_renders")
            if got.strip("[]") not in ok_values:
                earlier = [j for j in range(i) if res[j]["out"] == r["out"]]
                ctx.violation(
                    "stale-clock:" + construct_of(sp["source"]),
                    f"render #{i + 1} of {sp['source']!r} printed {got!r}; the clock was read {len(r['readings'])} time(s) during that render ({sorted(ok_values)})"
                    + (f": it is what render #{earlier[0] + 1} printed" if earlier else ""),
                )
                return
        ctx.ok((json.dumps(case["steps"], sort_keys=True, default=repr),), nontrivial=True)
        return
    if case["kind"] == "batch":
        # many (history render, probe render) pairs share two children: one runs the probes only, the other the history renders first.
        # Both are histories of the same process state; a probe whose result differs between them depends on history.  The witness is
        # then re-established for that probe alone, in fresh children.
        ref = in_child([], None, case["probes"])
        aft = in_child(case["history"], None, case["probes"])
        ctx.count("history_pairs")
        ctx.count("batched_probe_pairs", len(case["probes"]))
        ctx.evaluations += 1
        if not isinstance(ref["result"], list) or not isinstance(aft["result"], list):
            raise core.Inconclusive(f"batch child failed: {ref['result']!r:.100} / {aft['result']!r:.100}")
        for i, (a, b) in enumerate(zip(ref["result"], aft["result"])):
            if a == b:
                continue
            probe = case["probes"][i]
            alone = in_child([], probe)["result"]
            culprit = None
            for spec in [case["history"][i]] + case["history"]:
                if in_child([spec], probe)["result"] != alone:
                    culprit = spec
                    break
            if culprit is None:
                for spec in case["probes"][:i]:
                    if in_child([spec], probe)["result"] != alone:
                        culprit = spec
                        break
            ctx.violation(
                f"history-dependent:{case.get('aim', 'batch')}:{construct_of(probe['source'])}",
                f"probe {probe['source']!r:.200} with data {probe['data']!r:.200} env {probe.get('env')} gives {alone} alone but differs after "
                + (f"the single earlier render {culprit['source']!r:.200} with data {culprit['data']!r:.200}" if culprit else "the batch history")
                + f" (in the batch: {a} vs {b})",
            )
            return
        h = core.stable_hash(case)
        if h not in ctx.nontrivial_hashes:
            ctx.nontrivial_hashes.add(h)
        return
    # history case (prefix: what both children do first, e.g. obtaining the template object that the probe renders again)
    prefix = case.get("prefix") or []
    alone = in_child(prefix, case["probe"])
    after = in_child(prefix + case["history"], case["probe"])
    ctx.count("history_pairs")
    ctx.evaluations += 1
    mh = after.get("memo_hits", {})
    ctx.count("date_memo_hits_in_history_children", int(mh.get("date", 0) or 0))
    ctx.count("lexer_memo_hits_in_history_children", int(mh.get("lexer", 0) or 0))
    ctx.count("parser_memo_hits_in_history_children", int(mh.get("parser", 0) or 0))
    if alone["result"] and alone["result"][0] in ("child-crash", "child-died"):
        raise core.Inconclusive(f"reference child failed: {alone['result']}")
    if alone["result"] != after["result"]:
        # shrink the history: which single earlier render is enough?
        culprit = None
        for spec in case["history"]:
            if in_child(prefix + [spec], case["probe"])["result"] != alone["result"]:
                culprit = spec
                break
        tag = case.get("aim", "generated")
        if prefix and culprit is not None and culprit.get("get"):
            culprit = dict(culprit, source=f"get_template({culprit['get']!r}) and its render")
        mech = ""
        if prefix:
            # which mechanism: do the kept object's pinned globals now read as if it had been requested without any (a later load of the same
            # name by a tag re-pinned them), or is it something else?
            bare = [dict(p, globals=None) for p in prefix]
            same_as_unpinned = in_child(bare, case["probe"])["result"] == after["result"]
            mech = ":pinned-globals-replaced-by-a-tag-load" if same_as_unpinned and any(p.get("globals") for p in prefix) else ":other"
        ctx.violation(
            f"history-dependent:{tag}:{construct_of(case['probe']['source'])}" if not prefix else f"history-dependent:{tag}{mech}",
            f"probe {case['probe']['source']!r:.200} with data {case['probe']['data']!r:.200} gives {alone['result']} alone but {after['result']} after "
            + (f"the single earlier render {culprit['source']!r:.200} with data {culprit['data']!r:.200} env {culprit.get('env')}" if culprit else f"a history of {len(case['history'])} renders"),
        )
        return
    h = core.stable_hash(case)
    if case["history"] and h not in ctx.nontrivial_hashes:
        ctx.nontrivial_hashes.add(h)
        if len(ctx.samples) < ctx.max_samples and len(ctx.nontrivial_hashes) in (2, 60, 200):
            ctx.samples.append(case)


# ------------------------------------------------------------------ generators

UTC = datetime.timezone.utc
PLUS5 = datetime.timezone(datetime.timedelta(hours=5))
FMTS = ["%Y", "%H:%M", "%Y-%m-%d %H", "<%H>", "%s", "%j"]


def date_values(rng) -> list[Any]:
    base = datetime.datetime(2024, 3, 1, 12, 30, tzinfo=UTC)
    return [1, 1.0, True, 0, 0.0, False, "1", 86400, 86400.0, base, base.astimezone(PLUS5), base.replace(tzinfo=None), datetime.date(2024, 3, 1), "2024-03-01 12:30", "March 1, 2024", 2**40, "x"]


def spec(source: str, data: dict[str, Any], env: dict[str, Any] | None = None, is_async: bool = False) -> dict[str, Any]:
    return {"source": source, "data": V.enc(data), "env": env or {}, "async": is_async}


XT_TEMPLATES = {
    "p": "[{{ v }}]", "base": "BASE<{% block b %}b0{% endblock %}|{% block c %}c0{% endblock %}>", "child": "{% extends 'base' %}{% block b %}b1{{ block.super }}{{ v }}{% endblock %}",
    "mac": "{% macro rp x %}({% render 'p', v: x %}){% endmacro %}{% macro ip x %}{% include 'p' %}{% endmacro %}", "inc_in_render": "{% include 'p' %}!", "rchild": "{% render 'child' %}",
}
XT_SOURCES = [
    "{% macro m x %}[{% render 'p', v: x %}]{% endmacro %}{% call m 1 %}", "{% render 'child' %}", "{% include 'child' %}", "{% render 'p', v: 2 %}", "{% include 'p' %}",
    "{% macro m %}{% include 'p' %}{% endmacro %}{% call m %}", "{% include 'mac' %}{% call rp 1 %}{% call ip 2 %}", "{% with v: 3 %}{% render 'p' %}{% include 'p' %}{% endwith %}",
    "{% block b %}x{{ block.super }}{% endblock %}", "{% for i in (1..2) %}{% render 'p', v: i %}{% endfor %}", "{% render 'inc_in_render' %}", "{% render 'p' %}{% include 'inc_in_render' %}",
    "{% macro m %}{% render 'child' %}{% endmacro %}{% call m %}", "{% render 'rchild' %}", "{% macro m %}{% macro n %}{% render 'p', v: 5 %}{% endmacro %}{% call n %}{% endmacro %}{% call m %}",
    "{% include 'child', v: 9 %}{% render 'child', v: 8 %}", "{% render 'p' for xs as v %}{% include 'p' for xs as v %}",
]


def gen_history_case(rng) -> dict[str, Any]:
    aim = rng.choice(["tags-across-templates", "tags-across-templates", "locale-configurations", "date-equal-values", "date-equal-values", "date-markup-format", "lexer-parser-configs", "generated", "counters-and-cycles", "equal-distinct-through-filters", "equal-distinct-through-filters", "caching-loader-requests"])
    hist: list[dict[str, Any]] = []
    if aim == "date-equal-values":
        fmt = rng.choice(FMTS)
        vals = date_values(rng)
        if rng.random() < 0.7:  # one family of values that compare equal but differ in type or zone
            base = datetime.datetime(2024, 3, 1, 12, 30, tzinfo=UTC)
            vals = rng.choice([[1, 1.0, True, "1"], [0, 0.0, False], [86400, 86400.0], [base, base.astimezone(PLUS5), base.astimezone(datetime.timezone(datetime.timedelta(hours=-8)))]])
        pv = rng.choice(vals)
        for _ in range(rng.randint(1, 6)):
            hist.append(spec("{{ d | date: f }}", {"d": rng.choice(vals), "f": fmt}))
        probe = spec("{{ d | date: f }}", {"d": pv, "f": fmt})
    elif aim == "date-markup-format":
        from markupsafe import Markup

        fmt = rng.choice(["<%Y>", "%Y&", "'%H'"])
        d = rng.choice([1, 86400, "2024-03-01"])
        variants = [spec("{{ d | date: f }}", {"d": d, "f": fmt}, {"autoescape": True}), spec("{{ d | date: f }}", {"d": d, "f": Markup(fmt)}, {"autoescape": True}),
                    spec("{{ d | date: '" + fmt.replace("'", "") + "' }}", {"d": d}, {"autoescape": True}), spec("{{ d | date: f }}", {"d": d, "f": fmt}, {"autoescape": False})]
        rng.shuffle(variants)
        hist, probe = variants[:-1], variants[-1]
    elif aim == "equal-distinct-through-filters":
        # any memo keyed by ==/hash conflates these: the same template is first rendered with one member of a family of values that
        # compare equal but differ in type (or safe-marking), then probed with another member
        from markupsafe import Markup

        fam = rng.choice([
            ["<b>x</b>", Markup("<b>x</b>")], ["a & b", Markup("a & b")], ["plain", Markup("plain")], [1, 1.0, True], [0, 0.0, False], [2, 2.0],
            [[1, 2], (1, 2)], [[True, 0], [1, False], [1.0, 0.0]], ["1", Markup("1")], [{"k": 1}, {"k": 1.0}, {"k": True}],
        ])
        f0 = ["strip_html", "escape", "escape_once", "upcase", "downcase", "capitalize", "strip", "strip_newlines", "newline_to_br", "url_encode", "url_decode", "base64_encode", "squish",
              "size", "abs", "ceil", "floor", "round", "first", "last", "join", "reverse", "sort", "uniq", "compact", "json", "sum", "default: 'd'", "times: 2", "plus: 1", "minus: 1",
              "divided_by: 2", "modulo: 2", "at_least: 1", "at_most: 1", "append: 'z'", "prepend: 'z'", "remove: 'x'", "replace: 'x', 'y'", "truncate: 3", "truncatewords: 1", "slice: 0",
              "split: ' '", "date: '%Y'", "map: 'k'", "where: 'k'", "t", "gettext", "safe"]
        f1 = ["append: w", "prepend: w", "default: w", "plus: w", "times: w", "concat: w", "replace: 'x', w", "at_least: w", "date: w"]
        if rng.random() < 0.75:
            src = "{{ v | " + rng.choice(f0) + (" | " + rng.choice(f0) if rng.random() < 0.3 else "") + " }}"
        else:
            src = "{{ 'x1' | " + rng.choice(f1) + " }}[{{ 1 | " + rng.choice(f1) + " }}]"
        e = {"autoescape": rng.random() < 0.6, "extra": True}
        pv = rng.choice(fam)
        for _ in range(rng.randint(1, 3)):
            m = rng.choice(fam)
            hist.append(spec(src, {"v": m, "w": m}, e))
        probe = spec(src, {"v": pv, "w": pv}, e)
    elif aim == "tags-across-templates":
        # tags that set up state for the templates they reach (disabled tags, block stacks, macro registers): whatever one render leaves
        # behind must not be there for the next one - in another template, another environment, or the same one
        e1 = {"templates": XT_TEMPLATES, "extra": True}
        e2 = {"templates": XT_TEMPLATES, "extra": True, "mode": "lax"}
        e3 = {"extra": True, "mode": "warn", "templates": {k: v for k, v in XT_TEMPLATES.items() if k != "mac"}}
        for _ in range(rng.randint(1, 8)):
            hist.append(spec(rng.choice(XT_SOURCES), {"v": rng.choice([1, "x"]), "xs": [1, 2]}, rng.choice([e1, e1, e2, e3]), rng.random() < 0.3))
        probe = spec(rng.choice(XT_SOURCES), {"v": 7, "xs": [1, 2]}, rng.choice([e1, e2, e3]), rng.random() < 0.3)
    elif aim == "locale-configurations":
        # environments whose locale-aware filters are configured differently, and locale values from the data that are well formed but
        # unknown to Babel (they fall back to each filter's own default)
        envs = [{"extra": True}, {"extra": True, "babel_default_locale": "de"}, {"extra": True, "babel_default_locale": "fr_CH"}]
        srcs = ["{{ n | decimal }}", "{{ n | currency }}", "{{ n | decimal: group_separator: false }}", "{{ 12 | unit: 'length-kilometer' }}", "{{ d | datetime }}", "{{ n | money }}", "{{ '1.234,5' | decimal }}"]
        for _ in range(rng.randint(1, 6)):
            hist.append(spec(rng.choice(srcs), {"n": rng.choice([1234.5, 7]), "d": "2024-03-01 10:00", "locale": rng.choice(["tlh_QO", "xx_YY", "de", "en_GB"]), "input_locale": rng.choice(["tlh_QO", "de", "en_US"])}, rng.choice(envs)))
        probe = spec(rng.choice(srcs), {"n": 1234.5, "d": "2024-03-01 10:00", "locale": rng.choice(["tlh_QO", "xx_YY", "de"]), "input_locale": rng.choice(["tlh_QO", "en_US"])}, rng.choice(envs))
    elif aim == "caching-loader-requests":
        # one environment with a caching loader: requests for the same names with / without per-request globals, then a probe request
        tpls = {"t1": "<t1>[g={{ g }}][h={{ h }}][e={{ eg }}]{% include 't2' %}", "t2": "<t2>[g={{ g }}][x={{ x }}]", "t3": "{% render 't2', x: g %}"}
        e = {"templates": tpls, "capacity": rng.choice([1, 2, 8]), "auto_reload": rng.random() < 0.5}
        if rng.random() < 0.4:
            e["globals"] = {"eg": "EG"}

        def req():
            g = rng.choice([None, None, {"g": f"G{rng.randint(1, 3)}"}, {"g": "G9", "h": "H"}, {}])
            sp = spec("", {"x": rng.choice([1, 2])}, e, rng.random() < 0.3)
            sp["get"] = rng.choice(["t1", "t1", "t2", "t3"])
            sp["globals"] = g
            return sp

        hist = [req() for _ in range(rng.randint(1, 6))]
        probe = req()
    elif aim == "lexer-parser-configs":
        srcs = ["{% if a %}A{% else %}B{% endif %}{{ x | upcase }}", "{{ a ? 'y' : 'n' }}", "{% if not a %}N{% endif %}", "{% if (a or b) and c %}P{% endif %}", "{# c #}x{{ a }}", "{{ 'abc'.first }}{{ s[0] }}",
                "{% unknown %}", "{{ x | nosuch }}", "{% if a %}", "{{ a[ }}"]
        envs = [{}, {"mode": "lax"}, {"mode": "warn"}, {"flags": {"ternary_expressions": True}}, {"flags": {"logical_not_operator": True}}, {"flags": {"logical_parentheses": True}},
                {"template_comments": True}, {"flags": {"string_first_and_last": True, "string_sequences": True}}, {"strict_filters": False}, {"extra": True}, {"autoescape": True},
                {"delims": ["<%", "%>", "<<", ">>"]}, {"undefined": "strict"}]
        data = {"a": rng.choice([True, False, None]), "b": True, "c": rng.choice([True, False]), "x": "<v>", "s": "hello"}
        for _ in range(rng.randint(2, 30)):
            hist.append(spec(rng.choice(srcs), data, rng.choice(envs)))
        probe = spec(rng.choice(srcs), data, rng.choice(envs))
    elif aim == "counters-and-cycles":
        srcs = ["{% increment c %}{% increment c %}", "{% decrement c %}", "{% cycle 'a', 'b', 'c' %}{% cycle 'a', 'b', 'c' %}", "{% for i in (1..3) %}{% ifchanged %}{{ x }}{% endifchanged %}{% endfor %}",
                "{% assign v = 5 %}{{ v }}", "{{ v }}{{ c }}", "{% capture v %}cap{% endcapture %}{{ v }}", "{% for i in xs %}{% cycle 1, 2 %}{% endfor %}"]
        data = {"x": 1, "xs": [1, 2, 3]}
        for _ in range(rng.randint(1, 10)):
            hist.append(spec(rng.choice(srcs), data))
        probe = spec(rng.choice(srcs), data)
    else:
        def one():
            g = tpl.Gen(rng, tpl.GenCfg(max_nodes=8, wild=0.05))
            src = tpl.print_nodes(g.template(1, 4), tpl.Style(wc=0.05), rng)
            return spec(src, tpl.make_data(rng, hostile=0.05, drop=0.1), rng.choice([{}, {"mode": "lax"}, {"extra": True}]))

        cands = [one() for _ in range(rng.randint(2, 8))]
        cands = [c for c in cands if "now" not in c["source"] and "today" not in c["source"]] or [spec("{{ a }}", {"a": 1})]
        probe = rng.choice(cands)
        hist = [rng.choice(cands) for _ in range(rng.randint(1, 12))]
    return {"kind": "history", "aim": aim, "history": hist, "probe": probe}


F0 = ["strip_html", "escape", "escape_once", "upcase", "downcase", "capitalize", "strip", "lstrip", "rstrip", "strip_newlines", "newline_to_br", "url_encode", "url_decode", "base64_encode",
      "base64_decode", "squish", "size", "abs", "ceil", "floor", "round", "first", "last", "join", "reverse", "sort", "sort_natural", "uniq", "compact", "json", "sum", "default: 'd'", "times: 2",
      "plus: 1", "minus: 1", "divided_by: 2", "modulo: 2", "at_least: 1", "at_most: 1", "append: 'z'", "prepend: 'z'", "remove: 'x'", "replace: 'x', 'y'", "truncate: 3", "truncatewords: 1",
      "slice: 0", "split: ' '", "date: '%Y'", "map: 'k'", "where: 'k'", "t", "gettext", "safe", "escapejs" if False else "strip", "append: v", "prepend: v", "default: v", "plus: v", "concat: v", "at_least: v"]


def batch_cases():
    """Every filter x every family of equal-but-distinct values, in both orders, with autoescape on and off (enumerated)."""
    from markupsafe import Markup

    fams = [
        ["<b>x</b>", Markup("<b>x</b>")], ["a & b", Markup("a & b")], ["plain", Markup("plain")], [1, 1.0], [1, True], [0, False], [0.0, 0], [[1, 2], (1, 2)],
        [[True, 0], [1, False]], ["1", Markup("1")], [{"k": 1}, {"k": True}], [[{"k": 1}], [{"k": 1.0}]],
    ]
    for fam in fams:
        for first, second in ((fam[0], fam[1]), (fam[1], fam[0])):
            for auto in (True, False):
                e = {"autoescape": auto, "extra": True}
                hist = [spec("{{ v | " + f + " }}", {"v": first}, e) for f in F0]
                probes = [spec("{{ v | " + f + " }}", {"v": second}, e) for f in F0]
                yield {"kind": "batch", "aim": "equal-distinct-through-filters", "history": hist, "probes": probes}


POISON = ["<script>x", "<style>body{", "<!--", "<a b='", "</script", "<![CDATA[", "&#", "%(x)s %", "\ud800", "9" * 30, "<SCRIPT><script>", "\x00", "{{", "%zz", "Zm9", float("nan"), [None], {"k": []}, -(10**30)]
BENIGN = ["a <b>c</b> d", "hello world", "1", 3, 1.5, [3, 1, 2], [{"k": 1}, {"k": 0}], "<script>x</script>y", "2024-03-01", "Zm9v", "a%20b"]


def poison_batch_cases():
    """Every filter first sees inputs that could leave something behind in shared state (unbalanced markup, stray escapes, values that make
    it raise), then ordinary inputs: the ordinary results must be what a fresh process gives."""
    for auto in (True, False):
        e = {"autoescape": auto, "extra": True, "mode": "lax"}
        for chunk in range(0, len(POISON), 5):
            hist = [spec("{{ v | " + f + " }}", {"v": pv}, e) for f in F0 for pv in POISON[chunk:chunk + 5]]
            probes = [spec("{{ v | " + f + " }}", {"v": bv}, e) for f in F0 for bv in BENIGN]
            yield {"kind": "batch", "aim": "state-left-behind-by-hostile-input", "history": hist, "probes": probes}


def gen_purity_case(rng) -> dict[str, Any]:
    if rng.random() < 0.3:
        f = rng.choice(["sort", "sort_natural", "reverse", "uniq", "compact", "map: 'k'", "concat: b", "sort: 'k'", "where: 'k'", "join: ','", "first", "last", "sum", "slice: 1, 2", "push: 9", "pop", "shift",
                        "unshift: 9", "sort_numeric", "reject: 'k'", "flatten" if False else "size", "default: b"])
        f2 = rng.choice(["", "", " | reverse", " | sort", " | sort: 'k'", " | sort_natural: 't'", " | uniq: 'k'", " | map: 'k' | sort", " | concat: b | sort_natural", " | compact | sort: 't'"])
        target = rng.choice(["a", "a", "h.items", "h.items", "a | " + f])
        src = "{% assign r = " + target + (" | " + f if "|" not in target else "") + f2 + " %}{{ r | size }}{% for i in a %}{{ i }}{% endfor %}{{ a | " + f + " | json }}"
        homo = [
            [{"k": 3, "t": "c"}, {"k": 1, "t": "a"}, {"k": 2, "t": "B"}], [{"k": "z", "t": "y"}, {"k": "b", "t": "X"}, {"k": "m", "t": "n"}],
            [{"k": 2.5, "t": "q"}, {"k": -1, "t": "p"}], [3, 1, 2], ["b", "A", "c"], [{"k": 2}, {"k": 1}, {"j": 0}], [[2, 1], [0]], [None, 1, None], [2, 1, 2, 3, 1],
        ]
        a = rng.choice(homo)
        data = {"a": a, "b": rng.choice([[9, 8], "z"]), "h": {"items": rng.choice(homo)}}
        return {"kind": "purity", "source": src, "data": V.enc(data), "env": {"extra": True}, "async": rng.random() < 0.2}
    extra = rng.random() < 0.3
    g = tpl.Gen(rng, tpl.GenCfg(max_nodes=10, wild=0.05, extra=extra) if "extra" in tpl.GenCfg.__dataclass_fields__ else tpl.GenCfg(max_nodes=10, wild=0.05))
    src = tpl.print_nodes(g.template(1, 5), tpl.Style(wc=0.05), rng)
    return {"kind": "purity", "source": src, "data": V.enc(tpl.make_data(rng, hostile=0.05, drop=0.1)), "env": {"extra": extra, "mode": rng.choice(["strict", "lax"])}, "async": rng.random() < 0.2}


def partial_purity_cases():
    """Templates that load other templates while they render (extends chains, include, render, with arguments and in loops): rendering
    leaves the parsed tree of the template as it was, and a second render gives the same text."""
    tpls = {"base": "<base>{% block b %}B{{ x }}{% endblock %}|{% block c %}C{% endblock %}", "mid": "{% extends 'base' %}{% block b %}M{{ block.super }}{% endblock %}", "p": "[p {{ x }} {{ v }}]",
            "q": "{% for i in (1..2) %}{{ i }}{{ x }}{% endfor %}"}
    sources = ["{% extends 'base' %}{% block b %}L{{ x }}{% endblock %}", "{% extends 'mid' %}{% block c %}LC{{ block.super }}{% endblock %}", "{% extends 'mid' %}", "{% if x %}{% extends 'base' %}{% endif %}",
               "{% include 'p' %}{% include 'p', v: x %}", "{% render 'p', v: x %}{% render 'q' %}", "{% for i in (1..2) %}{% render 'p', v: i %}{% include 'q' %}{% endfor %}", "{% include 'mid' %}after",
               "{% render 'p' for xs as v %}{% include 'p' for xs as v %}", "{% assign n = 'p' %}{% include n %}{% capture c %}{% render 'q' %}{% endcapture %}{{ c | size }}"]
    for si, src in enumerate(sources):
        for mode in ("strict", "lax"):
            for is_async in (False, True):
                yield {"kind": "purity", "source": src, "data": V.enc({"x": si + 1, "xs": [1, 2]}), "env": {"extra": True, "mode": mode, "templates": tpls}, "async": is_async}


def held_template_cases():
    """An application keeps a template object it got from a caching loader (with globals pinned to it) and renders it again after other
    templates - which include / render / extend the same name - were rendered in the same environment."""
    tpls = {"t2": "<t2>[g={{ g }}][x={{ x }}]", "t1": "<t1>{% include 't2' %}", "t3": "{% render 't2', x: 5 %}", "t4": "{% extends 't2' %}", "t5": "<t5>{{ g }}", "t6": "{% include 't1' %}"}
    for capacity, auto_reload, eglobals in itertools.product((1, 8), (False, True), (None, {"g": "EG"})):
        e = {"templates": tpls, "capacity": capacity, "auto_reload": auto_reload}
        if eglobals:
            e["globals"] = eglobals
        for pinned in ({"g": "PINNED"}, None):
            for others in (["t3"], ["t1"], ["t4"], ["t5"], ["t6"], ["t5", "t3", "t5"]):
                for is_async in (False, True):
                    first = spec("", {"x": 1}, e, is_async)
                    first.update(get="t2", globals=pinned, hold="kept")
                    hist = []
                    for name in others:
                        h = spec("", {"x": 2}, e, is_async)
                        h.update(get=name, globals=None)
                        hist.append(h)
                    probe = spec("", {"x": 1}, e, is_async)
                    probe.update(rerender="kept")
                    yield {"kind": "history", "aim": "template-object-kept-across-other-renders", "prefix": [first], "history": hist, "probe": probe}


def refused_template_histories():
    """Templates that the environment refuses (nested too deep, malformed, unknown tags - in strict and in tolerant mode, directly and as
    partials), many times over, and then an ordinary template: what was refused leaves nothing behind in the environment."""
    deep = lambda n, inner="x": "{% if true %}" * n + inner + "{% endif %}" * n  # noqa: E731
    refused = [deep(31), deep(40), "{% liquid\n" + "if true\n" * 31 + "echo 'x'\n" + "endif\n" * 31 + "%}", "{% if %}{% endif %}" + deep(31), "{% for x in %}" + deep(33) + "{% endfor %}", "{% nosuch %}" * 5 + deep(31)]
    probes = [deep(5, "[{{ v }}]"), deep(25, "[{{ v }}]"), deep(29, "[{{ v }}]"), deep(30, "[{{ v }}]"), "{% for i in (1..2) %}" + deep(27, "{{ i }}") + "{% endfor %}", "{% liquid\n" + "if true\n" * 29 + "echo v\n" + "endif\n" * 29 + "%}"]
    for envc in ({}, {"mode": "lax"}, {"mode": "warn"}, {"extra": True}):
        for ri, r in enumerate(refused):
            for n in (1, 6, 40):
                for pi, pr in enumerate(probes):
                    if (ri + pi + n) % 3:
                        continue
                    hist = [spec(r, {"v": "h"}, envc, (k % 4) == 3) for k in range(n)]
                    yield {"kind": "history", "aim": "refused-templates-then-an-ordinary-one", "history": hist, "probe": spec(pr, {"v": "you"}, envc, pi % 2 == 1)}


def relative_date_cases():
    for text, tod in (("10:00", "10:00"), ("10:30 pm", "22:30"), ("7am", "07:00"), ("23:59:59", "23:59")):
        for shape in ("[{{ 'W' | date: '%Y-%m-%d|%H:%M' }}]", "{% assign t = 'W' | date: '%Y-%m-%d|%H:%M' %}[{{ t }}]", "[{{ w | date: '%Y-%m-%d|%H:%M' }}]"):
            for is_async in (False, True):
                steps = []
                for k in range(3):
                    sp = spec(shape.replace("W", text), {"w": text}, None, is_async)
                    sp.update(reads_clock=True, clock_fmt="%Y-%m-%d|%H:%M", time_of_day=tod)
                    steps.append(sp)
                    steps.append(spec("{{ 0 | date: '%Y' }}", {}, None, is_async))
                yield {"kind": "clock", "steps": steps, "step_hours": 25}


def clock_cases():
    yield from relative_date_cases()
    fmts = ["%H", "%Y-%m-%d %H:%M", "%H:%M:%S", "<%H>", "%j %H"]
    for word in ("now", "today"):
        for fmt in fmts:
            for shape in ("[{{ 'W' | date: 'F' }}]", "{% assign t = 'W' | date: 'F' %}[{{ t }}]", "{% capture f %}F{% endcapture %}[{{ 'W' | date: f }}]", "[{{ w | date: 'F' }}]"):
                src = shape.replace("W", word).replace("F", fmt)
                for between in ([], ["{{ 0 | date: '%Y' }}"], ["{{ '2020-01-02' | date: '%j' }}", "{{ 86400 | date: '%H' }}", "{{ 'x' | date: '%H' }}"]):
                    for is_async in (False, True):
                        steps = []
                        for k in range(3):
                            sp = spec(src, {"w": word}, None, is_async)
                            sp.update(reads_clock=True, clock_fmt=fmt)
                            steps.append(sp)
                            steps += [spec(b, {}, None, is_async) for b in between]
                        yield {"kind": "clock", "steps": steps}


def cases(ctx: core.Ctx):
    rng = ctx.rng("cases")
    for gi, c in enumerate(clock_cases()):
        if gi % ctx.nshards == ctx.shard and (ctx.tier != "quick" or gi % 3 == 0):
            yield c
    for gi, c in enumerate(refused_template_histories()):
        if gi % ctx.nshards == ctx.shard and (ctx.tier != "quick" or gi % 2 == 0):
            yield c
    for gi, c in enumerate(held_template_cases()):
        if gi % ctx.nshards == ctx.shard and (ctx.tier != "quick" or gi % 2 == 0):
            yield c
    for gi, c in enumerate(partial_purity_cases()):
        if gi % ctx.nshards == ctx.shard:
            yield c
    if ctx.shard == 0:
        yield from batch_cases()
        yield from poison_batch_cases()
    if ctx.tier == "quick":
        # the forked-twin histories first: they are the slow part, and the time cap must not starve them
        for _ in range(ctx.budget(220, 220)):
            yield gen_history_case(rng)
        for _ in range(ctx.budget(1800, 1800)):
            yield gen_purity_case(rng)
        return
    n = ctx.budget(4000, 500_000)
    for i in range(n):
        if i % 8 == 0:
            yield gen_history_case(rng)
        else:
            yield gen_purity_case(rng)
