"""C02 Only Liquid errors escape parsing and rendering.

Monitor: M1 boundary recorder on from_string / render / render_async.
Oracle : success or isinstance(exc, LiquidError) (and not a LiquidInterrupt/StopRender).
"""

from __future__ import annotations

import itertools
from typing import Any

from harness import core, drv
from harness.gen import malformed, tpl
from harness.gen import values as V

PROP = "C02"
RULE = (
    "cases: (a) token-mutated / soup sources parsed+rendered in strict, warn, lax; (b) filter sweep: every registered "
    "filter (default+extra) x left value x 0-3 arguments from a hostile value pool, values given as variables and as "
    "literals; (c) tag-argument sweep (limit/offset/cols, ranges, cycle, case/when, include/render, translate, increment) "
    "over the pool; (d) random well-formed templates with hostile data. Non-trivial = the source parsed and the "
    "render reached a filter/tag evaluation (outcome ok or LiquidError), distinct by (source, data) hash."
    " Rounds 5-6 added enumerated families: the engine's own drops (forloop, tablerowloop, block, args, kwargs) in 20 contexts and through every filter; hostile date strings; template names from data; render data under the names tags and filters look up themselves; a share of the workload under generous resource limits."
)
REQUIRED = [
    ("liquid/environment.py", "Environment.from_string"),
    ("liquid/template.py", "BoundTemplate.render"),
    ("liquid/builtin/expressions/filtered.py", "Filter.evaluate"),
    ("liquid/builtin/expressions/loop.py", "LoopExpression._slice"),
    ("liquid/builtin/expressions/primitive.py", "RangeLiteral._make_range"),
]
ASSUMPTIONS = [
    "render data is JSON-like (depth <= 4) plus range/Decimal/Markup values",
    "exceptions raised by the harness's own data objects are impossible (plain builtins only)",
]

MODES = ["strict", "warn", "lax"]
_envs: dict[tuple, Any] = {}


GENEROUS_LIMITS = {"output_stream_limit": 50_000_000, "loop_iteration_limit": 5_000_000, "local_namespace_limit": 500_000_000}


def env_for(mode: str, extra: bool, flags: bool, limited: bool = False):
    k = (mode, extra, flags, limited)
    e = _envs.get(k)
    if e is None:
        cfg: dict[str, Any] = {"mode": mode, "extra": extra}
        if limited:
            # resource limits that nothing here comes near: the accounting code runs, the limits never bite
            cfg["limits"] = dict(GENEROUS_LIMITS)
        if flags:
            cfg["flags"] = {"ternary_expressions": True, "logical_not_operator": True, "logical_parentheses": True}
        from liquid import DictLoader

        e = drv.make_env(cfg, loader=DictLoader(PARTIALS))
        _envs[k] = e
    return e


PARTIALS = {
    "p": "[{{ p }}|{{ v }}|{{ item }}]",
    "q": "{% assign z = v | plus: 1 %}{{ z }}",
    "dir/r.liquid": "{{ r }}{{ x }}",
    "loop": "{% for i in v %}{{ i }}{% endfor %}",
    # extra tags reaching each other across template boundaries
    "base": "BASE[{% block b %}base-b{{ v }}{% endblock %}|{% block c required %}{% endblock %}]",
    "child": "{% extends 'base' %}{% block b %}child-{{ block.super }}{{ v }}{% endblock %}{% block c %}c{% endblock %}",
    "mac": "{% macro mm x %}{% extends 'base' %}{% endmacro %}{% macro inc x %}{% include 'p' with x %}{% endmacro %}{% macro blk x %}{% block b %}{{ x }}{{ block.super }}{% endblock %}{% endmacro %}",
    "brk": "{% break %}x{% continue %}",
}


def sig_for(exc: BaseException, stage: str) -> str:
    if isinstance(exc, ValueError) and "integer string conversion" in str(exc):
        # one mechanism, reached from every place that stringifies a value
        return "escape:ValueError[int-max-str-digits]"
    if isinstance(exc, OverflowError) and "C ssize_t" in str(exc):
        # one mechanism: len() of a range object (render data) with more than sys.maxsize items
        return "escape:OverflowError[len-of-huge-range]"
    return f"escape:{type(exc).__name__}@{core.liquid_frame(exc)}"


def judge(ctx: core.Ctx, case: dict[str, Any]) -> None:
    mode = case.get("mode", "strict")
    env = env_for(mode, case.get("extra", True), case.get("flags", False), case.get("limited", False))
    data = V.dec(case.get("data", {"$": "dict", "v": {}}))
    src = case["source"]
    with drv.Warnings():
        o = drv.parse(env, src)
        stage = "parse"
        if o.ok:
            stage = "render"
            t = o.value
            o = drv.render_async(t, data) if case.get("async") else drv.render(t, data)
    ctx.count(f"stage:{stage}")
    if o.ok:
        ctx.observe("outcomes", "ok")
        ctx.ok((src, case.get("data"), mode), nontrivial=(stage == "render"))
        return
    ctx.observe("outcomes", o.err_class)
    if o.is_liquid_error:
        root = core.root_cause(o.exc)
        if root is not o.exc:
            ctx.observe("wrapped_causes", type(root).__name__)
        ctx.ok((src, case.get("data"), mode), nontrivial=(stage == "render"))
        return
    if isinstance(o.exc, MemoryError):
        # resource exhaustion of the host (e.g. json: indent of 2**63), not a type-containment question
        ctx.unspecified("MemoryError")
        return
    ctx.evaluations += 1
    exc = o.exc
    ctx.violation(
        sig_for(exc, stage),
        lambda: f"{type(exc).__name__} escaped {stage} ({core.liquid_frame(exc)}): {str(exc)[:120]}",
        lambda: {"stage": stage, "traceback": core.short_tb(exc)},
    )


# ------------------------------------------------------------------------ generators


def filter_names() -> tuple[list[str], list[str]]:
    e = env_for("strict", True, False)
    return sorted(e.filters), sorted(e.tags)


def _val_expr(v: Any, name: str, as_literal: bool) -> tuple[str, dict[str, Any]]:
    if as_literal:
        lit = V.literal_source(v)
        if lit is not None:
            return lit, {}
    return name, {name: v}


KW_NAMES = {
    "default": ["allow_false"], "t": ["plural", "count", "context", "you"], "ngettext": ["you"], "gettext": ["you"],
    "pgettext": ["you"], "npgettext": ["you"], "currency": ["group_separator"], "money": ["group_separator"],
    "decimal": ["group_separator"], "datetime": ["format"], "unit": ["denominator", "length", "format", "denominator_unit"],
    "json": ["indent"],
}


def resource_heavy(f: str, arg: Any) -> bool:
    """json's indent argument allocates indent x depth spaces: a host-resource question, not type containment."""
    if f != "json":
        return False
    try:
        return abs(float(arg)) > 64
    except (TypeError, ValueError, OverflowError):
        return False


def _as_int(v: Any):
    if isinstance(v, bool) or v is None:
        return 0
    try:
        return int(float(v)) if not isinstance(v, int) else v
    except (TypeError, ValueError, OverflowError):
        return None


def long_range(a: Any, b: Any) -> bool:
    ia, ib = _as_int(a), _as_int(b)
    if ia is None or ib is None:
        return False
    return 10_000 < ib - ia < 2**62


def position_core() -> list[Any]:
    # JSON-like values only (the property's quantifier): no Decimal, no custom objects
    return [
        None, True, 0, -1, 2**63 + 1, V.HUGE, 1.5, 1e308, float("inf"), float("-inf"), float("nan"),
        "", "abc", "9" * 400, "9" * 5000, "1e999", "-inf", "\u00b2", "\u2460\u2461", "20\u00b25", "\u0664\u0662", "\ud800", "\x00", "%(x)s %", "<![x]>", "253402300800",
        [], [None, 1, "a"], {}, {"a": 1}, range(1, 4), [float("inf"), float("-inf")], [[1, 2], [3, [4, 5]]],
    ]


def gen_filter_case(rng, fnames: list[str], pool: list[Any]) -> dict[str, Any]:
    f = rng.choice(fnames)
    if f == "json":
        pool = [v for v in pool if not resource_heavy(f, v)]
    left = rng.choice(pool)
    nargs = rng.choice([0, 1, 1, 1, 2, 2, 3])
    data: dict[str, Any] = {}
    lit = rng.random() < 0.35
    lexpr, d = _val_expr(left, "l", lit)
    data.update(d)
    args = []
    for i in range(nargs):
        a, d = _val_expr(rng.choice(pool), f"a{i}", rng.random() < 0.35)
        data.update(d)
        if f in KW_NAMES and rng.random() < 0.3:
            a = f"{rng.choice(KW_NAMES[f])}: {a}"
        args.append(a)
    expr = f"{lexpr} | {f}" + (": " + ", ".join(args) if args else "")
    if rng.random() < 0.15:
        f2 = rng.choice(fnames)
        expr += f" | {f2}"
    src = "{{ " + expr + " }}" if rng.random() < 0.8 else "{% assign r = " + expr + " %}{{ r }}{% for q in r %}{{ q }}{% endfor %}"
    return {"kind": "filter", "source": src, "data": V.enc(data), "mode": rng.choice(MODES), "extra": True, "async": rng.random() < 0.2}


TAG_ARG_TEMPLATES = [
    "{% for i in xs limit: A %}{{ i }}{% endfor %}",
    "{% for i in xs offset: A %}{{ i }}{% endfor %}",
    "{% for i in xs limit: A offset: B %}{{ i }}{% endfor %}",
    "{% for i in xs limit: A reversed %}{{ i }}{% endfor %}{% for i in xs offset: continue %}{{ i }}{% endfor %}",
    "{% for i in A %}{{ i }}{{ forloop.index }}{% endfor %}",
    "{% for i in A limit: B %}{{ i }}{% else %}e{% endfor %}",
    "{% for i in (A..B) %}{{ i }}{% endfor %}",
    "{{ (A..B) | join: ',' }}",
    "{% assign r = (A..B) %}{{ r | size }}",
    "{% if (A..B) contains 2 %}y{% endif %}",
    "{% tablerow i in xs cols: A %}{{ i }}{% endtablerow %}",
    "{% tablerow i in xs cols: A limit: B %}{{ i }}{% endtablerow %}",
    "{% tablerow i in A cols: 2 %}{{ i }}{{ tablerowloop.col }}{% endtablerow %}",
    "{% tablerow i in xs limit: A offset: B %}{{ i }}{% endtablerow %}",
    "{% cycle A, B %}{% cycle A, B %}",
    "{% cycle A: 1, 2 %}{% cycle A: 1, 2 %}",
    "{% cycle 'g': 1, 2 %}{% cycle 'g': A %}{% cycle 'g': A %}{% cycle 'g': 1, 2, 3 %}{% cycle 'g': B %}",
    "{% for i in (1..4) %}{% cycle A: 1, 2, 3 %}{% cycle A: B %}{% endfor %}",
    "{% case A %}{% when B %}b{% when 1, 'a' %}c{% else %}d{% endcase %}",
    "{% case A %}{% when B or A %}b{% endcase %}",
    "{% if A == B %}eq{% elsif A < B %}lt{% else %}x{% endif %}",
    "{% if A contains B %}y{% else %}n{% endif %}",
    "{% if A >= B or A <= B %}y{% endif %}",
    "{% unless A > B %}y{% endunless %}",
    "{% if A == empty or B == blank %}y{% endif %}",
    "{% include 'p' with A %}",
    "{% include 'p' for A %}",
    "{% include 'p', v: A, item: B %}",
    "{% include A %}",
    "{% render 'p' with A %}",
    "{% render 'p' for A %}",
    "{% render 'p' for A as v %}",
    "{% render 'q', v: A %}",
    "{% render 'loop', v: A %}",
    "{% include 'loop' with A as v %}",
    "{% capture c %}{{ A }}{% endcapture %}{{ c | size }}",
    "{% assign v = A %}{{ v[B] }}{{ v.size }}{{ v.first }}{{ v.last }}",
    "{{ A[B] }}",
    "{{ xs[A] }}{{ h[A] }}{{ s[A] }}",
    "{% ifchanged %}{{ A }}{% endifchanged %}{% ifchanged %}{{ B }}{% endifchanged %}",
    "{% increment A %}{% decrement A %}",
    "{% echo A | default: B %}",
    "{% liquid\n assign v = A | plus: B\n echo v\n%}",
    "{% translate count: A %}one{% plural %}many {{ count }}{% endtranslate %}",
    "{% translate context: A, you: B %}Hi {{ you }}{% endtranslate %}",
    "{% translate you: A %}Hi %s {{ you }} 100%{% endtranslate %}",
    "{% with v: A, w: B %}{{ v }}{{ w }}{% endwith %}",
    "{% include 'mac' %}{% call mm A %}|{% call inc B %}|{% call blk A %}",
    "{% include 'child' with A as v %}|{% render 'child', v: B %}|{% include 'base' %}",
    "{% for i in (1..2) %}{% include 'brk' %}{% render 'brk' %}{% endfor %}{% include 'brk' %}",
    "{% include 'mac' %}{% for i in A %}{% call mm i %}{% endfor %}{% render 'mac' %}{% call blk B %}",
    "{% block b %}{{ block.super }}{{ A }}{% endblock %}{% block b %}{% endblock %}{% extends A %}",
    "{% macro 'm' x, y: A %}{{ x }}{{ y }}{{ args }}{{ kwargs }}{% endmacro %}{% call 'm' B, A, z: A %}",
    "{{ A if B else A }}",
    "{{ A | default: B, allow_false: A }}",
    "{{ 'x' | t: you: A, count: B, plural: 'xs' }}",
    "{{ A | t: B }}",
    "{{ 'a %(you)s' | gettext: you: A }}",
    "{{ A | ngettext: B, A }}",
    "{{ 'm' | npgettext: A, B, A }}",
    "{{ A | date: B }}",
    "{{ A | json: B }}",
    "{{ A | where: B }}{{ A | where: B, A }}",
    "{{ A | map: B | join: ',' }}",
    "{{ A | sort: B | first }}",
    "{{ A | sum: B }}",
    "{{ A | compact: B | size }}",
    "{{ A | uniq: B | size }}",
    "{{ A | find: B, A }}{{ A | find_index: B }}{{ A | has: B }}",
    "{{ A | slice: B, A }}",
    "{{ A | truncate: B, A }}{{ A | truncatewords: B, A }}",
    "{{ A | round: B }}{{ A | divided_by: B }}{{ A | modulo: B }}",
    "{{ A | concat: B | join: '-' }}",
    "{{ A | split: B | join: A }}",
]


def gen_tagarg_case(rng, pool: list[Any]) -> dict[str, Any]:
    tplt = rng.choice(TAG_ARG_TEMPLATES)
    a, b = rng.choice(pool), rng.choice(pool)
    for _ in range(20):
        # workload hazards (host resources, not type containment): a range of 10^4 .. 2^62 items is iterated for hours, json's indent
        # argument allocates indent x depth spaces; such argument pairs are drawn again
        if ("(A..B)" in tplt and long_range(a, b)) or ("json: B" in tplt and resource_heavy("json", b)):
            a, b = rng.choice(pool), rng.choice(pool)
        else:
            break
    data: dict[str, Any] = {"xs": [1, 2, 3, 4, 5], "h": {"a": 1}, "s": "str"}
    ea, d = _val_expr(a, "va", rng.random() < 0.5)
    data.update(d)
    eb, d = _val_expr(b, "vb", rng.random() < 0.5)
    data.update(d)
    # identifiers cannot be literals in a few positions; the parser then raises a Liquid syntax error, which is fine
    src = tplt.replace("A", ea).replace("B", eb)
    return {"kind": "tagarg", "source": src, "data": V.enc(data), "mode": rng.choice(MODES), "extra": True, "flags": True, "async": rng.random() < 0.2}


def gen_random_case(rng) -> dict[str, Any]:
    cfg = tpl.GenCfg(extra=rng.random() < 0.5, ternary=True, logical_not=True, parens=True, partial_names=["p", "q", "loop", "dir/r.liquid"], wild=0.25)
    g = tpl.Gen(rng, cfg)
    nodes = g.template()
    src = tpl.print_nodes(nodes, tpl.Style(wc=0.1), rng)
    data = tpl.make_data(rng, hostile=0.5, drop=0.1)
    data["pname"] = rng.choice(["p", "q", 1, None, "nope"])
    return {"kind": "random", "source": src, "data": V.enc(data), "mode": rng.choice(MODES), "extra": True, "flags": True, "async": rng.random() < 0.3}


def gen_malformed_case(rng) -> dict[str, Any]:
    r = rng.random()
    if r < 0.5:
        cfg = tpl.GenCfg(extra=True, ternary=True, logical_not=True, parens=True, partial_names=["p", "q"], max_nodes=8)
        g = tpl.Gen(rng, cfg)
        src = malformed.mutate(rng, tpl.print_nodes(g.template(1, 4), tpl.Style(wc=0.1), rng), 3)
    elif r < 0.8:
        src = malformed.random_tag_source(rng)
    else:
        src = malformed.soup(rng, 16)
    data = tpl.make_data(rng, hostile=0.2) if rng.random() < 0.5 else {}
    return {"kind": "malformed", "source": src, "data": V.enc(data), "mode": rng.choice(MODES), "extra": True, "flags": rng.random() < 0.5}


# render data under the names that tags and filters themselves look up in the render context (their documented "context variables"), and
# names the engine binds on its own: data is data, whatever it is called
RESERVED_NAMES = ["translations", "locale", "input_locale", "timezone", "input_timezone", "currency_code", "currency_format", "datetime_format", "decimal_quantization",
                  "decimal_format", "unit_length", "unit_format", "group_separator", "count", "context", "forloop", "tablerowloop", "block", "partial", "template", "now", "today", "args", "kwargs"]
RESERVED_VALUES: list[Any] = [None, True, False, 0, -1, 2**63, 1.5, float("inf"), float("nan"), "", "x", "en_US", "de", "%", "\u00a4#,##0.00", "short", "UTC", "Europe/Paris", "nope/zone", [], [1],
                              ["en"], {}, {"a": 1}, range(3), "\x00", "\u00e9" * 50, "en-US", "1", " ", "EUR", "xx_YY", "en_", "_US", "en_US_POSIX_x", "e" * 300]
RESERVED_SOURCES = [
    "{{ 'x' | t }}", "{{ 'x' | gettext }}", "{{ 'x' | ngettext: 'y', 2 }}", "{{ 'x' | pgettext: 'c' }}", "{% translate %}x{% endtranslate %}", "{% translate count: 2 %}x{% plural %}y {{ count }}{% endtranslate %}",
    "{{ 10 | currency }}", "{{ 10 | money }}", "{{ '10' | money_with_currency }}", "{{ 1.5 | decimal }}", "{{ '1,5' | decimal }}", "{{ 'now' | datetime }}", "{{ 0 | datetime }}",
    "{{ '2020-01-01' | datetime: format: 'short' }}", "{{ 5 | unit: 'length-meter' }}", "{{ 5 | unit: 'mass-gram', length: 'long' }}", "{{ 1000 | decimal: group_separator: false }}", "{{ '1 000' | currency }}",
    "{% for i in (1..2) %}{{ forloop.index }}{{ forloop.parentloop.index }}{% endfor %}{{ forloop.index }}", "{% tablerow i in (1..2) %}{{ tablerowloop.col }}{% endtablerow %}{{ tablerowloop.col }}",
    "{% include 'p' %}{{ partial }}{{ template.name }}", "{% render 'p' %}{{ partial }}", "{{ now | date: '%Y' }}{{ today | date: '%Y' }}", "{% macro m a %}{{ args | join: ',' }}{{ kwargs | size }}{% endmacro %}{% call m 1, 2, k: 3 %}{{ args }}",
    "{% extends 'base' %}{% block c %}{{ block.super }}{{ block }}{% endblock %}", "{{ count | plus: 1 }}{{ context }}",
]


# the objects the engine itself puts into scope (loop helpers, the block drop, a macro's args / kwargs): templates can hand them to every
# tag and filter like any other value
DROPS = {
    "forloop": "{% for i in (1..2) %}@{% endfor %}", "forloop.parentloop": "{% for o in (1..2) %}{% for i in (1..2) %}@{% endfor %}{% endfor %}", "tablerowloop": "{% tablerow i in (1..2) %}@{% endtablerow %}",
    "block": "{% block b %}@{% endblock %}", "block.super": "{% extends 'base' %}{% block b %}@{% endblock %}", "kwargs": "{% macro m %}@{% endmacro %}{% call m a: 1, b: nosuch %}",
    "args": "{% macro m %}@{% endmacro %}{% call m 1, nosuch, 'x' %}", "forloop.length": "{% for i in (1..2) %}@{% endfor %}",
}
DROP_USES = ["{% for b in D %}{{ b }}{% endfor %}", "{% tablerow b in D %}{{ b }}{% endtablerow %}", "{% if D == h %}y{% endif %}", "{% if h == D %}y{% endif %}", "{% if D contains 'a' %}y{% endif %}", "{% if h contains D %}y{% endif %}",
             "{% if D < 1 %}y{% endif %}", "{% case D %}{% when h %}y{% when 1 %}z{% endcase %}", "{% case h %}{% when D %}y{% endcase %}", "{{ D }}", "{{ D.size }}{{ D.first }}{{ D.last }}{{ D[0] }}{{ D['a'] }}", "{% assign v = D %}{{ v | json }}",
             "{% cycle D, 1 %}", "{% include 'p' with D %}", "{% render 'p', v: D %}", "{% for b in (1..D) %}x{% endfor %}", "{{ h[D] }}{{ xs[D] }}", "{% with v: D %}{{ v }}{% endwith %}", "{{ 'x' if D else 'y' }}", "{% echo D | default: 'd' %}"]
DATE_STRINGS = ["111111111111111111111111111111hours", "99999999999999999999999999999m", "1" * 40 + "h", "12:00:00:00", "2020-01-01T99", "0000-00-00", "1e400", "31st February", "-1", "+1 day", "10:00 pm pm",
                "2020-13-45", "99999999999", "1" * 400, "Jan " + "1" * 30, "12h30m" + "9" * 30 + "s", "\u0661\u0662", "now ", " today", "NOW", "2020-01-01 25:61:61", "1.5", "١٢٣", "２０２０"]


def cases(ctx: core.Ctx):
    k = 0
    fnames0, _ = filter_names()
    drop_data = {"h": {"a": 1}, "xs": [1, 2, 3]}
    for dname, wrapper in DROPS.items():
        uses = list(DROP_USES) + ["{{ D | " + f + " }}" for f in fnames0] + ["{{ h | " + f + ": D }}" for f in fnames0] + ["{{ 'a b' | " + f + ": 1, D }}" for f in fnames0[::3]]
        for u in uses:
            k += 1
            if k % ctx.nshards != ctx.shard:
                continue
            yield {"kind": "engine-drop", "source": wrapper.replace("@", u.replace("D", dname)), "data": V.enc(drop_data), "mode": MODES[k % 3], "extra": True, "flags": True, "async": k % 5 == 0}
    hostile_strings = [v for v in V.hostile_pool() if isinstance(v, str)] + [[v] for v in V.hostile_pool() if isinstance(v, str)][:12]
    for hv in hostile_strings:
        for src in ("{{ l }}", "{% capture c %}{{ l }}{% endcapture %}{{ c | size }}", "{% assign a = l | append: l %}{{ a }}", "{% for ch in l %}{{ ch }}{% endfor %}", "{% ifchanged %}{{ l }}{% endifchanged %}",
                    "{% cycle l, l %}", "{% echo l | upcase %}", "{% render 'p', v: l %}", "{% tablerow x in l %}{{ x }}{% endtablerow %}", "{{ l | join: l }}"):
            k += 1
            if k % ctx.nshards == ctx.shard:
                yield {"kind": "limited-env", "source": src, "data": V.enc({"l": hv}), "mode": MODES[k % 3], "extra": True, "limited": True, "async": k % 4 == 0}
    for ds in DATE_STRINGS:
        for fmt in ("'%Y'", "'%s'", "f", "'%'"):
            k += 1
            if k % ctx.nshards == ctx.shard:
                yield {"kind": "date-string", "source": "{{ d | date: " + fmt + " }}{{ '" + ds.replace("'", "") + "' | date: '%H' }}", "data": V.enc({"d": ds, "f": "%Y-%m-%d"}), "mode": "strict", "extra": True}
    for v in RESERVED_VALUES[:24]:
        for src in ("{% extends 'base' %}{% block b %}{% render x %}{% endblock %}", "{% render x %}", "{% extends 'base' %}{% block b %}{% include x %}{% endblock %}", "{% extends x %}", "{% block b %}{% render x for xs %}{% endblock %}"):
            k += 1
            if k % ctx.nshards == ctx.shard:
                yield {"kind": "template-name-from-data", "source": src, "data": V.enc({"x": v, "xs": [1]}), "mode": MODES[k % 3], "extra": True, "async": k % 4 == 0}
    for name in RESERVED_NAMES:
        for v in RESERVED_VALUES:
            for src in RESERVED_SOURCES:
                k += 1
                if k % ctx.nshards != ctx.shard or (ctx.tier == "quick" and k % 2):
                    continue
                yield {"kind": "reserved-name", "source": src, "data": V.enc({name: v}), "mode": MODES[k % 3], "extra": True, "async": k % 7 == 0}
    rng = ctx.rng("cases")
    fnames, _ = filter_names()
    pool = V.hostile_pool()
    if ctx.tier == "thorough":
        # exhaustive unary + single-argument sweep, split across shards
        combos = itertools.product(fnames, range(len(pool)), [None] + list(range(len(pool))))
        for idx, (f, li, ai) in enumerate(combos):
            if idx % ctx.nshards != ctx.shard:
                continue
            data = {"l": pool[li]}
            expr = f"l | {f}"
            if ai is not None:
                if resource_heavy(f, pool[ai]):
                    continue
                data["a0"] = pool[ai]
                expr += ": a0"
            yield {"kind": "sweep1", "source": "{{ " + expr + " }}", "data": V.enc(data), "mode": "strict", "extra": True}
        ctx.extra["exhaustive_single_argument_sweep"] = f"{len(fnames)} filters x {len(pool)} left x {len(pool) + 1} arg"
    # every filter x every argument position (left value, 1st..3rd argument of 1..3) x a core of hostile values, the other
    # positions filled with harmless values: a conversion that only one parameter of one filter performs is reached by construction
    core_vals = position_core()
    fillers = [1, "a", 2]
    idx = 0
    for f in fnames:
        for nargs in range(0, 4):
            for pos in range(0, nargs + 1):
                for v in core_vals:
                    idx += 1
                    if idx % ctx.nshards != ctx.shard:
                        continue
                    if pos and resource_heavy(f, v):
                        continue
                    data = {"l": v if pos == 0 else "a b"}
                    args = []
                    for i in range(nargs):
                        data[f"a{i}"] = v if pos == i + 1 else fillers[i]
                        args.append(f"a{i}")
                    yield {"kind": "position", "source": "{{ l | " + f + (": " + ", ".join(args) if args else "") + " }}", "data": V.enc(data), "mode": "strict", "extra": True, "async": idx % 11 == 0}
    ctx.extra["position_sweep"] = f"{len(fnames)} filters x positions 0..3 of 0..3 arguments x {len(core_vals)} hostile values"
    # tags whose render state accumulates across tags: cycle tags sharing a named group with different numbers of items
    idx = 0
    for lens in itertools.product((1, 2, 3), repeat=3):
        for reps, use_async, mode in itertools.product((1, 2, 3), (False, True), MODES):
            idx += 1
            if idx % ctx.nshards != ctx.shard:
                continue
            body = "".join("{% cycle 'g': " + ", ".join(str(k) for k in range(1, n + 1)) + " %}" for n in lens)
            src = body * reps if reps < 3 else "{% for i in (1..3) %}" + body + "{% endfor %}"
            yield {"kind": "stateful", "source": src, "data": V.enc({}), "mode": mode, "extra": False, "async": use_async}
    n = ctx.budget(50000, 3_000_000)
    for i in range(n):
        r = rng.random()
        if i % 10 == 9:
            yield dict(gen_filter_case(rng, fnames, pool) if i % 20 == 9 else gen_random_case(rng), limited=True)
        elif r < 0.45:
            yield gen_filter_case(rng, fnames, pool)
        elif r < 0.65:
            yield gen_tagarg_case(rng, pool)
        elif r < 0.8:
            yield gen_random_case(rng)
        else:
            yield gen_malformed_case(rng)
