"""C23 Caching loaders are transparent.

Monitor: M1 boundary recorder on Environment.get_template / get_template_async of a caching loader and of a twin
non-caching loader of the same kind over the same store at the same logical time; cache-hit/miss events are read
from the cache object after every request.  Oracle: history checker (twin equality; stale versions of the same key
are accepted when auto_reload is off).
"""

from __future__ import annotations

import asyncio
import os
import shutil
import tempfile
from typing import Any

from liquid import CachingChoiceLoader, CachingDictLoader, CachingFileSystemLoader, ChoiceLoader, DictLoader, Environment, FileSystemLoader, RenderContext
from liquid.builtin.loaders.mixins import CachingLoaderMixin

from harness import core, drv

PROP = "C23"
TECHNIQUE = "history checker: every request is also served by a twin non-caching loader over the same store at the same logical time"
RULE = (
    "case = history of <= 12 steps over 3 names x namespaces {none, A, B}: requests (sync or async; environment with or without globals of its own; namespace by keyword argument, by render "
    "context, by the render context of a host template whose include / render tag makes the request, or absent; with unique globals or without), deletions and content edits of a stored source (dict mutation or file rewrite with an explicitly "
    "bumped mtime) and gathered batches of concurrent async requests; loader kinds: caching dict, namespaced caching dict, caching choice "
    "(namespaced dict + dict), caching file system and namespaced caching file system; capacity 1..4; auto_reload on/off. Judged per "
    "request: exception class, template name, path, str(template), probe-render output and effective globals equal the twin's; with "
    "auto_reload off an earlier version of the same (namespace, name) is accepted for the source-dependent fields. Non-trivial = history "
    "with at least one cache hit; distinct by the whole history."
    " Rounds 5-6 added enumerated families: names with a directory part spelled like a namespace, before and after the namespaced request."
)
REQUIRED = [
    ("liquid/builtin/loaders/mixins.py", "CachingLoaderMixin.cache_key"),
    ("liquid/builtin/loaders/mixins.py", "CachingLoaderMixin._check_cache"),
    ("liquid/builtin/loaders/mixins.py", "CachingLoaderMixin._check_cache_async"),
    ("liquid/builtin/loaders/mixins.py", "CachingLoaderMixin.load"),
    ("liquid/builtin/loaders/mixins.py", "CachingLoaderMixin.load_async"),
    ("liquid/builtin/loaders/choice_loader.py", "ChoiceLoader.get_source"),
    ("liquid/builtin/loaders/file_system_loader.py", "FileSystemLoader.get_source_async"),
]
MIN_COUNTERS = {"requests": 3000, "cache_hits": 500, "cache_misses": 500, "reloads_after_edit": 50, "evictions": 50, "namespaced_requests": 300, "gathered_requests": 50, "requests_via_tag": 300, "namespace_via_tag_context": 100, "deletions": 50}
ASSUMPTIONS = [
    "edits change the content of an existing source or delete it; no new shadowing entries are added (in particular a deleted source is not re-created: no caching loader can notice a new file that shadows the one it cached)",
    "file edits set the mtime explicitly (forwards by a second or a day, or backwards by a second or an hour: a changed file need not be newer), so no wall-clock sleeping is needed",
]

NAMES = ["t1", "t2", "t3"]
NSS = [None, "A", "B"]

# ------------------------------------------------------------------ namespace-aware loaders (documented use of namespace_key)


def _ns_of(context, kwargs):
    if "ns" in kwargs:
        return str(kwargs["ns"])
    if context is not None:
        try:
            return str(context.globals["ns"])
        except KeyError:
            return None
    return None


class NsDictLoader(DictLoader):
    def get_source(self, env, template_name, *, context=None, **kwargs):
        ns = _ns_of(context, kwargs)
        if ns is not None and f"{ns}/{template_name}" in self.templates:
            return DictLoader.get_source(self, env, f"{ns}/{template_name}")
        return DictLoader.get_source(self, env, template_name)


class CachingNsDictLoader(CachingLoaderMixin, NsDictLoader):
    def __init__(self, templates, **kw):
        super().__init__(**kw)
        NsDictLoader.__init__(self, templates)


class NsFileSystemLoader(FileSystemLoader):
    def _pick(self, template_name, context, kwargs):
        ns = _ns_of(context, kwargs)
        if ns is not None and os.path.isfile(os.path.join(str(self.search_path[0]), ns, template_name)):
            return f"{ns}/{template_name}"
        return template_name

    def get_source(self, env, template_name, *, context=None, **kwargs):
        return FileSystemLoader.get_source(self, env, self._pick(template_name, context, kwargs))

    async def get_source_async(self, env, template_name, *, context=None, **kwargs):
        return await FileSystemLoader.get_source_async(self, env, self._pick(template_name, context, kwargs))


class CachingNsFileSystemLoader(CachingLoaderMixin, NsFileSystemLoader):
    def __init__(self, search_path, **kw):
        super().__init__(**kw)
        NsFileSystemLoader.__init__(self, search_path)


KINDS = ["dict", "nsdict", "choice", "fs", "nsfs"]


class Store:
    """The single store both loaders read: a dict (or two dicts for choice) or a directory."""

    def __init__(self, kind: str, initial: dict[str, str], mtime_step: int = 1):
        self.kind = kind
        self.mtime_step = mtime_step  # an edited file may carry an *older* modification time (a restored backup, cp -p, rsync -t)
        self.version: dict[str, int] = {k: 0 for k in initial}
        self.tmpdir = None
        self.mtime = 1_600_000_000
        if kind in ("fs", "nsfs"):
            self.tmpdir = tempfile.mkdtemp(prefix="verif-c23-", dir=core.scratch_base())
            for k, v in initial.items():
                self._write(k, v)
        elif kind == "choice":
            self.a = {k: v for k, v in initial.items() if "/" in k}
            self.b = {k: v for k, v in initial.items() if "/" not in k}
        else:
            self.d = dict(initial)

    def _write(self, key: str, text: str) -> None:
        p = os.path.join(self.tmpdir, key)
        os.makedirs(os.path.dirname(p), exist_ok=True)
        with open(p, "w", encoding="utf-8") as fd:
            fd.write(text)
        self.mtime += self.mtime_step
        os.utime(p, (self.mtime, self.mtime))

    def edit(self, key: str, text: str) -> None:
        self.version[key] += 1
        if self.kind in ("fs", "nsfs"):
            self._write(key, text)
        elif self.kind == "choice":
            (self.a if "/" in key else self.b)[key] = text
        else:
            self.d[key] = text

    def delete(self, key: str) -> bool:
        if self.kind in ("fs", "nsfs"):
            p = os.path.join(self.tmpdir, key)
            if not os.path.exists(p):
                return False
            os.remove(p)
            return True
        d = (self.a if "/" in key else self.b) if self.kind == "choice" else self.d
        return d.pop(key, None) is not None

    def loaders(self, auto_reload: bool, capacity: int):
        kw = {"auto_reload": auto_reload, "capacity": capacity}
        if self.kind == "dict":
            return CachingDictLoader(self.d, **kw), DictLoader(self.d)
        if self.kind == "nsdict":
            return CachingNsDictLoader(self.d, namespace_key="ns", **kw), NsDictLoader(self.d)
        if self.kind == "choice":
            return (
                CachingChoiceLoader([NsDictLoader(self.a), DictLoader(self.b)], namespace_key="ns", **kw),
                ChoiceLoader([NsDictLoader(self.a), DictLoader(self.b)]),
            )
        if self.kind == "fs":
            return CachingFileSystemLoader(self.tmpdir, **kw), FileSystemLoader(self.tmpdir)
        return CachingNsFileSystemLoader(self.tmpdir, namespace_key="ns", **kw), NsFileSystemLoader(self.tmpdir)

    def close(self) -> None:
        if self.tmpdir:
            shutil.rmtree(self.tmpdir, ignore_errors=True)


def text_of(key: str, version: int) -> str:
    return f"<{key}@v{version}>[g={{{{ g }}}}][e={{{{ eg }}}}]"


def observe(o: drv.Outcome) -> dict[str, Any]:
    if not o.ok:
        return {"err": o.err_class, "msg": drv.safe_str(o.exc).split("\n")[0][:80]}
    t = o.value
    r = drv.call(t.render)
    return {"err": None, "name": t.name, "path": str(t.path), "str": str(t), "render": r.value if r.ok else f"!{r.err_class}", "globals": dict(t.globals)}


def request(env: Environment, req: dict[str, Any], use_async: bool) -> drv.Outcome:
    kw: dict[str, Any] = {}
    if req.get("globals") is not None:
        kw["globals"] = dict(req["globals"])
    if req["ns_via"] == "kwarg" and req["ns"] is not None:
        kw["ns"] = req["ns"]
    elif req["ns_via"] == "context" and req["ns"] is not None:
        kw["context"] = RenderContext(env.from_string(""), globals={"ns": req["ns"]})
    if use_async:
        return drv.call_async(env.get_template_async, req["name"], **kw)
    return drv.call(env.get_template, req["name"], **kw)


def tag_request(env: Environment, step: dict[str, Any]) -> dict[str, Any]:
    g = dict(step.get("globals") or {})
    if step["ns"] is not None:
        g["ns"] = step["ns"]
    host = env.from_string("{% " + step["tag"] + " '" + step["name"] + "' %}", globals=g)
    o = drv.call_async(host.render_async) if step["async"] else drv.call(host.render)
    if not o.ok:
        return {"err": o.err_class, "msg": drv.safe_str(o.exc).split("\n")[0][:80]}
    return {"err": None, "render": o.value}


_KV = __import__("re").compile(r"<(.*?)@v(\d+)>")


def key_version(text: str):
    m = _KV.search(text or "")
    return (m.group(1), int(m.group(2))) if m else None


def compare_tag(got: dict[str, Any], exp: dict[str, Any], auto_reload: bool, deleted: set[str], seen: dict[str, set[int]]) -> str | None:
    kg = key_version(got.get("render", "")) if got["err"] is None else None
    ke = key_version(exp.get("render", "")) if exp["err"] is None else None
    if not auto_reload and kg is not None and kg[0] in deleted and kg[1] in seen.get(kg[0], ()):
        # without auto reload a cached template outlives its deleted source, whatever the twin now resolves the name to
        if ke is None or _KV.sub("", got["render"]) == _KV.sub("", exp["render"]):
            return None
    if got["err"] != exp["err"]:
        return f"outcome-differs:{got['err'] or 'ok'}-vs-twin-{exp['err'] or 'ok'}"
    if got["err"] is not None or got["render"] == exp["render"]:
        return None
    if kg is None or ke is None:
        return "output-differs"
    if kg[0] != ke[0]:
        return "other-key-substituted"
    if auto_reload:
        return "stale-source-after-edit"
    if kg[1] in seen.get(kg[0], ()) and _KV.sub("", got["render"]) == _KV.sub("", exp["render"]):
        return None  # an earlier version of the same key: permitted without auto reload
    return "output-differs"


async def _one(env: Environment, req: dict[str, Any]) -> dict[str, Any]:
    kw: dict[str, Any] = {}
    if req.get("globals") is not None:
        kw["globals"] = dict(req["globals"])
    if req["ns_via"] == "kwarg" and req["ns"] is not None:
        kw["ns"] = req["ns"]
    elif req["ns_via"] == "context" and req["ns"] is not None:
        kw["context"] = RenderContext(env.from_string(""), globals={"ns": req["ns"]})
    try:
        t = await env.get_template_async(req["name"], **kw)
    except Exception as e:  # noqa: BLE001
        return observe(drv.Outcome(False, exc=e))
    return observe(drv.Outcome(True, t))  # observed before the coroutine yields again


async def _gather(env: Environment, reqs: list[dict[str, Any]]):
    return await asyncio.gather(*[_one(env, r) for r in reqs])


def judge(ctx: core.Ctx, case: dict[str, Any]) -> None:
    kind = case["kind"]
    store = Store(kind, {k: text_of(k, 0) for k in case["keys"]}, case.get("mtime_step", 1))
    try:
        caching, plain = store.loaders(case["auto_reload"], case["capacity"])
        eg = {"eg": "EG"} if case.get("env_globals", True) else None
        env_c = Environment(loader=caching, globals=eg)
        env_p = Environment(loader=plain, globals=eg)
        seen_versions: dict[str, set[str]] = {}  # resolved key -> str() of every version the twin has served
        had_hit = False
        edited_since: set[str] = set()
        deleted: set[str] = set()
        seen_kv: dict[str, set[int]] = {}  # resolved key -> versions the twin has served (by any kind of request)
        for step_no, step in enumerate(case["steps"]):
            if step["op"] == "edit":
                if step["key"] in store.version and step["key"] not in deleted:  # (a deleted source is not re-created: that would be a new shadowing entry)
                    store.edit(step["key"], text_of(step["key"], store.version[step["key"]] + 1))
                    edited_since.add(step["key"])
                    ctx.count("edits")
                continue
            if step["op"] == "delete":
                if store.delete(step["key"]):
                    deleted.add(step["key"])
                    ctx.count("deletions")
                continue
            if step["op"] == "tagget":
                # the request is made by an include / render tag of a host template whose render context carries the namespace
                got_t = tag_request(env_c, step)
                exp_t = tag_request(env_p, step)
                kv = key_version(exp_t.get("render", "")) if exp_t["err"] is None else None
                if kv:
                    seen_kv.setdefault(kv[0], set()).add(kv[1])
                ctx.count("requests")
                ctx.count("requests_via_tag")
                if step["ns"] is not None:
                    ctx.count("namespaced_requests")
                    ctx.count("namespace_via_tag_context")
                ctx.evaluations += 1
                bad = compare_tag(got_t, exp_t, case["auto_reload"], deleted, seen_kv)
                if bad:
                    ctx.violation(
                        f"{kind}:via-{step['tag']}:{bad}",
                        lambda: f"{kind} auto_reload={case['auto_reload']} capacity={case['capacity']} step {step_no} {step}: through the caching loader the host renders {got_t}, "
                        f"through the twin {exp_t}; history {case['steps'][: step_no + 1]}",
                    )
                    return
                continue
            if step["op"] == "gather":
                reqs = step["reqs"]
                before = len(caching.cache)
                got_all = drv.call_async(_gather, env_c, reqs)
                if not got_all.ok:
                    ctx.evaluations += 1
                    ctx.violation(f"{kind}:gather-raises-{got_all.err_class}", f"{kind} gathered requests raised {got_all.err_class}: {drv.safe_str(got_all.exc)[:100]}")
                    return
                pairs = [(r, g, observe(request(env_p, r, True))) for r, g in zip(reqs, got_all.value)]
                ctx.count("gathered_requests", len(reqs))
            else:
                keys_before = list(caching.cache.keys())
                got = observe(request(env_c, step, step["async"]))
                exp = observe(request(env_p, step, step["async"]))
                pairs = [(step, got, exp)]
                ck = caching.cache_key(step["name"], None, {"ns": step["ns"]} if step["ns"] is not None and step["ns_via"] != "none" else {})
                if got["err"] is None:
                    if ck in keys_before:
                        ctx.count("cache_hits")
                        had_hit = True
                    else:
                        ctx.count("cache_misses")
                        if len(keys_before) >= case["capacity"]:
                            ctx.count("evictions")
                    if step["ns"] is not None and step["ns_via"] != "none":
                        ctx.count("namespaced_requests")
                        ctx.count("namespace_via_" + step["ns_via"])
            for req, got, exp in pairs:
                ctx.count("requests")
                ctx.evaluations += 1
                api = "gather" if step["op"] == "gather" else ("async" if req.get("async") else "sync")
                if exp["err"] is None:
                    seen_versions.setdefault(exp["path"], set()).add(exp["str"])
                    kv = key_version(exp["str"])
                    if kv:
                        seen_kv.setdefault(kv[0], set()).add(kv[1])
                kg = key_version(got["str"]) if got["err"] is None else None
                if kg is not None and not case["auto_reload"] and kg[0] in deleted and kg[1] in seen_kv.get(kg[0], ()):
                    # without auto reload a cached template outlives its deleted source, whatever the twin now resolves the name to;
                    # the request's globals must still apply
                    if exp["err"] is not None or got["globals"] == exp["globals"]:
                        ctx.count("stale_template_of_deleted_source_accepted_without_auto_reload")
                        continue
                if got["err"] != exp["err"]:
                    sig = f"{kind}:outcome-differs:{got['err'] or 'ok'}-vs-twin-{exp['err'] or 'ok'}:{api}"
                    if got["err"] == "LiquidError" and "expected a boolean from uptodate" in got.get("msg", "") and api == "sync" and kind in ("fs", "nsfs"):
                        # mechanism: the cached template was loaded by load_async, whose uptodate is a coroutine function
                        sig = "caching-fs:sync-hit-on-async-loaded-template:uptodate-is-coroutine"
                    ctx.violation(sig, lambda: f"{kind} auto_reload={case['auto_reload']} capacity={case['capacity']} step {step_no} {req}: caching loader gave {got}, twin non-caching loader gave {exp}; history {case['steps'][: step_no + 1]}")
                    if sig.startswith("caching-fs:sync-hit-on-async-loaded-template"):
                        continue  # the failed request left the cache as it was: the rest of the history is still judged
                    return
                if got["err"] is not None:
                    continue
                diffs = [f for f in ("name", "path", "str", "render", "globals") if got[f] != exp[f]]
                if not diffs:
                    continue
                src_fields = {"str", "render"}
                kg2 = key_version(got["str"])
                if not case["auto_reload"] and set(diffs) <= src_fields and got["path"] == exp["path"] and (got["str"] in seen_versions.get(exp["path"], ()) or (kg2 and kg2[1] in seen_kv.get(kg2[0], ()))):
                    # stale version of the same key: permitted without auto reload; globals must still be the request's
                    stale_ok = got["render"] == exp["render"].replace(exp["str"].split(">")[0], got["str"].split(">")[0])
                    if stale_ok:
                        ctx.count("stale_version_accepted_without_auto_reload")
                        continue
                if "globals" in diffs and not (set(diffs) & {"name", "path", "str"}):
                    what = "globals-differ:" + ("request-without-globals" if req.get("globals") is None else "request-with-globals")
                elif "str" in diffs and got["path"] == exp["path"]:
                    what = "stale-source-after-edit" if case["auto_reload"] else "source-differs"
                elif "path" in diffs or "name" in diffs:
                    what = "other-key-substituted"
                else:
                    what = "differs:" + "+".join(diffs)
                ctx.violation(f"{kind}:{what}:{api}", lambda: f"{kind} auto_reload={case['auto_reload']} capacity={case['capacity']} step {step_no} {req}: caching loader returned {got}, twin non-caching loader {exp} (fields {diffs}); history {case['steps'][: step_no + 1]}")
                return
            if step["op"] == "get" and case["auto_reload"] and pairs[0][2]["err"] is None:
                resolved = os.path.relpath(pairs[0][2]["path"], store.tmpdir) if store.tmpdir else pairs[0][2]["path"]
                if resolved in edited_since and ck in keys_before:
                    ctx.count("reloads_after_edit")
                    edited_since.discard(resolved)
        h = core.stable_hash(case)
        if had_hit and h not in ctx.nontrivial_hashes:
            ctx.nontrivial_hashes.add(h)
            if len(ctx.samples) < ctx.max_samples and len(ctx.nontrivial_hashes) in (1, 3, 30, 200, 900):
                ctx.samples.append(case)
    finally:
        store.close()


def gen_req(rng, gid: list[int], namespaced: bool) -> dict[str, Any]:
    ns = rng.choice(NSS) if namespaced else None
    via = rng.choice(["kwarg", "kwarg", "context"]) if ns is not None else "none"
    g = None
    if rng.random() < 0.5:
        gid[0] += 1
        g = {"g": f"G{gid[0]}"}
    name = rng.choice(NAMES + ["missing"] if rng.random() < 0.1 else NAMES[: rng.choice([1, 2, 3])])
    if namespaced and rng.random() < 0.12:
        name = rng.choice(["A/t1", "B/t1", "A/t2", "B/t3"])  # a name with a directory part of its own, spelled like a namespace
    return {"op": "get", "name": name, "ns": ns, "ns_via": via, "async": rng.random() < 0.5, "globals": g}


def gen_case(rng, thorough: bool) -> dict[str, Any]:
    kind = rng.choice(KINDS)
    namespaced = kind in ("nsdict", "choice", "nsfs")
    keys = [n for n in NAMES if rng.random() < 0.85]
    if namespaced:
        keys += [f"{ns}/{n}" for ns in ("A", "B") for n in NAMES if rng.random() < 0.6]
    if not keys:
        keys = ["t1"]
    gid = [0]
    steps: list[dict[str, Any]] = []
    for _ in range(rng.randint(3, 12)):
        r = rng.random()
        if r < 0.04:
            steps.append({"op": "delete", "key": rng.choice(keys)})
        elif r < 0.2:
            steps.append({"op": "edit", "key": rng.choice(keys)})
        elif r < 0.32:
            ns = rng.choice(NSS) if namespaced else None
            gid[0] += 1
            steps.append({"op": "tagget", "tag": rng.choice(["include", "render"]), "name": rng.choice(NAMES), "ns": ns, "async": rng.random() < 0.5, "globals": {"g": f"G{gid[0]}"} if rng.random() < 0.5 else None})
        elif r < 0.39:
            steps.append({"op": "gather", "reqs": [dict(gen_req(rng, gid, namespaced), **{"async": True}) for _ in range(rng.randint(2, 5))]})
        else:
            steps.append(gen_req(rng, gid, namespaced))
    return {"kind": kind, "keys": keys, "auto_reload": rng.random() < 0.7, "capacity": rng.randint(1, 4), "env_globals": rng.random() < 0.5, "steps": steps,
            "mtime_step": rng.choice([1, 1, -1, -3600, 86400])}


def slash_name_cases():
    """Names that carry a directory part spelled like a namespace, requested without a namespace before / after the namespaced request for
    the bare name: (namespace A, name t1) and (no namespace, name A/t1) are different requests."""
    def get(name, ns, via="kwarg", is_async=False):
        return {"op": "get", "name": name, "ns": ns, "ns_via": via if ns else "none", "async": is_async, "globals": None}

    for kind in ("nsdict", "nsfs", "choice"):
        for keys in (["t1"], ["t1", "A/t1"], ["t1", "B/t1"], ["t1", "t2", "A/t2"]):
            for order in (0, 1):
                for via in ("kwarg", "context"):
                    for is_async in (False, True):
                        pair = [get("t1", "A", via, is_async), get("A/t1", None, "none", is_async)]
                        if order:
                            pair.reverse()
                        steps = pair + [get("t1", None), get("A/t1", "B", via, is_async), get("t1", "A", via), {"op": "edit", "key": keys[-1]}, get("A/t1", None), get("t1", "A", via)]
                        yield {"kind": kind, "keys": keys, "auto_reload": True, "capacity": 4, "env_globals": False, "steps": steps, "mtime_step": 1}


def cases(ctx: core.Ctx):
    for gi, c in enumerate(slash_name_cases()):
        if gi % ctx.nshards == ctx.shard:
            yield c
    rng = ctx.rng("cases")
    for _ in range(ctx.budget(2500, 160_000)):
        yield gen_case(rng, ctx.tier == "thorough")
