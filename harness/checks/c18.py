"""C18 Template inheritance resolves blocks to the most-derived definition.

Monitor: M1 (output / exception class of rendering the leaf of an extends chain, sync and async).
Oracle : reference model R-inherit (inline, DESIGN Appendix A), three-valued.  The model interprets the
         *abstract* chain spec the generator produced; it never looks at the repository's parse tree.
"""

from __future__ import annotations

import copy
import itertools
from typing import Any

from harness import core, drv

PROP = "C18"
TECHNIQUE = "reference-model runtime monitor (R-inherit) over enumerated and sampled extends chains, sync and async"
RULE = (
    "enumerated: every chain of length 1..L (quick L=2, thorough L=3) whose templates each take one of the ~60 layouts over block "
    "names {a,b} (absent / plain / with block.super / required, side by side or one nested in the other, in both orders); sampled: "
    "chains of length 1..4 over names {a,b,c,d} with blocks nested to depth 3, block.super at any depth, for loops and if tags (constant "
    "and variable conditions) around text, variables and nested blocks, inert text between blocks of child templates, required flags, "
    "endblock names (matching, absent, mismatched), duplicate block names and extends cycles (incl. self-extends). Every text item is a "
    "unique marker so the output exposes which definition rendered. Non-trivial = chain with >= 1 block, distinct by the printed sources."
    " Rounds 5-6 added enumerated families: loops around a block's place seen through block.super; a third of all chains under autoescape."
    " Round 7 added: the extends tag inside 13 wrappers and a liquid tag at every chain position."
)
REQUIRED = [
    ("liquid/extra/tags/extends_tag.py", "_build_block_stacks"),
    ("liquid/extra/tags/extends_tag.py", "_build_block_stacks_async"),
    ("liquid/extra/tags/extends_tag.py", "_stack_blocks"),
    ("liquid/extra/tags/extends_tag.py", "_store_blocks"),
    ("liquid/extra/tags/extends_tag.py", "BlockNode.render_to_output"),
    ("liquid/extra/tags/extends_tag.py", "BlockNode.render_to_output_async"),
    ("liquid/extra/tags/extends_tag.py", "BlockDrop.__getitem__"),
    ("liquid/extra/tags/extends_tag.py", "BlockTag.parse"),
]
MIN_COUNTERS = {"super_rendered": 20, "nested_resolved": 20, "expected_required_error": 5, "expected_reject": 5, "inert_child_text": 20, "block_inside_running_loop": 50, "widget_chain_included": 20}
ASSUMPTIONS = [
    "R-inherit is written from the property text and docs/optional_tags.md; cells they leave open are not judged: block.super that reaches "
    "a definition flagged required, a required most-derived definition the render never reaches, text before the extends tag (never generated)",
    "loop variables are only read lexically inside the loop of the same definition; variables come from render arguments",
]

from liquid import DictLoader  # noqa: E402


# ------------------------------------------------------------------------------ printer

def print_items(items: list) -> str:
    out = []
    for it in items:
        k = it[0]
        if k == "text":
            out.append(it[1])
        elif k == "var":
            out.append("{{ " + it[1] + " }}")
        elif k == "super":
            out.append("{{ block.super }}")
        elif k == "loopvar":
            out.append("{{ i }}")
        elif k == "widget":
            out.append("{% include '" + it[1] + "' %}")
        elif k == "block":
            _, name, req, body, endname = it
            out.append("{% block " + name + (" required" if req else "") + " %}" + print_items(body) + "{% endblock" + (" " + endname if endname else "") + " %}")
        elif k == "for":
            out.append("{% for i in (1.." + str(it[1]) + ") %}" + print_items(it[2]) + "{% endfor %}")
        elif k == "if" and it[1].startswith("@"):
            # other block tags whose body is rendered exactly once: for R-inherit they are an `if true`, for the engine they are other
            # node classes whose children must be searched for blocks just the same
            a, b = WRAPPERS[it[1]]
            out.append(a + print_items(it[2]) + b)
        elif k == "if":
            out.append("{% if " + it[1] + " %}" + print_items(it[2]) + "{% endif %}")
        else:  # pragma: no cover
            raise ValueError(k)
    return "".join(out)


# independent little chains that a template of the chain under test may include (their block names partly collide with its own):
# including one renders that chain and must leave the including chain's block resolution alone
WIDGETS = {
    "wbase": "<{% block w %}W{% endblock %}>", "widget": "{% extends 'wbase' %}{% block w %}w2{% endblock %}",
    "wbase2": "<{% block a %}WA{% endblock %}{% block b %}WB{{ block.super }}{% endblock %}>", "widget2": "{% extends 'wbase2' %}{% block a %}wa2{% endblock %}",
}
WIDGET_OUT = {"widget": "<w2>", "widget2": "<wa2WB>"}

WRAPPERS = {
    "@with": ("{% with w: 1 %}", "{% endwith %}"), "@case": ("{% case 1 %}{% when 1 %}", "{% endcase %}"), "@unless": ("{% unless false %}", "{% endunless %}"),
    "@elsif": ("{% if false %}{% elsif true %}", "{% endif %}"), "@else": ("{% if false %}{% else %}", "{% endif %}"), "@forelse": ("{% for z in (1..0) %}{% else %}", "{% endfor %}"),
    "@case-else": ("{% case 1 %}{% when 2 %}{% else %}", "{% endcase %}"), "@unless-else": ("{% unless true %}{% else %}", "{% endunless %}"),
}


# the extends tag itself written on the executed path of a block tag that has nothing else in it: the chain is followed all the same
EXTENDS_WRAPS = dict(WRAPPERS)
EXTENDS_WRAPS.update({
    "@if": ("{% if true %}", "{% endif %}"), "@if-data": ("{% if g1 %}", "{% endif %}"), "@for1": ("{% for z in (1..1) %}", "{% endfor %}"),
    "@if-if": ("{% if true %}{% if true %}", "{% endif %}{% endif %}"), "@if-comment": ("{% if true %}{% comment %}x{% endcomment %}", "{% assign zz = 1 %}{% endif %}"),
})


def print_template(t: dict[str, Any]) -> str:
    head = "{% extends '" + t["extends"] + "' %}" if t.get("extends") else ""
    if head and t.get("extends_wrap") == "@liquid":
        head = "{% liquid\n extends '" + t["extends"] + "'\n%}"
    elif head and t.get("extends_wrap"):
        a, b = EXTENDS_WRAPS[t["extends_wrap"]]
        head = a + head + b
    return head + print_items(t["items"])


# ------------------------------------------------------------------------------ model

class _Required(Exception):
    pass


class _Recursive(Exception):
    pass


def walk_blocks(items: list):
    for it in items:
        if it[0] == "block":
            yield it
            yield from walk_blocks(it[3])
        elif it[0] in ("for", "if"):
            yield from walk_blocks(it[2])


def truthy(cond: str, data: dict[str, Any]) -> bool:
    if cond == "true" or cond.startswith("@"):
        return True
    if cond == "false":
        return False
    v = data.get(cond)
    return v is not None and v is not False


def _model(case: dict[str, Any]):
    """('ok', text) | ('err', 'RequiredBlockError') | ('reject', why) | None (unspecified), plus feature counts."""
    tpls = case["templates"]
    data = case["data"]
    feats: dict[str, int] = {}
    # 1. the chain, leaf -> root
    chain = [case["leaf"]]
    targets: set[str] = set()
    reject = None
    cur = case["leaf"]
    while tpls[cur].get("extends"):
        nxt = tpls[cur]["extends"]
        if nxt in targets:
            reject = "cycle"
            break
        targets.add(nxt)
        chain.append(nxt)
        cur = nxt
    for name in chain:
        seen: set[str] = set()
        for b in walk_blocks(tpls[name]["items"]):
            if b[4] and b[4] != b[1]:
                reject = reject or "mismatched-endblock"
            # a chain of length 1 never meets the extends machinery; duplicates there are judged like anywhere else
            if b[1] in seen:
                reject = reject or "duplicate-block"
            seen.add(b[1])
    if reject:
        return ("reject", reject), feats
    defs: dict[str, list] = {}
    for name in chain:
        for b in walk_blocks(tpls[name]["items"]):
            defs.setdefault(b[1], []).append(b)
    unspecified: list[str] = []

    depth = [0]

    def render(items: list, blk, loop_i, bound: bool = False, via_super: bool = False, ls: str = "none") -> str:
        depth[0] += 1
        if depth[0] > 60:
            raise _Recursive()
        try:
            return _render(items, blk, loop_i, bound, via_super, ls)
        finally:
            depth[0] -= 1

    def _render(items: list, blk, loop_i, bound: bool, via_super: bool, ls: str) -> str:
        """bound: a for of this very definition encloses the items; via_super: we are somewhere below a block.super call; ls: what lies
        between the innermost running loop and these items - "own" (nothing: same definition), "placed" (the first boundary crossed
        was a block tag: the loop encloses the place where the block stands), "supered" (the first boundary was a block.super call)."""
        out = []
        for it in items:
            k = it[0]
            if k == "text":
                out.append(it[1])
            elif k == "var":
                v = data.get(it[1])
                out.append("" if v is None else ("true" if v else "false") if isinstance(v, bool) else str(v))
            elif k == "widget":
                feats["widget_chain_included"] = feats.get("widget_chain_included", 0) + 1
                out.append(WIDGET_OUT[it[1]])
            elif k == "loopvar":
                # the innermost loop running when this item renders - also across block boundaries: a definition replaces the block where
                # it stands, inside whatever loop the root (or an enclosing definition) placed it in.  What a definition reached through a
                # block.super call sees of a loop that the *calling definition itself* opened around the call is not settled by the property;
                # a loop around the place where the block stands is seen by every definition of that block, however it is reached.
                if ls == "supered":
                    unspecified.append("free-loop-variable-below-super")
                out.append("" if loop_i is None else str(loop_i))
            elif k == "super":
                name, idx = blk
                if idx + 1 < len(defs[name]):
                    nxt = defs[name][idx + 1]
                    if nxt[2]:
                        unspecified.append("super-into-required")
                    feats["super_rendered"] = feats.get("super_rendered", 0) + 1
                    if idx + 1 >= 2:
                        feats["super_depth2"] = feats.get("super_depth2", 0) + 1
                    out.append(render(nxt[3], (name, idx + 1), loop_i, False, True, "supered" if ls == "own" else ls))
            elif k == "block":
                name = it[1]
                d0 = defs[name][0]
                if d0[2]:
                    raise _Required(name)
                if blk is not None:
                    feats["nested_resolved"] = feats.get("nested_resolved", 0) + 1
                if d0 is not it:
                    feats["overridden"] = feats.get("overridden", 0) + 1
                if loop_i is not None:
                    feats["block_inside_running_loop"] = feats.get("block_inside_running_loop", 0) + 1
                out.append(render(d0[3], (name, 0), loop_i, False, via_super, "placed" if ls == "own" else ls))
            elif k == "for":
                for i in range(1, it[1] + 1):
                    out.append(render(it[2], blk, i, True, via_super, "own"))
            elif k == "if":
                if truthy(it[1], data):
                    out.append(render(it[2], blk, loop_i, bound, via_super, ls))
        return "".join(out)

    root = tpls[chain[-1]]
    try:
        text = render(root["items"], None, None)
    except _Required:
        return ("err", "RequiredBlockError"), feats
    except _Recursive:
        # x{ y{super} } over y{ x{} }: resolution never bottoms out; the property does not say how that ends (C09 does)
        feats["recursive_structure"] = 1
        return None, feats
    if unspecified:
        return None, feats
    # a required most-derived definition that the render never reached: not settled by the property
    for name, ds in defs.items():
        if ds[0][2]:
            return None, feats
    return ("ok", text), feats


# ------------------------------------------------------------------------------ execution

def model(case: dict[str, Any]):
    """R-inherit, plus the way the chain is entered: directly, or through an include tag of an ordinary template (the chain is then followed
    from the included template - the one that contains the extends tag - and the includer goes on after it)."""
    exp, feats = _model(case)
    if case.get("entry") == "include" and exp is not None and exp[0] == "ok":
        exp = ("ok", "<<" + exp[1] + ">>")
    return exp, feats


class LoadBudgetExceeded(BaseException):
    """Logical clock: one render of a chain of <= 4 templates asked the loader for more than LOAD_BUDGET sources."""


LOAD_BUDGET = 2000


class CountingLoader(DictLoader):
    loads = 0

    def get_source(self, env, template_name, *, context=None, **kwargs):  # type: ignore[override]
        self.loads += 1
        if self.loads > LOAD_BUDGET:
            raise LoadBudgetExceeded(template_name)
        return super().get_source(env, template_name, context=context, **kwargs)

    async def get_source_async(self, env, template_name, *, context=None, **kwargs):  # type: ignore[override]
        self.loads += 1
        if self.loads > LOAD_BUDGET:
            raise LoadBudgetExceeded(template_name)
        return await super().get_source_async(env, template_name, context=context, **kwargs)


_env = None


def env():
    global _env
    if _env is None:
        _env = drv.make_env({"extra": True})
    return _env


_env_ae = None


def env_autoescape():
    """The same chains under autoescape: the templates' own text (markers with angle brackets included) is markup and stays as it is, through
    block.super at any depth as well."""
    global _env_ae
    if _env_ae is None:
        _env_ae = drv.make_env({"extra": True, "autoescape": True})
    return _env_ae


def execute(case: dict[str, Any], use_async: bool):
    e = env_autoescape() if case.get("autoescape") else env()
    srcs = {name: print_template(t) for name, t in case["templates"].items()}
    srcs.update(WIDGETS)
    entry = case["leaf"]
    if case.get("entry") == "include":
        srcs["__includer"] = "<<{% include '" + case["leaf"] + "' %}>>"
        entry = "__includer"
    e.loader = CountingLoader(srcs)
    try:
        if use_async:
            o = drv.call_async(e.get_template_async, entry)
        else:
            o = drv.call(e.get_template, entry)
        if not o.ok:
            return o
        return drv.render_async(o.value, case["data"]) if use_async else drv.render(o.value, case["data"])
    except LoadBudgetExceeded as exc:
        # the extends chain kept loading templates: on the logical clock of loader requests this render does not terminate
        return drv.Outcome(False, exc=exc)


def features(case: dict[str, Any]) -> list[str]:
    f = []
    tpls = case["templates"]
    n = len(tpls)
    allb = [b for t in tpls.values() for b in walk_blocks(t["items"])]

    def has(items, kind, inside_block=False):
        for it in items:
            if it[0] == kind and (inside_block or kind != "super"):
                return True
            if it[0] == "block" and has(it[3], kind, True):
                return True
            if it[0] in ("for", "if") and has(it[2], kind, inside_block):
                return True
        return False

    def nested(items, depth=0):
        for it in items:
            if it[0] == "block":
                if depth:
                    return True
                if nested(it[3], depth + 1):
                    return True
            elif it[0] in ("for", "if") and nested(it[2], depth):
                return True
        return False

    if any(has(t["items"], "super", False) for t in tpls.values()):
        f.append("super")
    if any(nested(t["items"]) for t in tpls.values()):
        f.append("nested-block")
    if any(b[2] for b in allb):
        f.append("required")
    if any(has(t["items"], "for") for t in tpls.values()):
        f.append("for")
    if any(has(t["items"], "if") for t in tpls.values()):
        f.append("if")
    if any(b[4] for b in allb):
        f.append("endblock-name")
    f.append(f"chain{min(n, 4)}")
    return f


def outcome_kind(exp, got: drv.Outcome) -> str | None:
    """None if the observed outcome agrees with the model, else the kind of disagreement."""
    if exp[0] == "ok":
        if got.ok:
            return None if got.value == exp[1] else "output-differs"
        return f"unexpected-{got.err_class}"
    if exp[0] == "err":
        if got.ok:
            return f"missing-{exp[1]}"
        return None if got.err_class == exp[1] else f"expected-{exp[1]}-got-{got.err_class}"
    # reject
    if got.ok:
        return f"not-rejected:{exp[1]}"
    if got.err_class in ("TemplateInheritanceError", "LiquidSyntaxError"):
        return None
    return f"rejected-with-{got.err_class}:{exp[1]}"


def _violates(case: dict[str, Any], kind: str, use_async: bool) -> bool:
    try:
        exp, _ = model(case)
    except Exception:  # noqa: BLE001 - a shrunk case may be ill-formed for the model (super outside a block)
        return False
    if exp is None:
        return False
    return outcome_kind(exp, execute(case, use_async)) == kind


def _shrink(case: dict[str, Any], kind: str, use_async: bool, budget: int = 150) -> dict[str, Any]:
    """Greedy structural shrinking: delete items, unwrap for/if, simplify flags."""
    best = case
    b = [budget]

    def paths(items, prefix):
        for i, it in enumerate(items):
            yield prefix + [i]
            if it[0] == "block":
                yield from paths(it[3], prefix + [i, 3])
            elif it[0] in ("for", "if"):
                yield from paths(it[2], prefix + [i, 2])

    def get_parent(tree, path):
        cur = tree
        for p in path[:-1]:
            cur = cur[p]
        return cur

    changed = True
    while changed and b[0] > 0:
        changed = False
        for tname in list(best["templates"]):
            for path in sorted(paths(best["templates"][tname]["items"], []), key=len, reverse=True):
                for action in ("delete", "unwrap"):
                    cand = copy.deepcopy(best)
                    items = cand["templates"][tname]["items"]
                    try:
                        parent = get_parent(items, path)
                        node = parent[path[-1]]
                    except (IndexError, TypeError):
                        continue
                    if action == "delete":
                        if node[0] == "super":
                            pass
                        del parent[path[-1]]
                    else:
                        if node[0] not in ("for", "if"):
                            continue
                        if node[0] == "for" and any(x[0] == "loopvar" for x in node[2]):
                            continue
                        parent[path[-1] : path[-1] + 1] = node[2]
                    b[0] -= 1
                    if _violates(cand, kind, use_async):
                        best = cand
                        changed = True
                        break
                    if b[0] <= 0:
                        break
                if changed or b[0] <= 0:
                    break
            if changed or b[0] <= 0:
                break
    return best


def judge(ctx: core.Ctx, case: dict[str, Any]) -> None:
    exp, feats = model(case)
    use_async = bool(case.get("async"))
    got = execute(case, use_async)
    if not got.ok and not got.is_liquid_error:
        ctx.count("non_liquid_error_forwarded_to_C02")
    if exp is None:
        ctx.unspecified("model-open-cell")
        return
    for k, v in feats.items():
        ctx.count(k, v)
    if exp[0] == "err":
        ctx.count("expected_required_error")
    elif exp[0] == "reject":
        ctx.count("expected_reject")
        ctx.count("expected_reject:" + exp[1])
    for name, t in case["templates"].items():
        if t.get("extends") and any(it[0] == "text" for it in t["items"]):
            ctx.count("inert_child_text")
            break
    kind = outcome_kind(exp, got)
    ctx.observe("outcome", exp[0] if exp[0] != "err" else exp[1])
    if kind is None:
        srcs = tuple(sorted((n, print_template(t)) for n, t in case["templates"].items()))
        nblocks = sum(1 for t in case["templates"].values() for _ in walk_blocks(t["items"]))
        ctx.ok((srcs, case["leaf"], use_async), nontrivial=nblocks >= 1)
        return
    ctx.evaluations += 1
    small = case if ctx.pinned_phase else _shrink(case, kind, use_async)
    feat = features(small)
    sig = f"{kind.split(':')[0]}:{'+'.join(feat)}" + (":async" if use_async and not _violates(small, kind, False) else "")
    exp2, _ = model(small)
    if exp2 is not None and exp2[0] == "reject":
        # mechanism: which rejection is missing, and whether the extends machinery was involved at all
        sig = f"reject-miss:{exp2[1]}:{'direct-render' if len(small['templates']) == 1 else 'chain'}"
    got2 = execute(small, use_async)
    srcs = {n: print_template(t) for n, t in small["templates"].items()}
    saved = ctx.current_case
    ctx.current_case = small
    ctx.violation(
        sig,
        f"leaf {small['leaf']!r} of {srcs!r} with {small['data']!r}: R-inherit expects {exp2!r}, observed {got2.brief()!r}",
        {"sources": srcs, "expected": exp2, "observed": got2.brief(), "original_case": case},
    )
    ctx.current_case = saved


# ------------------------------------------------------------------------------ workload

def layouts(names=("a", "b")) -> list[list]:
    """Every layout of one template over two block names (text markers are filled in later)."""
    a, b = names
    variants = ["absent", "plain", "super", "required", "super2"]

    def blk(name, var, inner=None):
        if var == "empty":
            return ["block", name, False, [] if inner is None else [inner], None]
        if var == "blank":
            return ["block", name, False, [["text", " \n"]], None]
        body: list = [["text", ""]]
        if var == "super":
            body.append(["super"])
        elif var == "super2":
            body = [["super"], ["text", ""], ["super"]]
        if inner is not None:
            body.append(inner)
            body.append(["text", ""])
        return ["block", name, var == "required", body, None]

    outs: list[list] = []
    for va, vb in itertools.product(variants, repeat=2):
        if va == "absent" and vb == "absent":
            outs.append([["text", ""]])
            continue
        if va == "absent":
            outs.append([["text", ""], blk(b, vb), ["text", ""]])
            continue
        if vb == "absent":
            outs.append([["text", ""], blk(a, va), ["text", ""]])
            continue
        outs.append([["text", ""], blk(a, va), ["text", ""], blk(b, vb), ["text", ""]])
        outs.append([blk(b, vb), ["text", ""], blk(a, va)])
        outs.append([["text", ""], blk(a, va, blk(b, vb)), ["text", ""]])
        outs.append([["text", ""], blk(b, vb, blk(a, va)), ["text", ""]])
    # a block that stands inside a running loop and is rendered once per iteration: every definition of it, reached directly or through
    # block.super, renders afresh each time and sees that iteration's loop variable
    def lblk(name, var):
        body = [["text", ""], ["loopvar"]]
        if var == "super":
            body.append(["super"])
        elif var == "super2":
            body = [["super"], ["loopvar"], ["super"]]
        return ["block", name, False, body, None]

    for var in ("plain", "super", "super2"):
        outs.append([["for", 3, [lblk(a, var)]]])
        outs.append([["text", ""], blk(b, "plain", ["for", 2, [lblk(a, var), ["text", ""]]])])
        outs.append([["for", 2, [["loopvar"], blk(b, "super", lblk(a, var))]]])
    # blocks whose default body is empty or whitespace-only, alone inside control flow or inside another block
    for e in ("empty",):  # (a whitespace-only body meets the documented suppression of blank blocks: not generated)
        outs.append([["if", "true", [blk(a, e)]], ["text", ""]])
        outs.append([["for", 2, [blk(a, e)]]])
        outs.append([blk(b, "empty", blk(a, e))])
        outs.append([["if", "g1", [["for", 1, [blk(a, e)]]]], blk(b, e)])
    return outs


def mark(templates: dict[str, dict[str, Any]]) -> None:
    """Replace every empty text item by a unique marker naming its template (whitespace-only text stays as it is)."""
    for tname, t in templates.items():
        n = [0]

        def go(items):
            for it in items:
                if it[0] == "text" and it[1] == "":
                    n[0] += 1
                    it[1] = f"<{tname}{n[0]}>"
                elif it[0] == "block":
                    go(it[3])
                elif it[0] in ("for", "if"):
                    go(it[2])

        go(t["items"])


def gen_items(rng, names: list[str], depth: int, in_block: bool, in_for: bool, used: set[str], dup_ok: bool, direct: bool = False) -> list:
    """direct: these items are the immediate body of a block, which may be empty (whitespace-only text is never generated: it
    would invoke the documented suppression of blank blocks, which R-inherit does not model)."""
    items: list = []
    for _ in range(rng.randint(0 if direct else 1, 4)):
        r = rng.random()
        if r < 0.25:
            items.append(["text", ""])
        elif r < 0.33:
            items.append(["var", rng.choice(["g1", "g2", "nope"])])
        elif r < 0.45 and in_block:
            items.append(["super"] if rng.random() < 0.85 else ["widget", rng.choice(sorted(WIDGET_OUT))])
        elif r < 0.50:
            items.append(["loopvar"])
        elif r < 0.80 and depth < 3:
            free = [n for n in names if n not in used]
            if not free and not dup_ok:
                items.append(["text", ""])
                continue
            name = rng.choice(free) if free and not (dup_ok and rng.random() < 0.5) else rng.choice(names)
            used.add(name)
            req = rng.random() < 0.12
            r2 = rng.random()
            endname = name if r2 < 0.3 else None
            body = gen_items(rng, names, depth + 1, True, False, used, dup_ok, direct=True)
            items.append(["block", name, req, body, endname])
        elif r < 0.90 and depth < 3:
            items.append(["for", rng.choice([0, 1, 2, 2, 3]), gen_items(rng, names, depth + 1, in_block, True, used, dup_ok)])
        elif depth < 3:
            items.append(["if", rng.choice(["true", "false", "g1", "fl", "nope", "g2"] + (sorted(WRAPPERS) if rng.random() < 0.4 else [])), gen_items(rng, names, depth + 1, in_block, in_for, used, dup_ok)])
        else:
            items.append(["text", ""])
    # loopvar items must sit directly in a for body (the model binds i lexically); strip others
    return items


def _fix_loopvars(items: list, in_for: bool) -> None:
    """`{{ i }}` stays only where the innermost enclosing construct chain up to the for has no block boundary."""
    for idx in range(len(items) - 1, -1, -1):
        it = items[idx]
        if it[0] == "loopvar" and False:
            del items[idx]
        elif it[0] == "block":
            _fix_loopvars(it[3], False)
        elif it[0] == "for":
            _fix_loopvars(it[2], True)
        elif it[0] == "if":
            _fix_loopvars(it[2], in_for)


def gen_chain(rng) -> dict[str, Any]:
    n = rng.choice([1, 2, 2, 3, 3, 3, 4, 4])
    names = ["a", "b", "c", "d"][: rng.choice([2, 3, 4])]
    nstyle = rng.choice(["plain", "plain", "dirs", "samebase"])  # a loaded template's own name is its basename, not the name the tag asked for
    tnames = [{"plain": f"t{i}", "dirs": f"layouts/s{i}/t{i}", "samebase": f"d{i}/t"}[nstyle] for i in range(n)]
    special = rng.random()
    dup_in = rng.randrange(n) if special < 0.05 else None
    mismatch_in = rng.randrange(n) if 0.05 <= special < 0.10 else None
    cycle = 0.10 <= special < 0.16
    templates: dict[str, dict[str, Any]] = {}
    for i, tn in enumerate(tnames):
        used: set[str] = set()
        items = gen_items(rng, names, 0, False, False, used, dup_ok=(dup_in == i))
        _fix_loopvars(items, False)
        ext = tnames[i + 1] if i + 1 < n else None
        templates[tn] = {"extends": ext, "items": items}
    if cycle:
        templates[tnames[-1]]["extends"] = rng.choice(tnames)
    if mismatch_in is not None:
        bl = list(walk_blocks(templates[tnames[mismatch_in]]["items"]))
        if bl:
            b = rng.choice(bl)
            b[4] = rng.choice([x for x in ["a", "b", "c", "d", "zz"] if x != b[1]])
    mark(templates)
    data = {"g1": rng.choice(["G1", 7, True]), "g2": rng.choice(["", "G2", 0]), "fl": rng.choice([False, None])}
    c = {"kind": "sampled", "templates": templates, "leaf": tnames[0], "data": data, "async": rng.random() < 0.3}
    if rng.random() < 0.12:
        c["entry"] = "include"
        c["async"] = rng.random() < 0.6
    return c


def cases(ctx: core.Ctx):
    for i, c in enumerate(_cases(ctx)):
        if i % 3 == 1:
            c["autoescape"] = True
        yield c


def _cases(ctx: core.Ctx):
    rng = ctx.rng("cases")
    # a first slice of sampled chains (they carry the cycles, duplicates and mismatched endblocks) before the enumeration, which the
    # thorough tier's time cap may not get past
    for _ in range(ctx.budget(1500, 48_000)):
        yield gen_chain(rng)
    lay = layouts()
    L = 2 if ctx.tier == "quick" else 3
    idx = 0
    for n in range(1, L + 1):
        for combo in itertools.product(range(len(lay)), repeat=n):
            idx += 1
            if idx % ctx.nshards != ctx.shard:
                continue
            if ctx.case_limit is not None and idx > ctx.case_limit * ctx.nshards:
                break
            tnames = [f"t{i}" for i in range(n)]
            templates = {
                tn: {"extends": tnames[i + 1] if i + 1 < n else None, "items": copy.deepcopy(lay[combo[i]])} for i, tn in enumerate(tnames)
            }
            mark(templates)
            yield {"kind": "enum", "templates": templates, "leaf": "t0", "data": {"g1": "G1"}, "async": idx % 4 == 0}
    # wrapped extends tags: every wrapper x position in chains of 2 and 3 x a fixed stride of the layouts
    widx = 0
    for wrap in list(EXTENDS_WRAPS) + ["@liquid"]:
        for n in (2, 3):
            for pos in range(n - 1):
                for k in range(0, len(lay), max(1, len(lay) // 5)):
                    widx += 1
                    if widx % ctx.nshards != ctx.shard:
                        continue
                    tnames = [f"t{i}" for i in range(n)]
                    templates = {tn: {"extends": tnames[i + 1] if i + 1 < n else None, "items": copy.deepcopy(lay[(k + 3 * i) % len(lay)])} for i, tn in enumerate(tnames)}
                    templates[tnames[pos]]["extends_wrap"] = wrap
                    mark(templates)
                    yield {"kind": "wrapped-extends", "templates": templates, "leaf": "t0", "data": {"g1": "G1"}, "async": widx % 2 == 0}
    ctx.extra["exhaustive"] = ctx.case_limit is None
    ctx.extra["enumerated_layouts_per_template"] = len(lay)
    for _ in range(ctx.budget(6000, 600_000)):
        yield gen_chain(rng)
