"""C11 Custom delimiters and environments are independent.

Part A (rewriting) : differential monitor - the same abstract template printed with default and with generated delimiters, rendered in
                     matching environments; equal outcome required.
Part B (histories) : M10 forked twins - a history creates several environments (same or different delimiters, tolerance, flags, tags
                     and filters registered under the same names) and uses them in interleaved order in one child; the reference runs
                     each environment's own steps alone in a fresh child.  M8: the memo caches' hit counters are read in the child.
"""

from __future__ import annotations

import itertools
import random
from typing import Any

from harness import core, drv
from harness.gen import tpl
from harness.gen import values as V
from harness.mon import zygote

PROP = "C11"
CASE_WATCHDOG_S = 900.0  # a case runs several forked children one after the other; each child has its own (shorter) alarm
TECHNIQUE = "differential runtime monitor (default vs generated delimiters) + forked-twin history monitor (interleaved environments vs each alone in a pristine child)"
RULE = (
    "rewrite cases: G-ast template (all standard tags, liquid tags with inline comments, shorthand template comments, whitespace control) printed with "
    "the default delimiters and with 6 generated delimiter strings (length 1-4 over punctuation, upper-case letters and regex metacharacters; rejected "
    "and counted when one contains '-' or whitespace, is a substring of another, or shares a character with the template's own text / expressions), "
    "rendered in matching environments with the same data. history cases: 2-6 environments (equal or different delimiters; strict/warn/lax; feature "
    "flags; extra tags; a filter and the echo tag re-registered under their built-in names with environment-specific behaviour) created up front or "
    "lazily and used for 4-30 renders in interleaved order (thorough: also > 128 live delimiter sets to force memo eviction). Judged: every render's "
    "outcome equals the outcome of the same environment's steps run alone in a fresh process. implicit cases: 2-12 templates made with the package-level "
    "liquid.Template(source, **options) whose option sets differ in one or two of autoescape / undefined / tolerance / strict_filters / template_comments / extra / "
    "delimiters (12 sets exceed the implicit-environment memo), all created before any is rendered or interleaved, judged the same way. Non-trivial = rewrite with >= 1 tag and non-empty "
    "output, or history with >= 2 environments; distinct by content."
    " Rounds 5-6 added enumerated families: closing and opening delimiters of every width 1-3 per markup kind against whitespace-control bodies; delimiters holding hyphens."
    " Round 7 added: paired environments (stock and future) that differ in one option, both creation orders."
)
REQUIRED = [
    ("liquid/lex.py", "compile_liquid_rules"),
    ("liquid/lex.py", "get_lexer"),
    ("liquid/lex.py", "_tokenize_template"),
    ("liquid/builtin/tags/liquid_tag.py", "LiquidTag.parse"),
    ("liquid/environment.py", "Environment.tokenizer"),
]
MIN_COUNTERS = {"cross_environment_renders": 200, "rewrites_judged": 500, "rewrites_with_template_comment": 50, "rewrites_with_liquid_tag": 50, "history_pairs": 20, "history_renders_compared": 200,
                "implicit_history_pairs": 10, "implicit_renders_compared": 40}

SENT = ["", "", "", "", "", ""]
DELIM_ALPHABET = list("!#$%&*+/:;<=>?@[]^_`{|}~().\\") + list("QZXJW")


def setup(ctx: core.Ctx) -> None:
    zygote.start(("liquid.builtin.filters.misc",))


def finish(ctx: core.Ctx) -> None:
    zygote.stop()


# ------------------------------------------------------------------------------ part A

def gen_delims(rng: random.Random, forbidden: set[str]) -> list[str] | None:
    ds = []
    for _ in range(6):
        n = rng.choice([1, 2, 2, 2, 3, 4])
        ds.append("".join(rng.choice(DELIM_ALPHABET) for _ in range(n)))
    if rng.random() < 0.15:
        # an end delimiter that starts with the character also used for whitespace control ("->", "-}"): still unambiguous, because the
        # control hyphen is optional and the delimiter is not (needs a template without any hyphen of its own, checked below)
        k = rng.choice([1, 3])
        ds[k] = "-" + ds[k]
    for i, d in enumerate(ds):
        if "-" in (d[1:] if i in (1, 3) else d) or any(c.isspace() for c in d) or any(c in forbidden for c in d):
            return None
    for i, a in enumerate(ds):
        for j, b in enumerate(ds):
            if i != j and a in b:
                return None
    return ds


def style(ds: list[str], wc: float, tight: float) -> tpl.Style:
    return tpl.Style(ts=ds[0], te=ds[1], os=ds[2], oe=ds[3], cs=ds[4], ce=ds[5], wc=wc, tight=tight, line_comment_from_cs=True)


DEFAULT = ["{%", "%}", "{{", "}}", "{#", "#}"]


def judge_rewrite(ctx: core.Ctx, case: dict[str, Any]) -> None:
    nodes = case["nodes"]
    seed = case["print_seed"]
    wc, tight = case["wc"], case["tight"]
    body = tpl.print_nodes(nodes, style(SENT, wc, tight), random.Random(seed))
    forbidden = set(body) - set(SENT)
    ds = case["delims"]
    if any(c in forbidden for d in ds for c in d):
        ctx.count("rewrite_rejected:delimiter-shares-a-character-with-the-template")
        return
    # the line-comment marker inside liquid tags is derived from the comment start delimiter (its braces dropped, "#" if nothing is left):
    # it is template text of the rewritten template, and the tag's end delimiter must not occur in it
    marker = ds[4].replace("{", "") or "#"
    if ds[1] in marker and any(n[0] in ("inline", "liquid") for n in _walk(nodes)):  # (the tag would end at its own comment marker)
        ctx.count("rewrite_rejected:delimiter-shares-a-character-with-the-derived-line-comment-marker")
        return
    src_d = tpl.print_nodes(nodes, style(DEFAULT, wc, tight), random.Random(seed))
    src_c = tpl.print_nodes(nodes, style(ds, wc, tight), random.Random(seed))
    data = V.dec(case["data"])
    cfg = {"flags": case.get("flags") or {}, "template_comments": True, "mode": case.get("mode", "strict")}
    env_d = drv.make_env(dict(cfg, delims=DEFAULT))
    env_c = drv.make_env(dict(cfg, delims=ds))
    o_d = drv.parse_and_render(env_d, src_d, data, use_async=case.get("async", False))
    o_c = drv.parse_and_render(env_c, src_c, data, use_async=case.get("async", False))
    ctx.count("rewrites_judged")
    if any(n[0] == "tcomment" for n in _walk(nodes)):
        ctx.count("rewrites_with_template_comment")
    if any(n[0] == "liquid" for n in _walk(nodes)):
        ctx.count("rewrites_with_liquid_tag")
    for o in (o_d, o_c):
        if not o.ok and not o.is_liquid_error:
            ctx.count("non_liquid_error_forwarded_to_C02")
    if o_d.key() == o_c.key():
        if o_c.ok and "include" not in src_c and not case.get("async") and not _cross_ok(ctx, env_c, src_c, data, o_c.value, ds):
            return
        ctx.ok((src_d, ds, case["data"]), nontrivial=o_d.ok and bool(o_d.value) and "{%" in src_d)
        return
    # shrink: drop nodes while the two printings still disagree
    small = _shrink_nodes(nodes, lambda ns: _disagree(ns, ds, wc, tight, seed, cfg, data))
    sd = tpl.print_nodes(small, style(DEFAULT, wc, tight), random.Random(seed))
    sc = tpl.print_nodes(small, style(ds, wc, tight), random.Random(seed))
    a = drv.parse_and_render(drv.make_env(dict(cfg, delims=DEFAULT)), sd, data)
    b = drv.parse_and_render(drv.make_env(dict(cfg, delims=ds)), sc, data)
    kinds = sorted({n[0] if n[0] != "tag" and n[0] != "block" else n[1] for n in _walk(small)})
    mech = "inline-comment-in-liquid-tag" if any(n[0] == "inline" for n in _walk(small)) and any(n[0] == "liquid" for n in _walk(small)) else "+".join(kinds[:3])
    ctx.evaluations += 1
    ctx.violation(
        f"rewrite-differs:{mech}",
        f"default delimiters: {sd!r:.300} -> {a.brief()}; delimiters {ds}: {sc!r:.300} -> {b.brief()}",
        {"default": sd, "custom": sc, "delims": ds},
    )


_WRAPPER_ENV: list[Any] = []


def _wrapper_env():
    """A third environment that differs from the template's own in everything a template could pick up from it: default delimiters,
    lax tolerance, no feature flags, and the most common filters re-registered with a behaviour of its own."""
    if not _WRAPPER_ENV:
        e = drv.make_env({"mode": "lax", "delims": DEFAULT})
        for f in ("upcase", "downcase", "append", "prepend", "size", "join", "default", "first", "last", "plus", "minus", "times", "capitalize", "strip", "split", "replace", "sort", "escape"):
            e.add_filter(f, lambda *a, **k: "WRAPPER-ENV")
        _WRAPPER_ENV.append(e)
    return _WRAPPER_ENV[0]


def _cross_ok(ctx: core.Ctx, env_c, src_c: str, data: dict[str, Any], alone: str, ds: list[str]) -> bool:
    """A template parsed by one environment and handed as render data to a template of another ({% render inner %}) still renders
    with its own environment's delimiters, flags and filters: the text it produces there is the text it produces on its own."""
    t = drv.call(env_c.from_string, src_c)
    if not t.ok:
        return True
    w = drv.parse_and_render(_wrapper_env(), "[{% render inner %}]", dict(data, inner=t.value))
    ctx.count("cross_environment_renders")
    if w.ok and w.value == "[" + alone + "]":
        return True
    ctx.evaluations += 1
    ctx.violation(
        "cross-environment-render-differs",
        f"template {src_c!r:.200} (delimiters {ds}) renders {alone!r:.120} on its own but {w.brief()!r:.200} when another environment's template renders it through {{% render inner %}}",
    )
    return False


def _walk(nodes: list):
    for n in nodes:
        yield n
        if n[0] == "block":
            for _, _, body in n[3]:
                yield from _walk(body)
        elif n[0] == "liquid":
            yield from _walk(n[1])


def _disagree(nodes, ds, wc, tight, seed, cfg, data) -> bool:
    try:
        sd = tpl.print_nodes(nodes, style(DEFAULT, wc, tight), random.Random(seed))
        sc = tpl.print_nodes(nodes, style(ds, wc, tight), random.Random(seed))
    except Exception:  # noqa: BLE001
        return False
    body = tpl.print_nodes(nodes, style(SENT, wc, tight), random.Random(seed))
    if any(c in (set(body) - set(SENT)) for d in ds for c in d):
        return False
    a = drv.parse_and_render(drv.make_env(dict(cfg, delims=DEFAULT)), sd, data)
    b = drv.parse_and_render(drv.make_env(dict(cfg, delims=ds)), sc, data)
    return a.key() != b.key()


def _shrink_nodes(nodes: list, pred, budget: int = 80) -> list:
    import copy

    best = copy.deepcopy(nodes)
    changed = True
    while changed and budget > 0:
        changed = False
        for i in range(len(best)):
            cand = best[:i] + best[i + 1 :]
            budget -= 1
            if cand and pred(cand):
                best = cand
                changed = True
                break
            n = best[i]
            if n[0] == "block":
                for _, _, body in n[3]:
                    cand = best[:i] + body + best[i + 1 :]
                    budget -= 1
                    if cand and pred(cand):
                        best = cand
                        changed = True
                        break
                if changed:
                    break
            if n[0] == "liquid" and len(n[1]) > 1:
                for j in range(len(n[1])):
                    cand = best[:i] + [["liquid", n[1][:j] + n[1][j + 1 :]]] + best[i + 1 :]
                    budget -= 1
                    if pred(cand):
                        best = cand
                        changed = True
                        break
                if changed:
                    break
            if budget <= 0:
                break
    return best


# ------------------------------------------------------------------------------ part B (runs in forked children)

def _build_env(cfg: dict[str, Any]):
    kw = {}
    if cfg.get("future"):
        from liquid.future import Environment as FutureEnvironment

        kw["base"] = FutureEnvironment
    env = drv.make_env({k: v for k, v in cfg.items() if k in ("flags", "delims", "mode", "extra", "template_comments", "undefined", "strict_filters", "autoescape")}, **kw)
    mark = cfg.get("mark")
    if cfg.get("own_filter"):
        env.add_filter("upcase", lambda s, _m=mark: f"<{_m}:{s}>")
        env.add_filter("mine", lambda s, _m=mark: f"[{_m}:{s}]")
    if cfg.get("own_tag"):
        from liquid.builtin.tags.echo_tag import EchoNode, EchoTag

        class MyEchoNode(EchoNode):
            def render_to_output(self, context, buffer):
                buffer.write(f"<{mark}>")
                return super().render_to_output(context, buffer)

            async def render_to_output_async(self, context, buffer):
                buffer.write(f"<{mark}>")
                return await super().render_to_output_async(context, buffer)

        class MyEchoTag(EchoTag):
            node_class = MyEchoNode

        env.add_tag(MyEchoTag)
    return env


def _memo(fn, field: str) -> int:
    """Hit / size counters of a functools memo, for the evidence only (0 if the function is not memoised that way: how sharing between
    environments is implemented is not the property's business, only its effect is)."""
    info = getattr(fn, "cache_info", None)
    return int(getattr(info(), field)) if callable(info) else 0


def job_history(payload: dict[str, Any]) -> dict[str, Any]:
    cfgs = payload["envs"]
    envs: dict[int, Any] = {}
    if payload.get("create_up_front"):
        for i, c in enumerate(cfgs):
            if i in payload["used"]:
                envs[i] = _build_env(c)
    out = []
    for i, source, data, use_async in payload["steps"]:
        if i not in envs:
            envs[i] = _build_env(cfgs[i])
        o = drv.parse_and_render(envs[i], source, V.dec(data), use_async=use_async)
        out.append(list(o.key()) if o.ok else ["err", o.err_class, drv.safe_str(o.exc).split("\n")[0][:80]])
    from liquid import lex, parser

    return {"results": out, "lexer_hits": _memo(lex.get_lexer, "hits"), "parser_hits": _memo(parser.get_parser, "hits"),
            "lexer_size": _memo(lex.get_lexer, "currsize"), "parser_size": _memo(parser.get_parser, "currsize")}


def judge_history(ctx: core.Ctx, case: dict[str, Any]) -> None:
    used = sorted({s[0] for s in case["steps"]})
    together = zygote.run("harness.checks.c11", "job_history", {"envs": case["envs"], "steps": case["steps"], "create_up_front": case["create_up_front"], "used": used}, watchdog_s=300)
    ctx.count("history_pairs")
    ctx.count("lexer_memo_hits_in_children", together["lexer_hits"])
    ctx.count("parser_memo_hits_in_children", together["parser_hits"])
    ctx.observe("max_live_lexers", together["lexer_size"])
    ctx.evaluations += 1
    for i in used:
        idx = [k for k, s in enumerate(case["steps"]) if s[0] == i]
        alone = zygote.run("harness.checks.c11", "job_history", {"envs": case["envs"], "steps": [case["steps"][k] for k in idx], "create_up_front": False, "used": [i]}, watchdog_s=300)
        for k, r in zip(idx, alone["results"]):
            ctx.count("history_renders_compared")
            if together["results"][k] != r:
                cfg = case["envs"][i]
                others = [case["envs"][j] for j in used if j != i]
                same_delims = any(o.get("delims") == cfg.get("delims") for o in others)
                what = []
                if same_delims:
                    what.append("another-environment-with-equal-delimiters")
                if cfg.get("own_tag") or any(o.get("own_tag") for o in others):
                    what.append("own-tag")
                if cfg.get("own_filter") or any(o.get("own_filter") for o in others):
                    what.append("own-filter")
                if any(o.get("mode") != cfg.get("mode") for o in others):
                    what.append("different-tolerance")
                ctx.violation(
                    "environment-not-independent:" + ("+".join(what) or "different-delimiters"),
                    f"environment {i} {cfg} renders {case['steps'][k][1]!r:.200} to {r} when used alone in a fresh process but to {together['results'][k]} when "
                    f"{len(used) - 1} other environments {others!r:.400} are created and used in the same process (step {k} of {len(case['steps'])})",
                )
                return
    h = core.stable_hash(case)
    if len(used) >= 2 and h not in ctx.nontrivial_hashes:
        ctx.nontrivial_hashes.add(h)
        if len(ctx.samples) < ctx.max_samples and len(ctx.nontrivial_hashes) in (1, 10, 40):
            ctx.samples.append(case)


# ------------------------------------------------------------------------------ part C: implicit environments (liquid.Template)

def _template_kwargs(o: dict[str, Any]) -> dict[str, Any]:
    from liquid import Mode
    from liquid import undefined as U

    kw: dict[str, Any] = {}
    for k in ("extra", "strict_filters", "autoescape", "template_comments"):
        if k in o:
            kw[k] = o[k]
    if "mode" in o:
        kw["tolerance"] = {"strict": Mode.STRICT, "lax": Mode.LAX, "warn": Mode.WARN}[o["mode"]]
    if "undefined" in o:
        kw["undefined"] = {"default": U.Undefined, "strict": U.StrictUndefined, "falsy_strict": U.FalsyStrictUndefined}[o["undefined"]]
    if "delims" in o:
        d = o["delims"]
        kw.update(tag_start_string=d[0], tag_end_string=d[1], statement_start_string=d[2], statement_end_string=d[3])
    return kw


def job_implicit(payload: dict[str, Any]) -> dict[str, Any]:
    """Templates made with the package-level liquid.Template(source, **options): each set of options gets a memoised implicit environment."""
    import warnings

    import liquid

    tpls: dict[int, Any] = {}
    out: dict[str, Any] = {}
    warnings.simplefilter("ignore")
    for step in payload["steps"]:
        if step[0] == "create":
            _, i, source, opts = step
            o = drv.call(liquid.Template, source, **_template_kwargs(opts))
            tpls[i] = o
        else:
            _, i, data, key = step
            t = tpls.get(i)
            if t is None or not t.ok:
                out[key] = ["create-failed", None if t is None else t.err_class]
                continue
            r = drv.render(t.value, V.dec(data))
            out[key] = list(r.key()) if r.ok else ["err", r.err_class]
    return {"results": out, "implicit_env_hits": _memo(liquid.environment.get_implicit_environment, "hits"),
            "implicit_env_size": _memo(liquid.environment.get_implicit_environment, "currsize")}


def judge_implicit(ctx: core.Ctx, case: dict[str, Any]) -> None:
    together = zygote.run("harness.checks.c11", "job_implicit", {"steps": case["steps"]}, watchdog_s=120)
    ctx.count("implicit_history_pairs")
    ctx.count("implicit_env_memo_hits_in_children", together["implicit_env_hits"])
    ctx.observe("max_live_implicit_envs", together["implicit_env_size"])
    ctx.evaluations += 1
    idxs = sorted({s[1] for s in case["steps"]})
    for i in idxs:
        own = [s for s in case["steps"] if s[1] == i]
        alone = zygote.run("harness.checks.c11", "job_implicit", {"steps": own}, watchdog_s=120)
        for key, r in alone["results"].items():
            ctx.count("implicit_renders_compared")
            if together["results"].get(key) != r:
                create = next(s for s in own if s[0] == "create")
                others = [s[3] for s in case["steps"] if s[0] == "create" and s[1] != i]
                diff = sorted({k for o in others for k in set(o) | set(create[3]) if o.get(k) != create[3].get(k)})
                ctx.violation(
                    "implicit-environment-not-independent:" + ("+".join(diff[:3]) or "same-options"),
                    f"liquid.Template({create[2]!r:.120}, **{create[3]}) renders to {r} when it is the only template of the process but to {together['results'].get(key)} when templates with the "
                    f"options {others!r:.300} are also created in the process (order of steps: {[(s[0], s[1]) for s in case['steps']]})",
                )
                return
    h = core.stable_hash(case)
    if len(idxs) >= 2 and h not in ctx.nontrivial_hashes:
        ctx.nontrivial_hashes.add(h)


def judge(ctx: core.Ctx, case: dict[str, Any]) -> None:
    if case["kind"] == "rewrite":
        judge_rewrite(ctx, case)
    elif case["kind"] == "wsgrid":
        judge_wsgrid(ctx, case)
    elif case["kind"] == "implicit":
        judge_implicit(ctx, case)
    else:
        judge_history(ctx, case)


# ------------------------------------------------------------------------------ workload

def gen_rewrite(rng) -> dict[str, Any] | None:
    flags = {f: True for f in ("ternary_expressions", "logical_not_operator", "logical_parentheses") if rng.random() < 0.3}
    cfg = tpl.GenCfg(ternary="ternary_expressions" in flags, logical_not="logical_not_operator" in flags, parens="logical_parentheses" in flags,
                     comments=False, template_comments=True, max_nodes=12, wild=0.03, allow_include=False, allow_render=False)
    # (no '{', '}', '%', '#': the default delimiters must not collide with the text either)
    cfg.text_alphabet = ["a", "b", " ", "\n", "x-y", ".", "1", "é", "  ", "<", "$", "(", "*", "[", "\\", "^", "+", "?"]
    g = tpl.Gen(rng, cfg)
    nodes = g.template(1, 5)
    # inline comments inside liquid tags and stand-alone inline comment tags are part of the quantifier
    if rng.random() < 0.3:
        nodes.insert(rng.randrange(len(nodes) + 1), ["liquid", [["inline", rng.choice(["note", "a b", "x"])], ["out", rng.choice(["s", "n", "'lit'"])], ["inline", "end"]]])
    if rng.random() < 0.2:
        nodes.insert(rng.randrange(len(nodes) + 1), ["inline", rng.choice(["note", "a b"])])
    if rng.random() < 0.3:
        nodes.insert(rng.randrange(len(nodes) + 1), ["tcomment", rng.choice(["note", "a b", ""])])
    seed = rng.randrange(1 << 30)
    wc, tight = rng.choice([0.0, 0.2]), rng.choice([0.0, 0.3])
    body = tpl.print_nodes(nodes, style(SENT, wc, tight), random.Random(seed))
    forbidden = set(body) - set(SENT)
    for _ in range(30):
        ds = gen_delims(rng, forbidden)
        if ds:
            break
    else:
        return None
    if any(d[0].isalnum() or d[0] == "_" for d in (ds[1], ds[3], ds[5])):
        # an end delimiter that starts with a word character would merge with an unpadded tag name or expression: always pad
        tight = 0.0
    return {"kind": "rewrite", "nodes": nodes, "print_seed": seed, "wc": wc, "tight": tight, "delims": ds, "flags": flags, "data": V.enc(tpl.make_data(rng, hostile=0.0, drop=0.1)),
            "mode": rng.choice(["strict", "strict", "lax"]), "async": rng.random() < 0.15}


DELIM_SETS = [DEFAULT, ["<%", "%>", "<<", ">>", "<#", "#>"], ["[%", "%]", "[[", "]]", "[#", "#]"], ["{%", "%}", "${", "}", "{#", "#}"], ["(*", "*)", "((", "))", "(#", "#)"],
              ["{%", "%}", "{{", "}}", "/*", "*/"], ["@", "$", "^", "~", "?", "!"]]
BODIES = [
    ("T if a T y T else T n T endif T O x | upcase O", {"a": True, "x": "v"}), ("T echo x | upcase T", {"x": "e"}), ("O x | mine O", {"x": "m"}), ("T nosuch T after", {}),
    ("O a ? 'y' : 'n' O", {"a": 1}), ("O 'y' if a else 'n' O", {"a": False}), ("T if not a T N T endif T", {"a": None}), ("C hidden C shown", {}), ("T if a T", {"a": 1}),
    ("O x | nosuch O", {"x": 1}), ("T liquid\n # c\n echo x\nT", {"x": "L"}), ("T with v: x T O v O T endwith T", {"x": "W"}), ("T for i in (1..3) T O i O T endfor T", {}),
    ("text {{ x }} {% if a %} (( x )) << x >>", {"x": 1, "a": 1}), ("T assign q = x | upcase T O q O", {"x": "q"}),
    # whitespace control at the very end of one template, whitespace at the very start of another: nothing carries over between them
    ("start O x O- ", {"x": "e1"}), ("a T if a T- y T- endif T-", {"a": 1}), ("O- x O-", {"x": "e2"}), ("~ O x O tail", {"x": "s1"}), ("~ T if a T y T endif T", {"a": 1}), ("~ plain text only", {}),
    ("~ C note C- ", {}),
]


def print_body(body: str, ds: list[str]) -> str:
    out = []
    opens = {"T": True, "O": True, "C": True}
    for part in body.split(" "):
        if part in ("T", "O", "C", "T-", "O-", "C-"):
            hy = "-" if part.endswith("-") else ""
            part = part[0]
            k = {"T": 0, "O": 2, "C": 4}[part]
            out.append(ds[k] + hy + " " if opens[part] else " " + hy + ds[k + 1])
            opens[part] = not opens[part]
        elif part == "~":
            out.append(" \n  ")  # leading whitespace
        else:
            out.append(part + " ")
    return "".join(out).rstrip(" ") if body.endswith("- ") or body.endswith("-") else "".join(out)


def gen_history(rng, thorough: bool) -> dict[str, Any]:
    n = rng.choice([2, 2, 3, 4, 6])
    envs = []
    base_ds = rng.choice(DELIM_SETS)
    for i in range(n):
        ds = base_ds if rng.random() < 0.6 else rng.choice(DELIM_SETS)
        flags = {f: True for f in ("ternary_expressions", "logical_not_operator") if rng.random() < 0.3}
        envs.append({"delims": ds, "mode": rng.choice(["strict", "strict", "lax", "warn"]), "flags": flags, "extra": rng.random() < 0.4, "template_comments": rng.random() < 0.5,
                     "strict_filters": rng.random() < 0.8, "own_filter": rng.random() < 0.4, "own_tag": rng.random() < 0.4, "mark": f"E{i}"})
    if thorough and rng.random() < 0.1:
        # more live delimiter sets than the lexer / parser memo holds
        for j in range(140):
            envs.append({"delims": [f"<{j}%", f"%{j}>", f"<{j}<", f">{j}>", f"<{j}#", f"#{j}>"], "mode": "strict", "mark": f"X{j}"})
    steps = []
    for _ in range(rng.randint(4, 30) if len(envs) < 100 else 300):
        i = rng.randrange(len(envs))
        body, data = rng.choice(BODIES)
        steps.append([i, print_body(body, envs[i]["delims"]), V.enc(data), rng.random() < 0.1])
    return {"kind": "history", "envs": envs, "steps": steps, "create_up_front": rng.random() < 0.5}


IMPLICIT_SOURCES = [
    ("{{ x }}|{{ nosuch }}|{% if nosuch %}y{% endif %}", {"x": "<b>&"}), ("{{ x | upcase }}{% # c %}", {"x": "a<"}), ("{{ x | nosuchfilter }}", {"x": 1}), ("{% nosuchtag %}after{{ x }}", {"x": 2}),
    ("{# hidden #}shown{{ x }}", {"x": "'q'"}), ("{% with v: x %}{{ v }}{% endwith %}", {"x": "w"}), ("{{ xs | join: '<' }}{{ xs.first.nope }}", {"xs": ["<", ">"]}),
]


def gen_implicit(rng) -> dict[str, Any]:
    """liquid.Template() with several option sets that differ in one or two options; all templates are created before any is rendered (or not)."""
    n = rng.choice([2, 2, 3, 4, 12])
    base = {"autoescape": rng.random() < 0.5, "undefined": rng.choice(["default", "strict"]), "mode": rng.choice(["strict", "lax"]), "strict_filters": rng.random() < 0.7}
    creates, renders = [], []
    for i in range(n):
        o = dict(base)
        for k in rng.sample(["autoescape", "undefined", "mode", "strict_filters", "template_comments", "extra", "delims"], rng.choice([1, 1, 2])):
            if k in ("autoescape", "strict_filters", "template_comments", "extra"):
                o[k] = not o.get(k, False)
            elif k == "undefined":
                o[k] = "strict" if o.get(k) != "strict" else "default"
            elif k == "mode":
                o[k] = "lax" if o.get(k) != "lax" else "strict"
            else:
                o[k] = ["{%", "%}", "{{", "}}"] if i % 2 else ["<%", "%>", "<<", ">>"]
        src, data = rng.choice(IMPLICIT_SOURCES)
        if o.get("delims") and o["delims"][0] == "<%":
            src = src.replace("{%", "<%").replace("%}", "%>").replace("{{", "<<").replace("}}", ">>")
        creates.append(["create", i, src, o])
        for r in range(rng.choice([1, 2])):
            renders.append(["render", i, V.enc(data), f"{i}.{r}"])
    if rng.random() < 0.6:
        steps = creates + renders  # every template exists before the first render
    else:
        steps = []
        for c in creates:
            steps.append(c)
            steps += [r for r in renders if r[1] == c[1]][:1]
        steps += [r for r in renders if r not in steps]
    return {"kind": "implicit", "steps": steps}


def implicit_grid():
    """Every option of liquid.Template() flipped between two templates made back to back, in both orders and with a third template of the
    first option set afterwards (a memo that forgets an option in its key shows up here whichever option it is)."""
    flips = {"autoescape": (False, True), "undefined": ("default", "strict"), "mode": ("strict", "lax"), "strict_filters": (True, False), "template_comments": (False, True), "extra": (False, True)}
    for key, (v0, v1) in flips.items():
        for first, second in ((v0, v1), (v1, v0)):
            for src, data in IMPLICIT_SOURCES:
                base = {"autoescape": False, "undefined": "default", "mode": "lax", "strict_filters": True}
                o1, o2 = dict(base, **{key: first}), dict(base, **{key: second})
                steps = [["create", 0, src, o1], ["create", 1, src, o2], ["create", 2, src, o1]]
                steps += [["render", i, V.enc(data), f"{i}.0"] for i in (0, 1, 2)]
                yield {"kind": "implicit", "steps": steps}


# closing delimiters of every width combination (1-3 characters each, independently for tags, output statements and comments), one set
# whose comment delimiter holds hyphens of its own, and opening delimiters of unequal width too
WS_ENDS = {"tag": {1: "]", 2: "%]", 3: "%%]"}, "out": {1: "}", 2: "$}", 3: "$$}"}, "com": {1: ")", 2: "*)", 3: "**)"}}
WS_STARTS = {"tag": {1: "[", 2: "[%", 3: "[%%"}, "out": {1: "{", 2: "{$", 3: "{$$"}, "com": {1: "(", 2: "(*", 3: "(**"}}
WS_BODIES = [
    ("a O x O-  \n b", {"x": 1}), ("a  O- x O   b", {"x": 1}), ("a  O- x O-   b", {"x": 1}), ("a C note C-   b", {}), ("a  C- note C  b", {}), ("a  C- note C-  b", {}),
    ("a T assign v = 1 T-  b", {}), ("a  T- assign v = 1 T  b", {}), ("a T if a T-  y  T- endif T-  b", {"a": 1}), ("a T raw T-  r  T- endraw T-  b", {}), ("a T raw T  r  T endraw T  b", {}),
    ("a T doc T-  d  T enddoc T-  b", {}), ("a T comment T  c  T endcomment T-  b", {}), ("a T liquid\n echo x\n T-  b", {"x": 2}), ("a T # note T-  b", {}),
    ("a O x O  b C n C  c T echo x T  d", {"x": 3}), ("a O x O-  b C n C-  c T echo x T-  d", {"x": 3}), ("a  O- x O  b  C- n C  c  T- echo x T  d", {"x": 3}),
    ("O x O-  O x O-  C n C-  O x O", {"x": 4}),
]


def ws_grid():
    sets = []
    for tw, ow, cw in itertools.product((1, 2, 3), repeat=3):
        sets.append(["[%", WS_ENDS["tag"][tw], "{$", WS_ENDS["out"][ow], "(*", WS_ENDS["com"][cw]])
        sets.append([WS_STARTS["tag"][tw], "%]", WS_STARTS["out"][ow], "$}", WS_STARTS["com"][cw], "*)"])
    sets.append(["<%", "%>", "<<", ">>", "<!--", "--!"])
    sets.append(["<%", "%>", "<<", "->>", "<!", "-!"])
    sets.append(["<%", "-%>", "<<", ">", "<!", "!!!>"])
    for ds in sets:
        for body, data in WS_BODIES:
            yield {"kind": "wsgrid", "delims": ds, "body": body, "data": V.enc(data)}


def judge_wsgrid(ctx: core.Ctx, case: dict[str, Any]) -> None:
    ds, body, data = case["delims"], case["body"], V.dec(case["data"])
    sd, sc = print_body(body, DEFAULT), print_body(body, ds)
    cfg = {"template_comments": True, "mode": "strict"}
    a = drv.parse_and_render(drv.make_env(dict(cfg, delims=DEFAULT)), sd, data)
    b = drv.parse_and_render(drv.make_env(dict(cfg, delims=ds)), sc, data)
    ctx.count("whitespace_grid_rewrites")
    if a.key() == b.key():
        ctx.ok((sd, tuple(ds)), nontrivial=a.ok and "-" in sd)
        return
    kinds = "+".join(sorted({{"O": "output", "C": "comment", "T": "tag"}[p[0]] for p in body.split(" ") if p in ("T-", "O-", "C-")}))
    ctx.evaluations += 1
    ctx.violation(f"rewrite-differs:whitespace-control:{kinds}", f"default delimiters: {sd!r} -> {a.brief()}; delimiters {ds}: {sc!r} -> {b.brief()}", {"default": sd, "custom": sc, "delims": ds})


def paired_environment_histories():
    """Two environments of the same class with the same delimiters that differ in exactly one thing (a tag of their own, the extra tags, a
    filter of their own, tolerance, template comments, an expression flag), used alternately, in both orders of creation; for the stock
    Environment and for liquid.future.Environment."""
    bodies = [BODIES[1], BODIES[11], BODIES[2], BODIES[3], BODIES[7], BODIES[5], BODIES[0]]
    diffs = [{"own_tag": True}, {"extra": True}, {"own_filter": True}, {"mode": "lax"}, {"template_comments": True}, {"flags": {"ternary_expressions": True}}]
    for future in (False, True):
        for ds in (DELIM_SETS[0], DELIM_SETS[1]):
            for d in diffs:
                for order in (0, 1):
                    plain = {"delims": ds, "mode": "strict", "flags": {}, "extra": False, "template_comments": False, "strict_filters": True, "mark": "P", "future": future}
                    other = dict(plain, mark="Q", **d)
                    envs = [plain, other] if order == 0 else [other, plain]
                    steps = []
                    for i in (0, 1, 0, 1):
                        for body, data in bodies:
                            steps.append([i, print_body(body, ds), V.enc(data), False])
                    yield {"kind": "history", "envs": envs, "steps": steps, "create_up_front": bool(order)}


def cases(ctx: core.Ctx):
    rng = ctx.rng("cases")
    for gi, c in enumerate(paired_environment_histories()):
        if gi % ctx.nshards == ctx.shard:
            yield c
    for gi, c in enumerate(ws_grid()):
        if gi % ctx.nshards == ctx.shard:
            yield c
    for gi, c in enumerate(implicit_grid()):
        if gi % ctx.nshards == ctx.shard and (ctx.tier != "quick" or gi % 2 == 0):
            yield c
    n = ctx.budget(2200, 250_000)
    for i in range(n):
        if i % 40 == 20:
            yield gen_implicit(rng)
            continue
        if i % 40 == 0:
            yield gen_history(rng, ctx.tier == "thorough")
        else:
            c = gen_rewrite(rng)
            if c is None:
                ctx.count("rewrite_rejected:no-collision-free-delimiters-found")
                continue
            yield c
