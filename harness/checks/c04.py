"""C04 Serialising a template back to source preserves its meaning.

Monitor: M1 on str(T), from_string(str(T)), renders of T and T2 on discriminating data.
Oracle : reparse succeeds; same outcome for every data set; str(T2) == str(T).
"""

from __future__ import annotations

import itertools
import re
from typing import Any

from liquid import DictLoader

from harness import core, drv, shrink
from harness.gen import tpl
from harness.gen import values as V

PROP = "C04"
TECHNIQUE = "runtime round-trip monitor: parse -> str() -> reparse, differential render on discriminating data, idempotence"
RULE = (
    "case = template over the standard tags of the property (if/elsif/else, unless, case/when, for/else with limit/offset/"
    "reversed, tablerow, capture, assign, echo, cycle +- group, increment, decrement, ifchanged, include, render, liquid, "
    "comment, raw) with not/parentheses/ternary enabled; boolean trees to depth 3 are enumerated with ALL truth assignments "
    "of their variables; string literals with quotes, backslashes and newlines; bracketed/nested paths. Only sources that "
    "parse in strict mode are judged. Non-trivial = original renders successfully on >= 1 data set with non-empty output."
    " Rounds 5-6 added enumerated families: every ordered pair of infix operators in five groupings over a 5x5x5 value grid; names ending in ? or holding hyphens and paths nested once and twice in 33 positions; raw bodies at markup boundaries."
    " Round 7 added: number literals (tiny / huge / trailing-zero floats) in 11 positions."
)
REQUIRED = [
    ("liquid/template.py", "BoundTemplate.__str__"),
    ("liquid/builtin/expressions/logical.py", "BooleanExpression.__str__"),
    ("liquid/builtin/expressions/primitive.py", "Literal.__str__"),
    ("liquid/builtin/expressions/path.py", "Path.__str__"),
    ("liquid/builtin/expressions/loop.py", "LoopExpression.__str__"),
    ("liquid/builtin/tags/cycle_tag.py", "CycleNode.__str__"),
    ("liquid/builtin/tags/tablerow_tag.py", "TablerowNode.__str__"),
    ("liquid/builtin/tags/ifchanged_tag.py", "IfChangedNode.__str__"),
]
_ADDR = re.compile(r" at 0x[0-9a-f]+")

FLAGS = {"ternary_expressions": True, "logical_not_operator": True, "logical_parentheses": True}
PARTIALS = {"p": "[{{ p }}|{{ v }}|{{ item }}|{{ arg }}]", "q": "<{{ q }}{{ s }}>"}
STD_TAGS = {"if", "unless", "case", "for", "tablerow", "capture", "assign", "echo", "cycle", "increment", "decrement", "ifchanged",
            "include", "render", "liquid", "comment", "raw", "inline", "break", "continue"}

_env = None


def env():
    global _env
    if _env is None:
        _env = drv.make_env({"flags": FLAGS}, loader=DictLoader(dict(PARTIALS)))
    return _env


def construct_kind(src: str) -> str:
    """Mechanism id: the most specific construct of the (small) witness."""
    if re.search(r"\b(nil|null)\b", src):
        return "nil-literal"
    if re.search(r"(?<![\w.'\"])\d+[A-Za-z_]\w*", src):
        return "digit-leading-word"  # e.g. `3nil`: lexed as one word, parsed as a path whose root is not an identifier
    if re.search(r"\{%-?\s*raw", src):
        return "raw"
    if re.search(r"\(\s*[\w.\[\]'\"-]+\s*\.\.", src) and re.search(r"\b(and|or|not)\b|[<>=!]=?|contains", src):
        return "range-operand-in-logical-expression"
    for pat, name in (
        (r"\{%-?\s*raw", "raw"), (r"\{%-?\s*tablerow", "tablerow"), (r"\{%-?\s*ifchanged", "ifchanged"), (r"\{%-?\s*cycle", "cycle"),
        (r"\{%-?\s*liquid", "liquid"), (r"\{%-?\s*comment|\{%-?\s*#", "comment"), (r"\{%-?\s*case", "case"), (r"\{%-?\s*for", "for"),
        (r"\{%-?\s*(include|render)", "partial"), (r"\{%-?\s*capture", "capture"), (r"\{%-?\s*unless", "unless"),
    ):
        if re.search(pat, src):
            return name
    if re.search(r"\band\b|\bor\b|\bnot\b", src):
        return "logical"
    if re.search(r"\bif\b.*\belse\b|\{\{[^}]*\bif\b", src):
        return "ternary"
    if re.search(r"['\"]", src) and re.search(r"\[\s*['\"]", src):
        return "quoted-path"
    if re.search(r"\{\{-?\s*\[|\[\w", src):
        return "bracketed-path"
    if re.search(r"['\"]", src):
        return "string-literal"
    if "{%" in src:
        m = re.search(r"\{%-?\s*(\w+)", src)
        return m.group(1) if m else "tag"
    return "output"


def failure(src: str, datas: list[Any]):
    """Run the round trip; return None (held), ("skip",) or (failure_kind, message, detail)."""
    e = env()
    o = drv.parse(e, src)
    if not o.ok:
        return ("skip",)
    t1 = o.value
    s1o = drv.call(str, t1)
    if not s1o.ok:
        return (f"str-raises-{s1o.err_class}", f"str(template) raised {s1o.err_class}: {s1o.exc}", None)
    s1 = s1o.value
    o2 = drv.parse(e, s1)
    if not o2.ok:
        return ("reparse-error", f"str() of {src!r:.150} is {s1!r:.150}, which does not parse: {o2.err_class}: {drv.safe_str(o2.exc)[:80]}", {"str": s1})
    t2 = o2.value
    any_ok = False
    for dj in datas:
        data = V.dec(dj)
        r1 = drv.render(t1, data)
        r2 = drv.render(t2, data)
        if r1.key() != r2.key():
            return ("output-differs", f"{src!r:.150} renders {r1.brief()} but its str() {s1!r:.150} renders {r2.brief()}", {"str": s1, "data": dj})
        if r1.ok and r1.value:
            any_ok = True
    s2 = str(t2)
    if _ADDR.sub("", s2) != _ADDR.sub("", s1):
        return ("not-idempotent", f"str(reparsed) {s2!r:.150} != str(original) {s1!r:.150}", {"s1": s1, "s2": s2})
    return ("held", any_ok, len(datas))


def _reason(f) -> str:
    """For a re-parse error: the parser's own message (first line, positions and quoted text dropped); otherwise nothing further."""
    if f[0] != "reparse-error":
        return ""
    m = re.search(r"does not parse: (\w+): ([^\n]*)", f[1])
    return re.sub(r"'[^']*'|\d+", "_", m.group(1) + ":" + m.group(2)) if m else ""


def judge(ctx: core.Ctx, case: dict[str, Any]) -> None:
    src = case["source"]
    f = failure(src, case["datas"])
    if f[0] == "skip":
        ctx.count("original_not_parsable_skipped")
        return
    ctx.count("roundtrips")
    if f[0] == "held":
        ctx.count("render_pairs", f[2])
        ctx.ok((src,), nontrivial=f[1])
        return
    fkind = f[0]

    def same_failure(g) -> bool:
        # the same kind of failure *for the same reason*: a shrinker that only keeps the kind drifts to whatever else fails to re-parse
        # (deleting the characters between `0` and `nil` manufactures the digit-leading word `0nil`)
        return g[0] == fkind and _reason(g) == _reason(f)

    small = shrink.shrink_source(src, lambda s2: same_failure(failure(s2, case["datas"])))
    f2 = failure(small, case["datas"])
    if not same_failure(f2):
        small, f2 = src, f
    ctx.evaluations += 1
    ctx.violation(f"{fkind}:{case.get('kind') or construct_kind(small)}", f2[1] + f" [shrunk witness: {small!r:.200}]", {"shrunk": small, "detail": f2[2]})


# --------------------------------------------------------------------- generators

BOOL_VARS = ["a", "b", "c", "d"]


def bool_trees(depth: int):
    """All and/or/not/paren trees over distinct variable slots up to a depth (as source strings + nvars)."""
    if depth == 0:
        yield "V", 1
        return
    yield from bool_trees(depth - 1)
    subs = list(bool_trees(depth - 1))
    for (l, nl), (r, nr) in itertools.product(subs, subs):
        if nl + nr > 4:
            continue
        for op in ("and", "or"):
            yield f"{l} {op} {r}", nl + nr
            yield f"({l}) {op} {r}", nl + nr
            yield f"{l} {op} ({r})", nl + nr
    for s, n in subs:
        yield f"not ({s})", n
        if " " not in s:
            yield f"not {s}", n


def instantiate(tree: str) -> tuple[str, int]:
    i = 0
    out = []
    for ch in tree:
        if ch == "V":
            out.append(BOOL_VARS[i])
            i += 1
        else:
            out.append(ch)
    return "".join(out), i


def truth_datas(nvars: int) -> list[Any]:
    return [V.enc(dict(zip(BOOL_VARS, bits))) for bits in itertools.product([True, False], repeat=nvars)]


INFIX_OPS = ["==", "!=", "<", "<=", ">", ">=", "contains", "and", "or"]
INFIX_DOMAIN = [1, True, False, "ab", "a"]
INFIX_DATAS = [V.enc(dict(zip("abc", vs))) for vs in itertools.product(INFIX_DOMAIN, repeat=3)]

STRING_LITS = ["", "a", "x y", 'q"uote', "it's", "back\\slash", "tab\there", "\\n", "é", "a\nb", "{{", "%}", "#", " lead", "%(x)s", "\\'", "k", "title", "..", "a..b", "(1..2)", "(", ")", "a)"]


def data_sets(rng) -> list[Any]:
    out = []
    for _ in range(3):
        d = tpl.make_data(rng, hostile=0.05, drop=0.15)
        d.update({"a": rng.choice([True, False, None, 1]), "b": rng.choice([True, False]), "c": rng.choice([True, False, "x"]), "pname": "p",
                  "a b": "spaced", "s": rng.choice(["k", "a b", "title", "x"])})
        out.append(V.enc(d))
    out.append(V.enc({}))
    return out


def gen_case(rng) -> dict[str, Any]:
    cfg = tpl.GenCfg(ternary=True, logical_not=True, parens=True, partial_names=["p", "q"], tags=STD_TAGS, max_nodes=10, wild=0.05,
                     string_lits=STRING_LITS, weird_idents=True, wide_floats=True)
    g = tpl.Gen(rng, cfg)
    nodes = g.template(1, 4)
    src = tpl.print_nodes(nodes, tpl.Style(wc=0.15, tight=0.2), rng)
    return {"source": src, "datas": data_sets(rng)}


HAND = [
    "{% if (a and b) or c %}y{% else %}n{% endif %}", "{% if a and (b or c) %}y{% else %}n{% endif %}", "{% if not (a or b) and c %}y{% else %}n{% endif %}",
    "{% if not a and b %}y{% else %}n{% endif %}", "{{ 'it\"s' }}{{ \"it's\" }}", "{{ 'back\\slash' }}", "{{ 'a\nb' }}", "{{ ['a b'] }}", "{{ [s] }}", "{{ d['x y'] }}{{ d[s] }}",
    "{{ d[\"x y\"].z }}", "{% tablerow i in (1..3) cols: 2 %}{{ i }}{% endtablerow %}", "{% ifchanged %}{{ a }}{% endifchanged %}", "{% raw %}{{ a }}{% endraw %}",
    "{% cycle 'g': 1, 2 %}{% cycle 'g': 1, 2 %}{% cycle s: 1, 2 %}", "{% cycle 1, 2 %}", "{% for i in (1..5) limit: 2 offset: 1 reversed %}{{ i }}{% else %}e{% endfor %}",
    "{% for i in xs offset: continue %}{{ i }}{% endfor %}", "{% comment %}x{% endcomment %}{% # inline %}", "{% liquid\nassign v = 1\necho v\n%}",
    "{{ a if b else c | upcase || append: 'x' }}", "{% case a %}{% when 1, 'x' or true %}w{% else %}e{% endcase %}", "{% include 'p' with xs[0] as v, arg: 1 %}",
    "{% render 'p' for xs as item, arg: 'z' %}", "{% increment c %}{% decrement c %}", "{% capture v %}x{{ a }}{% endcapture %}{{ v }}", "{% echo a | default: 'x', allow_false: true %}",
    "{% raw %}a{{% endraw %}{{ a }}", "{% raw %}a{{% endraw %}{% if true %}b{% endif %}", "a{% raw %}{{% endraw %}%}", "{% raw %}{{% endraw %}% assign v = 1 %}[{{ v }}]", "{% raw %}{{% endraw %}{% raw %}{{% endraw %} a }}",
    "{% raw %}{{% endraw %}# c #}", "x{% raw %}{{% endraw %}{% raw %}%{% endraw %} assign v = 2 {% raw %}%}{% endraw %}[{{ v }}]",
    "{% unless a %}u{% elsif b %}e{% else %}x{% endunless %}", "{{ (1..n) | join: '-' }}", "{{ -1.5 | abs }}{{ 1.0 }}", "{{ nil }}{{ true }}{{ empty }}{{ blank }}",
    "{% if a == empty or b == blank %}y{% endif %}", "{{ a | where: 'k', true }}", "{%- if a -%} x {%- endif -%}", "{% doc %}d{% enddoc %}",
]


# identifiers that are words to the expression tokenizer but not plain names (a trailing question mark, hyphens), and paths nested in
# brackets once and twice, in every place an expression can stand
ODD_NAMES = ["ok?", "in-stock?", "k", "a-b"]
ODD_DATA = {"ok?": "a", "in-stock?": "k", "k": "a", "a-b": "ok?", "h": {"a": "HA", "k": "HK", "ok?": "HOK", "in-stock?": "HIN", "a-b": "HAB"}, "xs": [[0, 1], [2]], "a": [10, 20, 30], "i": 1,
            "ys": {"a": [1, 2], "k": [3]}}
ODD_SHAPES = ["{{ N }}", "{{ h.N }}", "{{ h[N] }}", "{{ h[h[N]] }}", "{{ h[[N]] }}", "{{ [N] }}", "{{ [[N]] }}", "{{ a[[i]] }}", "{{ a[[1]] }}", "{{ [[0]] }}", "{{ a[i] }}", "{{ xs[i][0] }}", "{{ h | map: N }}", "{{ 'x' | append: N }}",
              "{{ 'x' | append: h[N] }}", "{{ 'x' | default: N, allow_false: N }}", "{% include 'p' with N %}", "{% include 'p' with h[N] as v %}", "{% render 'p' with N as v %}", "{% include 'p' for ys[N] as item %}",
              "{% render 'p', arg: N, v: h[N] %}", "{% assign v = N %}{{ v }}", "{% assign v = h[N] | upcase %}{{ v }}", "{% for i in ys[N] %}{{ i }}{% endfor %}", "{% cycle N, h[N] %}", "{% case N %}{% when h[N], N %}w{% else %}e{% endcase %}",
              "{% if N == h[N] or h[N] %}y{% endif %}", "{{ N if h[N] else h[[N]] }}", "{% echo h[N] | append: N %}", "{% tablerow i in ys[N] cols: i %}{{ i }}{% endtablerow %}", "{% capture v %}{{ h[N] }}{% endcapture %}{{ v }}",
              "{% liquid\nassign v = h[N]\necho v\n%}", "{% unless h[N] %}u{% else %}{{ h[N] }}{% endunless %}", "{% if h[N] contains N %}c{% endif %}", "{% for x in (i..a[[i]]) limit: a[i] %}{{ x }}{% endfor %}"]


# number literals whose shortest text is not their plain decimal text (tiny and huge floats, trailing zeros, signs), in every place a literal
# can stand; x takes values on both sides of each literal so that a literal that loses digits flips a comparison
NUMBER_LITS = ["0.0000123456", "0.0000005", "0.00001", "0.000015", "-0.000000123", "0.1", "3.0", "1.10", "-1.5", "123456789.125", "12345678901234567890.5", "0.30000000000000004", "1.0000001", "100000000000000000000", "-0.0", "0.5"]
NUMBER_SHAPES = ["{{ L }}", "{% if x < L %}a{% else %}b{% endif %}", "{% if x == L %}a{% else %}b{% endif %}", "{{ x | plus: L }}", "{% assign v = L %}[{{ v }}]", "{% case x %}{% when L %}w{% else %}e{% endcase %}", "{{ 1 | times: L }}",
                 "{% liquid\n echo L\n%}", "{{ 'a' if x >= L else 'b' }}", "{% include 'p', v: L %}", "{% cycle L, 2 %}"]
NUMBER_DATAS = [{"x": 0}, {"x": 0.00001}, {"x": 0.0000004}, {"x": 1.0e-7}, {"x": -1}, {"x": 1e21}]


def cases(ctx: core.Ctx):
    for gi, (shape, lit) in enumerate(itertools.product(NUMBER_SHAPES, NUMBER_LITS)):
        if gi % ctx.nshards == ctx.shard:
            yield {"source": shape.replace("L", lit), "datas": [V.enc(dict(d)) for d in NUMBER_DATAS] + [V.enc({"x": float(lit)})], "kind": "number-literals"}
    for gi, (shape, name) in enumerate(itertools.product(ODD_SHAPES, ODD_NAMES)):
        if gi % ctx.nshards == ctx.shard:
            yield {"source": shape.replace("N", name), "datas": [V.enc(ODD_DATA), V.enc({})], "kind": "odd-names-and-nested-paths"}
    rng = ctx.rng("cases")
    for s in HAND:
        yield {"source": s, "datas": data_sets(rng)}
    # exhaustive boolean trees with all truth assignments
    depth = 2 if ctx.tier == "quick" else 3
    trees = list(bool_trees(depth))
    if ctx.tier == "quick" and len(trees) > 1500:
        trees = trees[:300] + rng.sample(trees[300:], 1200)
    for i, (tree, _n) in enumerate(trees):
        if i % ctx.nshards != ctx.shard:
            continue
        expr, n = instantiate(tree)
        wrap = i % 4
        if wrap == 0:
            src = "{% if " + expr + " %}T{% else %}F{% endif %}"
        elif wrap == 1:
            src = "{% unless " + expr + " %}T{% else %}F{% endunless %}"
        elif wrap == 2:
            src = "{{ 'T' if " + expr + " else 'F' }}"
        else:
            src = "{% if false %}{% elsif " + expr + " %}T{% else %}F{% endif %}"
        yield {"source": src, "datas": truth_datas(n), "kind": "logical"}
    # every pair of infix operators over three operands, in each grouping, over a small value domain: associativity and precedence of the
    # comparison / membership printer
    j = 0
    for op1, op2 in itertools.product(INFIX_OPS, INFIX_OPS):
        for shape in ("(a {1} b) {2} c", "a {1} (b {2} c)", "a {1} b {2} c", "not (a {1} b) {2} c", "(a {1} b) {2} (c {1} a)"):
            j += 1
            if j % ctx.nshards != ctx.shard:
                continue
            expr = shape.replace("{1}", op1).replace("{2}", op2)
            src = ["{% if " + expr + " %}T{% else %}F{% endif %}", "{{ 'T' if " + expr + " else 'F' }}", "{% assign r = 'T' if " + expr + " else 'F' %}{{ r }}"][j % 3]
            yield {"source": src, "datas": INFIX_DATAS, "kind": "infix-operands"}
    ctx.extra["infix_operator_pairs"] = len(INFIX_OPS) ** 2
    ctx.extra["boolean_trees_enumerated_depth"] = depth
    ctx.extra["boolean_trees"] = len(trees)
    for _ in range(ctx.budget(6000, 500_000)):
        yield gen_case(rng)
