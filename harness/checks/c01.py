"""C01 Synchronous and asynchronous APIs behave identically.

Monitor: M1 boundary recorder on render/render_async, get_template/get_template_async,
analyze/analyze_async.  Oracle: differential; each side owns its loader instance.
"""

from __future__ import annotations

import itertools

import os
import shutil
import tempfile
from typing import Any

from liquid import CachingChoiceLoader, CachingDictLoader, CachingFileSystemLoader, ChoiceLoader, DictLoader, FileSystemLoader
from liquid.builtin.loaders.mixins import CachingLoaderMixin
from liquid.exceptions import TemplateNotFoundError
from liquid.loader import TemplateSource

from harness import core, drv
from harness.gen import tpl
from harness.gen import values as V

import re

_ADDR = re.compile(r" at 0x[0-9a-f]+")
PROP = "C01"
TECHNIQUE = "differential runtime monitor (sync vs async twin executions at the API boundary)"
RULE = (
    "case = random template set (main + 0-3 partials, built-in and extra tags/filters/expressions, random feature flags) + "
    "JSON-like data + loader kind (dict, caching dict, namespaced caching dict, choice, caching choice, file system, caching "
    "file system). Both sides get their own environment and loader. Judged: get_template vs get_template_async (name, str, "
    "path, probe render), render vs render_async (output or error class), analyze vs analyze_async (all five maps incl. "
    "spans) and one of the convenience methods variables / variable_paths / variable_segments / global_* / filter_names / tag_names vs its "
    "_async twin, with and without partials. One case in eight is an extends chain from C18's generator (nested blocks, block.super, "
    "required blocks, cycles) behind a dict, choice, file-system or caching loader. Non-trivial = both renders completed with non-empty output or a Liquid error and the template has >= 1 tag."
    " Rounds 5-6 added enumerated families: include / render with a bound variable and a same-named keyword argument; conditions with effects (block.super in if / elsif / unless / case / ternary); macro parameters named args / kwargs."
    " Round 7 added: loop arguments given as variables of 16 value kinds."
)
REQUIRED = [
    ("liquid/template.py", "BoundTemplate.render_async"),
    ("liquid/context.py", "RenderContext.get_async"),
    ("liquid/builtin/expressions/path.py", "Path.evaluate_async"),
    ("liquid/builtin/tags/if_tag.py", "IfNode.render_to_output_async"),
    ("liquid/builtin/tags/include_tag.py", "IncludeNode.render_to_output_async"),
    ("liquid/builtin/tags/render_tag.py", "RenderNode.render_to_output_async"),
    ("liquid/loader.py", "BaseLoader.load_async"),
    ("liquid/builtin/loaders/mixins.py", "CachingLoaderMixin.load_async"),
    ("liquid/static_analysis.py", "analyze_async"),
    ("liquid/extra/tags/extends_tag.py", "ExtendsNode.render_to_output_async"),
    ("liquid/extra/tags/extends_tag.py", "BlockNode.render_to_output_async"),
    ("liquid/extra/tags/extends_tag.py", "ExtendsNode.children_async"),
]
MIN_COUNTERS = {"analysis_convenience_pairs": 200, "inherit_render_pairs": 200}
ASSUMPTIONS = ["time-dependent constructs (now/today) are not generated", "each side owns a fresh loader instance"]


class NsDictLoader(DictLoader):
    """Namespace-aware dict loader: the documented use of kwargs/context to narrow the search space."""

    def _ns(self, context, kwargs):
        if "ns" in kwargs:
            return str(kwargs["ns"])
        if context is not None:
            try:
                return str(context.globals["ns"])
            except KeyError:
                return None
        return None

    def get_source(self, env, template_name, *, context=None, **kwargs):
        ns = self._ns(context, kwargs)
        if ns is not None and f"{ns}/{template_name}" in self.templates:
            return TemplateSource(self.templates[f"{ns}/{template_name}"], f"{ns}/{template_name}", None)
        return super().get_source(env, template_name, context=context, **kwargs)


class CachingNsDictLoader(CachingLoaderMixin, NsDictLoader):
    def __init__(self, templates, **kw):
        super().__init__(**kw)
        NsDictLoader.__init__(self, templates)


LOADER_KINDS = ["dict", "caching_dict", "ns_caching_dict", "choice", "caching_choice", "fs", "caching_fs", "fs_ext"]


def make_loader(kind: str, templates: dict[str, str], tmpdir: str | None):
    if kind == "dict":
        return DictLoader(dict(templates))
    if kind == "caching_dict":
        return CachingDictLoader(dict(templates), capacity=2)
    if kind == "ns_caching_dict":
        return CachingNsDictLoader(dict(templates), namespace_key="ns", capacity=3)
    if kind in ("choice", "caching_choice"):
        names = sorted(templates)
        a = {k: templates[k] for k in names[::2]}
        b = {k: templates[k] for k in names[1::2]}
        b.update({k: "SHADOWED" for k in list(a)[:1]})
        if kind == "choice":
            return ChoiceLoader([DictLoader(a), DictLoader(b)])
        return CachingChoiceLoader([DictLoader(a), DictLoader(b)], capacity=2)
    assert tmpdir is not None
    if kind == "fs":
        return FileSystemLoader(tmpdir)
    if kind == "fs_ext":
        return FileSystemLoader(tmpdir, ext=".liquid")
    if kind == "caching_fs":
        return CachingFileSystemLoader(tmpdir, capacity=2)
    raise ValueError(kind)


def write_tree(tmpdir: str, templates: dict[str, str]) -> None:
    for name, src in templates.items():
        p = os.path.join(tmpdir, name)
        os.makedirs(os.path.dirname(p), exist_ok=True)
        with open(p, "w", encoding="utf-8") as fd:
            fd.write(src)


def analysis_summary(a) -> Any:
    def vmap(m):
        return {k: sorted((str(v), v.span.template_name, v.span.index) for v in vs) for k, vs in m.items()}

    def smap(m):
        return {k: sorted((s.template_name, s.index) for s in vs) for k, vs in m.items()}

    return [vmap(a.variables), vmap(a.globals), vmap(a.locals), smap(a.filters), smap(a.tags)]


def judge(ctx: core.Ctx, case: dict[str, Any]) -> None:
    templates: dict[str, str] = case["templates"]
    data = V.dec(case["data"])
    kind = case["loader"]
    cfg = case["env"]
    tmpdir = None
    if kind.startswith(("fs", "caching_fs")):
        tmpdir = tempfile.mkdtemp(prefix="verif-c01-", dir=core.scratch_base())
        write_tree(tmpdir, templates)
    try:
        env_s = drv.make_env(cfg, loader=make_loader(kind, templates, tmpdir))
        env_a = drv.make_env(cfg, loader=make_loader(kind, templates, tmpdir))
        kw = dict(case.get("load_kwargs") or {})
        main = case["main"]
        reps = 2 if "caching" in kind else 1  # second round hits the cache
        for rep in range(reps):
            kw = dict(case.get("load_kwargs") or {})
            lg = (case.get("load_globals") or [None, None])[rep]
            if lg is not None:
                kw["globals"] = dict(lg)  # template globals given with the request (each round its own: the second round hits the cache)
            o_s = drv.call(env_s.get_template, main, **kw)
            o_a = drv.call_async(env_a.get_template_async, main, **kw)
            ctx.count("load_pairs")
            if o_s.ok != o_a.ok or (not o_s.ok and o_s.err_class != o_a.err_class):
                ctx.evaluations += 1
                ctx.violation(
                    f"load-outcome-differs:{kind.replace('caching_', '').replace('fs_ext', 'fs')}",
                    f"get_template -> {o_s.brief()} but get_template_async -> {o_a.brief()} (loader {kind})",
                    {"sync": o_s.brief(), "async": o_a.brief()},
                )
                return
            if not o_s.ok:
                for o in (o_s, o_a):
                    if not o.is_liquid_error:
                        ctx.count("non_liquid_error_forwarded_to_C02")
                ctx.ok(nontrivial=False)
                return
            ts, ta = o_s.value, o_a.value
            for attr, fs, fa in (
                ("name", ts.name, ta.name),
                ("str", _ADDR.sub("", str(ts)), _ADDR.sub("", str(ta))),
                ("path", str(ts.path), str(ta.path)),
                ("matter", dict(ts.matter), dict(ta.matter)),
                ("globals", dict(ts.globals), dict(ta.globals)),
            ):
                if fs != fa:
                    ctx.evaluations += 1
                    ctx.violation(
                        f"loaded-template-{attr}-differs",
                        f"template loaded via {kind}: {attr} sync={fs!r} async={fa!r} (requested {main!r})",
                    )
                    return
            # render both ways
            r_s = drv.render(ts, data)
            r_a = drv.render_async(ta, data)
            ctx.count("render_pairs")
            if case.get("family") == "inherit":
                ctx.count("inherit_render_pairs")
            ctx.observe("render_outcomes", r_s.err_class or "ok")
            if r_s.key() != r_a.key():
                both_nonliquid = (not r_s.ok and not r_s.is_liquid_error) or (not r_a.ok and not r_a.is_liquid_error)
                ctx.evaluations += 1
                ctx.violation(
                    "render-differs:" + classify_diff(r_s, r_a, templates),
                    f"render -> {r_s.brief()} but render_async -> {r_a.brief()}",
                    {"sync": r_s.brief(), "async": r_a.brief(), "non_liquid": both_nonliquid},
                )
                return
            # cross: the async-loaded template rendered synchronously must behave the same (same rendering behaviour)
            # (only without a cache: mixing sync and async requests on one caching loader is C23's subject)
            r_x = drv.render(ta, data) if "caching" not in kind else r_s
            if r_x.key() != r_s.key():
                ctx.evaluations += 1
                ctx.violation(
                    "async-loaded-template-renders-differently",
                    f"sync render of sync-loaded {r_s.brief()} vs sync render of async-loaded {r_x.brief()}",
                )
                return
        # static analysis
        if case.get("analyze", True):
            a_s = drv.call(ts.analyze)
            a_a = drv.call_async(ta.analyze_async)
            ctx.count("analyze_pairs")
            if a_s.ok and a_a.ok:
                if analysis_summary(a_s.value) != analysis_summary(a_a.value):
                    ctx.evaluations += 1
                    ctx.violation("analysis-differs", "analyze() and analyze_async() report different results", {"sync": analysis_summary(a_s.value), "async": analysis_summary(a_a.value)})
                    return
            elif a_s.ok != a_a.ok or a_s.err_class != a_a.err_class:
                ctx.evaluations += 1
                ctx.violation("analysis-outcome-differs", f"analyze -> {a_s.brief() if not a_s.ok else 'ok'} but analyze_async -> {a_a.brief() if not a_a.ok else 'ok'}")
                return
            # the convenience analysis API (one pair per case, with and without partials)
            meth = case.get("analysis_method")
            if meth:
                ip = bool(case.get("include_partials", True))
                c_s = drv.call(getattr(ts, meth), include_partials=ip)
                c_a = drv.call_async(getattr(ta, meth + "_async"), include_partials=ip)
                ctx.count("analysis_convenience_pairs")
                ctx.observe("analysis_methods", meth)
                same = (c_s.ok == c_a.ok) and ((c_s.ok and _plain(c_s.value) == _plain(c_a.value)) or (not c_s.ok and c_s.err_class == c_a.err_class))
                if not same:
                    ctx.evaluations += 1
                    ctx.violation(
                        f"analysis-differs:{meth}",
                        f"{meth}(include_partials={ip}) -> {c_s.value if c_s.ok else c_s.brief()!r} but {meth}_async -> {c_a.value if c_a.ok else c_a.brief()!r}",
                    )
                    return
        nontrivial = case.get("ntags", 0) >= 1 and (not r_s.ok or bool(r_s.value))
        ctx.ok((templates, case["data"], kind, cfg), nontrivial=nontrivial)
    finally:
        if tmpdir:
            shutil.rmtree(tmpdir, ignore_errors=True)


def _plain(v):
    """Order-preserving plain form of a convenience analysis result (lists of names, paths or segment lists)."""
    return [repr(x) for x in v]


ANALYSIS_METHODS = ["variables", "variable_paths", "variable_segments", "global_variables", "global_variable_paths", "global_variable_segments", "filter_names", "tag_names"]


def gen_inherit_case(rng) -> dict[str, Any]:
    """An extends chain (C18's generator: nested blocks, block.super, required blocks, loops around blocks, cycles, duplicates)."""
    from harness.checks import c18

    ch = c18.gen_chain(rng)
    templates = {name: c18.print_template(t) for name, t in ch["templates"].items()}
    kind = rng.choice(["dict", "caching_dict", "choice", "caching_choice", "fs", "caching_fs"])
    env = {"extra": True, "flags": {}, "mode": rng.choice(["strict", "strict", "lax", "warn"]), "autoescape": rng.random() < 0.2,
           "undefined": rng.choice(["default", "default", "strict"]), "strict_filters": True}
    return {"templates": templates, "main": ch["leaf"], "data": V.enc(ch["data"]), "loader": kind, "env": env, "load_kwargs": {}, "load_globals": [None, None],
            "ntags": 2, "analyze": rng.random() < 0.7, "analysis_method": rng.choice(ANALYSIS_METHODS), "include_partials": rng.random() < 0.8, "family": "inherit"}


def classify_diff(r_s, r_a, templates=None) -> str:
    if "RecursionError" in (r_s.err_class, r_a.err_class):
        # one twin ran out of Python stack where the other did not (the async renderer needs more frames per level): keyed by the
        # construct that recurses, not by the error the other twin happened to end with
        text = " ".join((templates or {}).values())
        fam = "extends-blocks" if "{% extends" in text or "{%- extends" in text else "partials" if ("{% include" in text or "{% render" in text) else "other"
        return f"python-stack-exhausted-on-one-side:{fam}"
    if r_s.ok and r_a.ok:
        return "output"
    if r_s.ok:
        return f"ok-vs-{r_a.err_class}"
    if r_a.ok:
        return f"{r_s.err_class}-vs-ok"
    return f"{r_s.err_class}-vs-{r_a.err_class}"


def gen_case(rng, ctx) -> dict[str, Any]:
    extra = rng.random() < 0.5
    flags = {}
    for f in ("ternary_expressions", "logical_not_operator", "logical_parentheses", "string_sequences", "string_first_and_last"):
        if rng.random() < 0.4:
            flags[f] = True
    if rng.random() < 0.15:
        flags["suppress_blank_control_flow_blocks"] = False
    cfg = tpl.GenCfg(
        extra=extra,
        ternary=flags.get("ternary_expressions", False),
        logical_not=flags.get("logical_not_operator", False),
        parens=flags.get("logical_parentheses", False),
        wild=0.1,
        orphan_interrupts=rng.choice([0.0, 0.0, 0.5]),  # break / continue outside a loop: in a partial it reaches (include) or must not reach (render) the caller's loop
    )
    kind = rng.choice(LOADER_KINDS) if rng.random() < 0.7 else rng.choice(["dict", "caching_dict", "ns_caching_dict"])
    main, partials, meta = tpl.gen_template_set(rng, cfg, n_partials=rng.randint(0, 3))
    style = tpl.Style(wc=0.1)
    templates = {n: tpl.print_nodes(b, style, rng) for n, b in partials.items()}
    main_name = rng.choice(["main", "main.liquid", "sub/main.liquid", "sub/deep/m.html"])
    templates[main_name] = tpl.print_nodes(main, style, rng)
    load_kwargs = {}
    data = tpl.make_data(rng, hostile=0.15, drop=0.15)
    if kind == "ns_caching_dict":
        # namespaced variants of every template; the namespace comes from kwargs and/or render data
        for n in list(templates):
            templates[f"A/{n}"] = "A:" + templates[n]
        if rng.random() < 0.6:
            load_kwargs["ns"] = "A"
        if rng.random() < 0.5:
            data["ns"] = rng.choice(["A", "B"])
    if kind == "fs_ext":
        templates = {(n if "." in n.rsplit("/", 1)[-1] else n + ".liquid"): s for n, s in templates.items()}
        if "." not in main_name.rsplit("/", 1)[-1]:
            pass  # requested without extension; loader adds it
    if kind in ("fs", "caching_fs", "fs_ext"):
        templates = {n: s.replace("\r", "") for n, s in templates.items()}
    data["pname"] = rng.choice(sorted(partials) or ["nope"])
    env = {"extra": extra, "flags": flags, "mode": rng.choice(["strict", "strict", "lax", "warn"]), "autoescape": rng.random() < 0.2,
           "undefined": rng.choice(["default", "default", "strict"]), "strict_filters": rng.random() < 0.9}
    if rng.random() < 0.35:
        env["globals"] = {"n": 7, "g": "env-global"}
    lgs = [rng.choice([None, None, {"g": "G1", "gg": 1}, {"g": "G2"}, {}]) for _ in range(2)]
    return {"templates": templates, "main": main_name, "data": V.enc(data), "loader": kind, "env": env, "load_kwargs": load_kwargs, "load_globals": lgs,
            "ntags": len(meta.tags), "analyze": rng.random() < 0.7, "analysis_method": rng.choice(ANALYSIS_METHODS + [None, None]), "include_partials": rng.random() < 0.8}


HAND_CASES = [
    # macro parameters named like the two names every macro body gets (args, kwargs): the parameter wins, in both renderers
    {"templates": {"main": "{% macro show args %}[{{ args }}]{% endmacro %}{% call show 'x' %}{% call show %}{% call show 'a', 'b' %}"}, "main": "main", "data": {}, "loader": "dict", "env": {"extra": True}},
    {"templates": {"main": "{% macro m kwargs, p %}[{{ kwargs }}|{{ p }}]{% endmacro %}{% call m 1, 2 %}{% call m p: 3 %}{% call m z: 4 %}"}, "main": "main", "data": {}, "loader": "dict", "env": {"extra": True}},
    {"templates": {"main": "{% macro m args: 'd', kwargs: 'e' %}{{ args }}{{ kwargs }}{% endmacro %}{% call m %}{% call m 1, 2, 3, k: 4 %}{% call m kwargs: 5 %}"}, "main": "main", "data": {}, "loader": "caching_dict", "env": {"extra": True}},
    # input shapes named in the property's why_tests_cant
    {"templates": {"main": "{{ [x] }}|{{ [s] }}|{{ a[x] }}"}, "main": "main", "data": {"x": 1, "s": "a", "a": {"1": "one"}}, "loader": "dict", "env": {}},
    {"templates": {"main": "{% include 'dir/foo.liquid' with v %}{% render 'dir/foo.liquid' with v %}", "dir/foo.liquid": "[{{ foo }}|{{ v }}]"}, "main": "main", "data": {"v": 5}, "loader": "dict", "env": {}},
    {"templates": {"main": "{% if a %}A{% elsif b %}B{% elsif c %}C{% else %}D{% endif %}"}, "main": "main", "data": {"c": True}, "loader": "caching_dict", "env": {}},
    {"templates": {"main": "M{% include 'p' %}", "p": "plain", "A/main": "AM{% include 'p' %}", "A/p": "nsA"}, "main": "main", "data": {"ns": "A"}, "loader": "ns_caching_dict", "env": {}, "load_kwargs": {"ns": "A"}},
]


def argument_scope_cases():
    """include / render with a bound variable AND a keyword argument of the same name (or one that the bound expression reads), in every
    spelling: when the bound expression is evaluated relative to the tag's own arguments is the same for both renderers."""
    partials = {"p": "[p={{ p }}|v={{ v }}|w={{ w }}|{{ forloop.index }}]", "row": "<{{ row }}{{ rows | size }}>"}
    for tag in ("include", "render"):
        for form in ("with v, v: 'kw'", "with v as w, v: 'kw'", "with v as w, w: 'kw'", "for vs, vs: few", "for vs as v, v: 'kw'", "with v, p: 'kw'", "for vs as p, p: 'kw', v: p",
                     "with h.k as v, h: other", "for h.list as v, h: other", "with v, v: w, w: v"):
            for name in ("p", "row"):
                src = "{% assign w = 'outer-w' %}{% " + tag + " '" + name + "' " + form.replace("vs", "rows" if name == "row" else "vs") + " %}"
                yield {"templates": dict(partials, main=src), "main": "main", "loader": "dict", "env": {},
                       "data": {"v": "outer-v", "vs": [1, 2, 3], "rows": [7, 8, 9], "few": [1], "h": {"k": "hk", "list": [4, 5]}, "other": {"k": "ok", "list": [6]}}}


def conditions_with_effects_cases():
    """Conditions whose evaluation has an effect (block.super renders the parent block, counters and cycles included): each renderer
    evaluates a condition the same number of times."""
    base = "{% block b %}{% increment c %}{% endblock %}|{% block d %}{% cycle 'x', 'y', 'z' %}{% endblock %}|{{ c }}"
    for cond in ("block.super == '0'", "block.super", "block.super != ''", "block.super contains '0'"):
        for shape in ("{% if false %}no{% elsif COND %}yes{% else %}else{% endif %}", "{% if COND %}yes{% else %}else{% endif %}", "{% unless COND %}no{% elsif COND %}yes{% else %}else{% endunless %}",
                      "{% if false %}a{% elsif false %}b{% elsif COND %}yes{% elsif true %}late{% endif %}", "{% liquid\nif false\necho 'no'\nelsif COND\necho 'yes'\nelse\necho 'else'\nendif\n%}",
                      "{% case COND %}{% when true %}t{% when '0' %}zero{% else %}e{% endcase %}", "{{ 'yes' if COND else 'no' }}"):
            child = "{% extends 'base' %}{% block b %}" + shape.replace("COND", cond) + "{% endblock %}{% block d %}" + shape.replace("COND", cond.replace("'0'", "'x'")) + "{% endblock %}"
            yield {"templates": {"base": base, "main": child}, "main": "main", "data": {}, "loader": "dict", "env": {"extra": True, "flags": {"ternary_expressions": True}}}


def loop_argument_value_cases():
    """Loop arguments (limit / offset / cols) given as variables, paths and filtered-in values of every type, among them the strings that
    are keywords when written literally: both renderers read an argument's *value* the same way, in strict and tolerant mode."""
    values = ["continue", "2", 2, 0, -1, None, "x", 1.5, True, False, [1], {"a": 1}, "", " 1 ", "reversed", "empty"]
    shapes = ["{% for i in xs offset: A %}{{ i }}{% else %}e{% endfor %}", "{% for i in xs limit: A %}{{ i }}{% else %}e{% endfor %}", "{% for i in xs limit: 2 %}{{ i }}{% endfor %}|{% for i in xs offset: A %}{{ i }}{% endfor %}",
              "{% for i in xs limit: 1 %}{{ i }}{% endfor %}|{% for i in xs limit: A offset: continue %}{{ i }}{% endfor %}", "{% tablerow i in xs offset: A %}{{ i }}{% endtablerow %}", "{% tablerow i in xs cols: A %}{{ i }}{% endtablerow %}",
              "{% tablerow i in xs limit: A cols: 2 %}{{ i }}{% endtablerow %}", "{% for i in (1..6) offset: A reversed %}{{ i }}{% endfor %}"]
    for vi, v in enumerate(values):
        for shape in shapes:
            for arg in ("start", "opts.paging.from", "opts['k']"):
                for mode in ("strict", "lax"):
                    yield {"templates": {"main": shape.replace("A", arg)}, "main": "main", "loader": "dict", "env": {"mode": mode},
                           "data": {"xs": [1, 2, 3, 4, 5, 6], "start": v, "opts": {"paging": {"from": v}, "k": v}}}


def cases(ctx: core.Ctx):
    for c in itertools.chain(argument_scope_cases(), conditions_with_effects_cases(), loop_argument_value_cases()):
        c = dict(c)
        c["data"] = V.enc(c["data"])
        c.setdefault("ntags", 2)
        yield c
    for c in HAND_CASES:
        c = dict(c)
        c["data"] = V.enc(c["data"])
        c.setdefault("ntags", 1)
        yield c
    rng = ctx.rng("cases")
    n = ctx.budget(7000, 600_000)
    for i in range(n):
        yield gen_inherit_case(rng) if i % 8 == 5 else gen_case(rng, ctx)
