"""C10 Literal text, raw blocks, comments and whitespace control.

Monitor: M1 (rendered output).  Oracle: reference model R-ws over an abstract segment list.
"""

from __future__ import annotations

import itertools
from typing import Any

from harness import core, drv

PROP = "C10"
TECHNIQUE = "reference-model runtime monitor (R-ws) over enumerated text/markup sequences with every whitespace-control flag combination"
RULE = (
    "case = alternating text / markup sequence T0 M1 T1 [M2 T2 [M3 T3]]; markup kinds: output of a string literal, assign, if-block, raw, "
    "comment, doc, inline comment, liquid tag with echo, shorthand template comment; every left/right hyphen combination on every delimiter "
    "(raw/comment/doc/if have four); text classes: empty, spaces, newlines, tabs, padded words, markup-like fragments that cannot open "
    "markup. One markup: exhaustive; two markups: exhaustive over kinds x flags with sampled texts (thorough: all); three: sampled. "
    "Non-trivial = at least one hyphen present or a raw/comment/doc body, distinct by source."
    " Rounds 5-6 added enumerated families: unclosed comment openers as text; markup tokens of 0.5-40 KB of every kind; round 7: literal text / raw bodies on the executed path of 1-3 nested control-flow wrappers (17 wrappers incl. for-else with empty, blank and text bodies)."
)
REQUIRED = [
    ("liquid/lex.py", "_tokenize_template"),
    ("liquid/lex.py", "compile_liquid_rules"),
    ("liquid/builtin/content.py", "ContentNode.render_to_output"),
    ("liquid/builtin/tags/liquid_tag.py", "LiquidTag.parse"),
]

# "removes all whitespace": every character str.isspace() knows, not only the ASCII ones
WS = "".join(chr(c) for c in range(0x3001) if chr(c).isspace())
TEXTS = ["", " ", "\n", " \t\n ", "a", " a ", "\n b\n", "a  ", "  a", "{ ", " %} ", "}} x", "{ { ", " - ", "\r\n c \r\n",
         "\xa0", "a\xa0 ", " \u2003b", "\x0b\x0c", "c \u2028\u2029 ", "\x1c d \x85", "\u3000e\u3000"]
TEXTS_SMALL = ["", " a ", " \n ", "\tb"]
BODY_TEXTS = ["", " ", "x", " x ", "\n y \n", "{{ z }}", " {% if %} "]

_envs: dict[bool, Any] = {}


def env(tc: bool):
    if tc not in _envs:
        _envs[tc] = drv.make_env({"template_comments": tc})
    return _envs[tc]


def h(b: int) -> str:
    return "-" if b else ""


def markup_src(m: dict[str, Any]) -> str:
    k, f = m["k"], m["f"]
    if k == "out":
        return "{{" + h(f[0]) + " '" + m["lit"] + "' " + h(f[1]) + "}}"
    if k == "assign":
        return "{%" + h(f[0]) + " assign v = " + ("'" + m["lit"] + "'" if m.get("lit") else "1") + " " + h(f[1]) + "%}"
    if k == "inline":
        text = m.get("lit") or ""
        if text == "TIGHT":
            return "{%" + h(f[0]) + "#" + h(f[1]) + "%}"  # an empty inline comment without any padding
        if text == "EMPTY":
            return "{%" + h(f[0]) + " # " + h(f[1]) + "%}"
        return "{%" + h(f[0]) + " # " + (text or "note") + " " + h(f[1]) + "%}"
    if k == "liquid":
        # between the two echo lines: nothing, or lines that must vanish without taking anything else with them
        if m.get("var") == "empty":
            return "{%" + h(f[0]) + " liquid" + ("\n" if m["lit"] == " " else " ") + h(f[1]) + "%}"  # a liquid tag without any line
        mid = (" # " + "n" * 3000 + "\n" + " echo ''\n" * 300) if m.get("var") == "long" else LIQUID_MIDDLES[m.get("var", 0)]
        return "{%" + h(f[0]) + " liquid\n echo '" + m["lit"] + "'\n" + mid + " echo 'q'\n" + h(f[1]) + "%}"
    if k == "tcomment":
        return "{#" + h(f[0]) + " " + (m.get("lit") or "note") + " " + h(f[1]) + "#}"
    name = {"raw": "raw", "comment": "comment", "doc": "doc", "if": "if true"}[k]
    end = {"raw": "endraw", "comment": "endcomment", "doc": "enddoc", "if": "endif"}[k]
    return "{%" + h(f[0]) + " " + name + " " + h(f[1]) + "%}" + m["body"] + "{%" + h(f[2]) + " " + end + " " + h(f[3]) + "%}"


LIQUID_MIDDLES = [
    "",
    " # note here\n",
    " # first\n # two words\n #\n",
    " comment\n echo 'hidden'\n endcomment\n",
    " doc\n Renders a greeting.\n echo 'leak'\n enddoc\n",
    "\n",
    " comment\n # inside\n endcomment\n # after\n",
    " doc\n one\n enddoc\n",
]


def expected(segs: list[Any]) -> list[str]:
    """R-ws: list of acceptable outputs (raw inner hyphens admit two readings of the body)."""
    outs = [""]
    n = len(segs)
    for i, s in enumerate(segs):
        if isinstance(s, str):
            t = s
            if i > 0:
                prev = segs[i - 1]
                if prev["f"][-1]:
                    t = t.lstrip(WS)
            if i + 1 < n:
                nxt = segs[i + 1]
                if nxt["f"][0]:
                    t = t.rstrip(WS)
            outs = [o + t for o in outs]
            continue
        k, f = s["k"], s["f"]
        if k == "out":
            outs = [o + s["lit"] for o in outs]
        elif k == "liquid":
            outs = [o + ("" if s.get("var") == "empty" else s["lit"] + "q") for o in outs]
        elif k == "raw":
            b = s["body"]
            variants = {b}
            if f[1] or f[2]:
                b2 = b
                if f[1]:
                    b2 = b2.lstrip(WS)
                if f[2]:
                    b2 = b2.rstrip(WS)
                variants.add(b2)
                if f[1]:
                    variants.add(b.lstrip(WS))
                if f[2]:
                    variants.add(b.rstrip(WS))
            outs = [o + v for o in outs for v in sorted(variants)]
        elif k == "if":
            b = s["body"]
            if f[1]:
                b = b.lstrip(WS)
            if f[2]:
                b = b.rstrip(WS)
            # a whitespace-only control-flow block is suppressed by default (documented feature flag)
            if b.strip(WS) == "":
                b = ""
            outs = [o + b for o in outs]
        # assign, inline, comment, doc, tcomment contribute nothing
    return outs


def source_of(segs: list[Any]) -> str:
    return "".join(s if isinstance(s, str) else markup_src(s) for s in segs)


def mech(segs: list[Any], got: str, exps: list[str]) -> str:
    kinds = [s["k"] for s in segs if not isinstance(s, str)]
    flagged = []
    for s in segs:
        if isinstance(s, str):
            continue
        f = s["f"]
        names = ["open-left", "open-right", "close-left", "close-right"] if len(f) == 4 else ["left", "right"]
        flagged += [f"{s['k']}.{names[i]}" for i, b in enumerate(f) if b]
    return ",".join(sorted(set(flagged))) or ("plain:" + ",".join(sorted(set(kinds))))


def minimise(case: dict[str, Any]):
    """Structural shrinking: clear hyphens one at a time and drop trailing segments while still failing."""
    segs = [s if isinstance(s, str) else dict(s, f=list(s["f"])) for s in case["segs"]]

    def fails(ss) -> bool:
        o = drv.parse_and_render(env(case.get("tc", False)), source_of(ss), {})
        return o.ok and o.value not in expected(ss)

    changed = True
    while changed:
        changed = False
        for s in segs:
            if isinstance(s, str):
                continue
            for i, b in enumerate(s["f"]):
                if b:
                    s["f"][i] = 0
                    if fails(segs):
                        changed = True
                    else:
                        s["f"][i] = 1
        for i, s in enumerate(segs):
            if isinstance(s, str) and s not in ("", " "):
                for repl in ("", " "):
                    old = segs[i]
                    segs[i] = repl
                    if fails(segs):
                        changed = True
                        break
                    segs[i] = old
    return segs


def judge(ctx: core.Ctx, case: dict[str, Any]) -> None:
    if "nest" in case:
        return judge_nest(ctx, case)
    segs = case["segs"]
    src = source_of(segs)
    exps = expected(segs)
    o = drv.parse_and_render(env(case.get("tc", False)), src, {}, use_async=case.get("async", False))
    if not o.ok:
        ctx.evaluations += 1
        ctx.violation(f"raises-{o.err_class}", f"{src!r} raised {o.err_class}: {drv.safe_str(o.exc)[:100]}")
        return
    if o.value not in exps:
        small = minimise(case)
        ssrc = source_of(small)
        o2 = drv.parse_and_render(env(case.get("tc", False)), ssrc, {})
        ctx.evaluations += 1
        ctx.violation(
            f"ws:{mech(small, o2.value if o2.ok else '', expected(small))}",
            f"{ssrc!r} rendered {o2.value if o2.ok else o2.err_class!r}, R-ws expects {expected(small)!r}",
            {"source": src, "got": o.value, "expected": exps, "shrunk": ssrc},
        )
        return
    nontrivial = any((not isinstance(s, str)) and (any(s["f"]) or s["k"] in ("raw", "comment", "doc")) for s in segs)
    ctx.ok((src, case.get("tc", False)), nontrivial=nontrivial)


# ------------------------------------------------------------------------ generators

KINDS2 = ["out", "assign", "inline", "liquid"]
KINDS4 = ["raw", "comment", "doc", "if"]


def markups(tc: bool, bodies: list[str], lits: list[str]):
    for k in KINDS2 + (["tcomment"] if tc else []):
        for f in itertools.product((0, 1), repeat=2):
            for lit in (lits if k in ("out", "liquid") else ["note", "EMPTY", "TIGHT", "a # b"] if k == "inline" else [""]):
                if k == "liquid":
                    for var in list(range(len(LIQUID_MIDDLES))) + ["empty"]:
                        yield {"k": k, "f": list(f), "lit": lit, "var": var}
                else:
                    yield {"k": k, "f": list(f), "lit": lit}
    for k in KINDS4:
        for f in itertools.product((0, 1), repeat=4):
            for b in bodies:
                if k == "if" and ("{{" in b or "{%" in b):
                    continue
                if k in ("comment", "doc") and "{%" in b:
                    continue
                yield {"k": k, "f": list(f), "body": b}


# text that looks like the start of markup but never closes: with shorthand comments off "{#" is ordinary text anyway; with them on, an
# opener that no "#}" follows opens nothing either.  (No shorthand comment may follow in the same source: its "#}" would close it.)
OPENER_TEXTS = ["a  {#- b", "a \n{#-", "a  {# b ", "{#- b", "a {#-} b", "a  {#-#", "x \t{#--", "a  {# b } c"]


def long_markup_cases():
    """One markup token of 0.5 .. 40 KB (a long literal, a long comment, a long liquid tag, a long raw / comment / doc body) between padded
    texts, with every hyphen combination: how much text a delimiter trims does not depend on how long the markup is."""
    for size in (600, 1100, 2100, 5000, 40_000):
        filler = ("word " * (size // 5 + 1))[:size]
        ms: list[dict[str, Any]] = []
        for f in itertools.product((0, 1), repeat=2):
            ms += [{"k": "out", "f": list(f), "lit": filler}, {"k": "assign", "f": list(f), "lit": filler}, {"k": "inline", "f": list(f), "lit": filler}, {"k": "liquid", "f": list(f), "lit": filler, "var": 0},
                   {"k": "liquid", "f": list(f), "lit": "L", "var": "long"}, {"k": "tcomment", "f": list(f), "lit": filler}]
        for f in itertools.product((0, 1), repeat=4):
            ms += [{"k": kk, "f": list(f), "body": " " + filler + " "} for kk in ("raw", "comment", "doc", "if")]
        for m in ms:
            tc = m["k"] == "tcomment"
            yield {"segs": [" a \n ", m, " \n b "], "tc": tc}
            yield {"segs": [" a \n ", dict(m), " \n b ", {"k": "out", "f": [1, 1], "lit": "Z"}, "  c"], "tc": tc, "async": size == 1100}


def unclosed_opener_cases():
    for tc in (False, True):
        ms = [m for m in markups(False, ["", " x "], ["L"]) if m["k"] != "tcomment"]
        for text in OPENER_TEXTS:
            yield {"segs": [text], "tc": tc}
            for m in ms:
                yield {"segs": [" p ", m, text], "tc": tc}
                yield {"segs": [" p ", m, " q ", dict(m), text], "tc": tc}


# ---- literal text inside nested control flow ------------------------------------------------------------------------------------------------
# Each wrapper puts its content X on the one path that executes; every other branch is empty or holds text that must not appear.  X always
# has a non-whitespace character, so no block on the executed path is "blank" (the documented suppression applies to whitespace-only blocks).
WRAPPERS: dict[str, tuple[str, str, str, str]] = {
    # name: (before X, after X, expected before, expected after)
    "if": ("{% if true %}", "{% endif %}", "", ""),
    "if-else": ("{% if false %}NO{% else %}", "{% endif %}", "", ""),
    "elsif": ("{% if false %}NO{% elsif true %}", "{% else %}NO{% endif %}", "", ""),
    "unless": ("{% unless false %}", "{% endunless %}", "", ""),
    "unless-else": ("{% unless true %}{% else %}", "{% endunless %}", "", ""),
    "case-when": ("{% case 1 %}{% when 2 %}NO{% when 1 %}", "{% endcase %}", "", ""),
    "case-else": ("{% case 1 %}{% when 2 %}{% else %}", "{% endcase %}", "", ""),
    "for": ("{% for i in (1..1) %}", "{% endfor %}", "", ""),
    "for-else-empty-body": ("{% for i in nosuch %}{% else %}", "{% endfor %}", "", ""),
    "for-else-blank-body": ("{% for i in nosuch %} {% assign q = i %}\n{% else %}", "{% endfor %}", "", ""),
    "for-else-text-body": ("{% for i in nosuch %}NO{% else %}", "{% endfor %}", "", ""),
    "for-else-range": ("{% for i in (1..0) %}{% else %}", "{% endfor %}", "", ""),
    "tablerow": ("{% tablerow i in (1..1) %}", "{% endtablerow %}", '<tr class="row1">\n<td class="col1">', "</td></tr>\n"),
    "capture": ("{% capture cap %}", "{% endcapture %}{{ cap }}", "", ""),
    "ifchanged": ("{% ifchanged %}", "{% endifchanged %}", "", ""),
    "comment-sibling": ("{% if true %}{% comment %}NO{% endcomment %}", "{% endif %}", "", ""),
    "assign-sibling": ("{% if true %}{% assign z = 1 %}", "{% assign y = 2 %}{% endif %}", "", ""),
}
NEST_X = [("no items", "no items"), (" padded text \n", " padded text \n"), ("{% raw %} {{ r }} {% if %}{% endraw %}", " {{ r }} {% if %}"), ("{% raw %}w{% endraw %}", "w"), ("-", "-"), ("{ %}", "{ %}")]


def nest_source(names: list[str], xi: int) -> tuple[str, str]:
    src, exp = NEST_X[xi]
    for n in reversed(names):
        b, a, eb, ea = WRAPPERS[n]
        src, exp = b + src + a, eb + exp + ea
    return src, exp


def judge_nest(ctx: core.Ctx, case: dict[str, Any]) -> None:
    src, exp = nest_source(case["nest"], case["x"])
    src, exp = "A " + src + " Z", "A " + exp + " Z"
    o = drv.parse_and_render(env(False), src, {}, use_async=case.get("async", False))
    ctx.count("nested_text_renders")
    if not o.ok:
        ctx.violation(f"nest:raises-{o.err_class}", f"{src!r} raised {o.err_class}: {drv.safe_str(o.exc)[:100]}")
        return
    if o.value != exp:
        # smallest failing suffix of the nest
        names = list(case["nest"])
        while len(names) > 1:
            s2, e2 = nest_source(names[1:], case["x"])
            o2 = drv.parse_and_render(env(False), s2, {})
            if o2.ok and o2.value == e2:
                break
            names = names[1:]
        s2, e2 = nest_source(names, case["x"])
        lost = "lost" if len(o.value) < len(exp) else "changed"
        ctx.violation(f"nest:text-{lost}:{'>'.join(names)}", f"{s2!r}: the text on the executed path must be output verbatim ({e2!r}); {src!r} rendered {o.value!r}", {"source": src, "got": o.value, "expected": exp})
        return
    ctx.ok(("nest", src, case.get("async", False)), nontrivial=True)


def nest_cases():
    # ifchanged blocks share one remembered value per render, so an ifchanged directly around another sees "nothing changed": at most one per nest
    for c in _nest_cases():
        if c["nest"].count("ifchanged") <= 1:
            yield c


def _nest_cases():
    names = list(WRAPPERS)
    for xi in range(len(NEST_X)):
        for a in names:
            yield {"nest": [a], "x": xi}
            yield {"nest": [a], "x": xi, "async": True}
    for a in names:
        for b in names:
            for xi in (0, 2):
                yield {"nest": [a, b], "x": xi, "async": (len(a) + len(b)) % 2 == 1}
    for a in names:
        for b in names:
            for c in ("for-else-empty-body", "for-else-blank-body", "case-else", "if", "capture", "tablerow"):
                yield {"nest": [a, b, c], "x": 0}


def cases(ctx: core.Ctx):
    for gi, c in enumerate(itertools.chain(nest_cases(), unclosed_opener_cases(), long_markup_cases())):
        if gi % ctx.nshards == ctx.shard:
            yield c
    rng = ctx.rng("cases")
    idx = 0
    for tc in (False, True):
        ms = list(markups(tc, BODY_TEXTS, ["L", " "]))
        # one markup: exhaustive over texts
        for m in ms:
            for t0, t1 in itertools.product(TEXTS, TEXTS):
                idx += 1
                if idx % ctx.nshards == ctx.shard:
                    if ctx.tier == "quick" and rng.random() > 0.15:
                        continue
                    yield {"segs": [t0, m, t1], "tc": tc}
    # two markups
    for tc in (False, True):
        ms = list(markups(tc, ["", " x ", "\n"], ["L"]))
        for m1, m2 in itertools.product(ms, ms):
            idx += 1
            if idx % ctx.nshards != ctx.shard:
                continue
            if ctx.tier == "quick":
                if rng.random() > 0.25:
                    continue
                texts = [tuple(rng.choice(TEXTS_SMALL) for _ in range(3))]
            else:
                texts = list(itertools.product(TEXTS_SMALL, repeat=3))
                texts = rng.sample(texts, 12)
            for t0, t1, t2 in texts:
                yield {"segs": [t0, m1, t1, m2, t2], "tc": tc, "async": rng.random() < 0.05}
    if ctx.tier != "quick":
        ctx.extra["exhaustive"] = True
    # three markups sampled
    ms_all = {tc: list(markups(tc, BODY_TEXTS, ["L", " "])) for tc in (False, True)}
    for _ in range(ctx.budget(4000, 400_000)):
        tc = rng.random() < 0.3
        segs: list[Any] = [rng.choice(TEXTS)]
        for _ in range(rng.choice([2, 3, 3, 4])):
            segs.append(rng.choice(ms_all[tc]))
            segs.append(rng.choice(TEXTS))
        yield {"segs": segs, "tc": tc, "async": rng.random() < 0.05}
