"""C15 Rendered partials and macros are isolated from their caller.

Monitors: M1 (outputs of caller variants), hook on RenderContext.copy through the documented context_class
extension point (no mapping of the caller's locals / pushed namespaces reachable from an isolated child).
Oracle: metamorphic differential - the partial's output segment must not change when only the caller's
local state changes; the caller's probes must equal those of a run with an empty partial body.
"""

from __future__ import annotations

import re
from typing import Any

from liquid import BoundTemplate, DictLoader, Environment, RenderContext
from liquid.utils.chain_map import ReadOnlyChainMap

from harness import core, drv

PROP = "C15"
TECHNIQUE = "metamorphic differential runtime monitor (caller-local variants A/B/... with fixed arguments) + reachability invariant at the context-copy hook"
RULE = (
    "case = partial or macro body reading and assigning names from {a,b,c,x,n} + a call site (render plain / with / for / keyword args, or "
    "call with positional/keyword args) whose argument expressions only use literals and global data + 6 caller variants that bind the same "
    "names differently via assign, capture, for variable, with block, increment (or not at all), around and before the call. Judged: every "
    "partial output segment identical across variants; caller probes after the call identical to the empty-body run; include inside a "
    "rendered partial => DisabledTagError; copy-hook reachability invariant. Non-trivial = body reads >= 1 name the caller binds locally."
)
REQUIRED = [
    ("liquid/context.py", "RenderContext.copy"),
    ("liquid/builtin/tags/render_tag.py", "RenderNode.render_to_output"),
    ("liquid/extra/tags/macro_tag.py", "CallNode.render_to_output"),
    ("liquid/ast.py", "Node.raise_for_disabled"),
]
MIN_COUNTERS = {"copy_hook_checks": 200, "disabled_include_probes": 50, "disabled_include_probes_nested": 30, "variants_with_call_inside_caller_loop": 200, "argument_visibility_probes": 90, "nested_render_probes": 20, "disabled_include_probes_in_lax_or_warn": 30}

HOOK: dict[str, Any] = {"copies": 0, "leak": None}


def maps_of(m: Any, seen: set[int]) -> list[Any]:
    out = []
    if id(m) in seen:
        return out
    seen.add(id(m))
    out.append(m)
    if isinstance(m, ReadOnlyChainMap):
        for sub in m._maps:
            out.extend(maps_of(sub, seen))
    return out


class MonContext(RenderContext):
    __slots__ = ()

    def copy(self, namespace, disabled_tags=None, carry_loop_iterations=False, template=None, block_scope=False):
        child = super().copy(namespace, disabled_tags=disabled_tags, carry_loop_iterations=carry_loop_iterations, template=template, block_scope=block_scope)
        if not block_scope:
            HOOK["copies"] += 1
            # the caller's template-local state: its locals and every pushed (block scoped) namespace
            private = {id(self.locals)}
            own = [m for m in self.scope._maps]
            base = {id(self.locals), id(self.globals), id(self.counters)}
            for m in own:
                if id(m) not in base and type(m).__name__ != "BuiltIn":
                    private.add(id(m))
            private.add(id(self.counters))
            reach = maps_of(child.scope, set())
            for m in reach:
                if id(m) in private and m is not namespace:
                    HOOK["leak"] = type(m).__name__
        return child


class MonTemplate(BoundTemplate):
    context_class = MonContext


class MonEnv(Environment):
    template_class = MonTemplate

    def setup_tags_and_filters(self, *args: Any, **kwargs: Any) -> None:
        super().setup_tags_and_filters(*args, **kwargs)
        # the optional snippet tag binds a name too (an inline template): one more way for a body to "assign"
        try:
            from liquid.extra import SnippetTag

            self.add_tag(SnippetTag)
        except ImportError:  # pragma: no cover - older trees
            pass


NAMES = ["a", "b", "c", "x", "n"]
WRAP = {
    "if": "{% if true %}@{% endif %}", "else": "{% if false %}{% else %}@{% endif %}", "unless": "{% unless false %}@{% endunless %}", "for": "{% for i in (1..1) %}@{% endfor %}",
    "case": "{% case 1 %}{% when 1 %}@{% endcase %}", "capture": "{% capture cc %}@{% endcapture %}{{ cc }}", "liquid": "{% liquid\n if true\n  include 'q'\n endif\n%}",
    "tablerow": "{% tablerow i in (1..1) %}@{% endtablerow %}", "with": "{% with zz: 1 %}@{% endwith %}", "ifchanged": "{% ifchanged %}@{% endifchanged %}",
    "forelse": "{% for i in nothing %}{% else %}@{% endfor %}",
}
OPEN, CLOSE = "«", "»"


def body_src(ops: list) -> str:
    out = []
    for op in ops:
        k = op[0]
        if k == "read":
            out.append(f"[{op[1]}={{{{ {op[1]} }}}}]")
        elif k == "assign":
            out.append(f"{{% assign {op[1]} = 'P{op[2]}' %}}")
        elif k == "capture":
            out.append(f"{{% capture {op[1]} %}}Q{op[2]}{{% endcapture %}}")
        elif k == "incr":
            out.append(f"{{% increment {op[1]} %}}")
        elif k == "snippet":
            out.append(f"{{% snippet {op[1]} %}}S{op[2]}{{% endsnippet %}}")
        elif k == "loop":
            out.append(f"{{% for {op[1]} in (1..2) %}}" + body_src(op[2]) + "{% endfor %}")
        elif k == "if":
            out.append(f"{{% if {op[1]} %}}Y{{% else %}}N{{% endif %}}")
        elif k == "filter":
            out.append(f"{{{{ {op[1]} | default: 'dflt' | upcase }}}}")
        elif k == "ctxfilter":
            # filters that look things up in the render context on their own (locale, currency code, message variables): inside a rendered
            # partial / macro body that context is the isolated one
            out.append({"decimal": "{{ 1234.5 | decimal }}", "currency": "{{ 12 | currency }}", "t": "{{ 'Hi %(a)s %(x)s' | t }}", "t-kw": "{{ 'Hi %(a)s %(x)s' | t: x: 'KW' }}"}[op[1]])
    return "".join(out)


def caller_src(variant: dict[str, Any], call: str, mid_loop: bool) -> str:
    """Prelude binding locals, the call (optionally inside a for loop whose variable is one of the names), probes."""
    pre = []
    for name, how, val in variant["binds"]:
        if how == "assign":
            pre.append(f"{{% assign {name} = '{val}' %}}")
        elif how == "capture":
            pre.append(f"{{% capture {name} %}}{val}{{% endcapture %}}")
        elif how == "incr":
            pre.append(f"{{% increment {name} %}}" * (1 + len(val) % 3))
    if variant.get("prime"):
        pre.append("{{ 1 | decimal }}{{ 2 | currency }}{{ 'z %(a)s' | t }}")  # the caller itself used the context-aware filters before the call
    core_call = call
    for name, val in variant.get("withs", []):
        core_call = f"{{% with {name}: '{val}' %}}{core_call}{{% endwith %}}"
    if mid_loop:
        lv = variant.get("loopvar", "c")
        core_call = f"{{% for {lv} in loopdata %}}{core_call}{{% endfor %}}"
    probes = "".join(f"<{n}={{{{ {n} }}}}>" for n in NAMES)
    return "".join(pre) + "|" + core_call + "|" + probes


VISIBLE_CALLS = [
    # (call, expected partial output given x='LIT', xs=['I1','I2'])
    ("{% render 'p' with x %}", "[LIT||]"), ("{% render 'p' with x as v %}", "[|LIT|]"), ("{% render 'p' for xs %}", "[I1||][I2||]"), ("{% render 'p' for xs as v %}", "[|I1|][|I2|]"),
    ("{% render 'p', a: 'K' %}", "[||K]"), ("{% render 'p' with x, a: x %}", "[LIT||LIT]"), ("{% render 'p' with x as v, a: 'K' %}", "[|LIT|K]"), ("{% render 'p' %}", "[||]"),
    ("{% call 'm' x %}", "[LIT|D|]"), ("{% call 'm' x, 'Q' %}", "[LIT|Q|]"), ("{% call 'm' p1: x %}", "[|LIT|]"), ("{% call 'm' %}", "[|D|]"),
]


def judge_visible(ctx: core.Ctx, case: dict[str, Any]) -> None:
    """The positive half of the clause: a rendered partial / called macro DOES see its explicit arguments and its bound variable -
    whatever else is (or is not) in the render arguments and globals."""
    call, expected = VISIBLE_CALLS[case["call_index"]]
    src = "{% macro 'm' p0, p1: 'D' %}[{{ p0 }}|{{ p1 }}|{{ a }}]{% endmacro %}{% assign x = 'LIT' %}{% assign xs = 'I1,I2' | split: ',' %}" + call
    cfg: dict[str, Any] = {"extra": True}
    if case["env_globals"]:
        cfg["globals"] = {"eg": 1}
    env = drv.make_env(cfg, loader=DictLoader({"p": "[{{ p }}|{{ v }}|{{ a }}]"}), base=MonEnv)
    o = drv.parse_and_render(env, src, dict(case["data"]), use_async=case.get("async", False))
    ctx.count("argument_visibility_probes")
    ctx.evaluations += 1
    if not o.ok or o.value != expected:
        empty = "no-render-arguments-and-no-globals" if not case["data"] and not case["env_globals"] else "with-globals"
        ctx.violation(
            f"{'macro' if 'call' in call else 'render'}:explicit-argument-or-bound-variable-not-visible:{empty}",
            f"{call!r} (x='LIT', xs=['I1','I2']) rendered {o.brief()} with render arguments {case['data']} and environment globals {'set' if case['env_globals'] else 'unset'}; the partial/macro body prints its arguments and should give {expected!r}",
        )
        return
    ctx.ok(("visible", case["call_index"], bool(case["data"]), case["env_globals"], case.get("async", False)), nontrivial=True)


NESTED_OUTER = [
    # how the outer partial / macro / block is entered; '@' is the variant's argument value
    ("render-kwargs", "{% render 'mid', a: @, b: @ %}", {}),
    ("render-with-alias", "{% assign ov = @ %}{% render 'mid' with ov as a %}", {}),
    ("render-for", "{% assign os = @ | split: ',' %}{% render 'mid' for os as a %}", {}),
    ("macro-arg", "{% macro 'mm' a, b %}«{% render 'q' %}»{% endmacro %}{% call 'mm' @, @ %}", {}),
    ("extends-block", None, {}),
]


def judge_nested(ctx: core.Ctx, case: dict[str, Any]) -> None:
    """An inner `render` reached from inside an outer partial, macro or inherited block: its output may depend on its own arguments and
    on global data only - not on the arguments / locals of whatever rendered it."""
    label, outer, _ = NESTED_OUTER[case["outer_index"]]
    inner_call = case["inner_call"]
    outs = []
    for val in ("'V1'", "'V2'", None):
        partials = {"q": "‹[a={{ a }}][b={{ b }}][bv={{ bv }}][g={{ g }}]›", "mid": "{% assign b = 'MIDLOCAL' %}«" + inner_call + "»"}
        if label == "extends-block":
            partials["base"] = "{% assign bv = " + (val or "'V0'") + " %}{% assign a = bv %}{% block blk %}{% endblock %}"
            partials["child"] = "{% extends 'base' %}{% block blk %}«" + inner_call + "»{% endblock %}"
            src = None
        else:
            src = outer.replace("@", val) if val is not None else outer.replace(", a: @, b: @", "").replace(" @, @", "").replace("@", "'V0'")
        env = drv.make_env({"extra": True}, loader=DictLoader(partials), base=MonEnv)
        if src is None:
            t = drv.call(env.get_template, "child")
            o = (drv.render_async(t.value, {"g": "G"}) if case.get("async") else drv.render(t.value, {"g": "G"})) if t.ok else t
        else:
            o = drv.parse_and_render(env, src, {"g": "G"}, use_async=case.get("async", False))
        if not o.ok:
            ctx.count("nested_probe_error:" + str(o.err_class))
            return
        outs.append(re.findall("‹(.*?)›", o.value, re.DOTALL))
    ctx.count("nested_render_probes")
    ctx.evaluations += 1
    ref = outs[0][:1]
    for got in outs[1:]:
        if got[:1] != ref:
            ctx.violation(
                f"render:nested-render-sees-enclosing-{label}-arguments",
                f"inner {inner_call!r} reached through {label}: its output is {outs[0][:1]} / {outs[1][:1]} / {outs[2][:1]} for three values of the enclosing arguments or locals (must be identical: it receives the same arguments and globals)",
            )
            return
    ctx.ok(("nested", case["outer_index"], inner_call, case.get("async", False)), nontrivial=True)


def judge(ctx: core.Ctx, case: dict[str, Any]) -> None:
    if case["kind"] == "visible":
        judge_visible(ctx, case)
        return
    if case["kind"] == "nested":
        judge_nested(ctx, case)
        return
    kind = case["kind"]
    body = body_src(case["body"])
    data = dict(case["globals"])
    data["loopdata"] = ["L1", "L2"]
    data["items"] = ["I1", "I2"]
    outs = []
    for vi, variant in enumerate(case["variants"]):
        for empty in (False, True):
            b = "" if empty else body
            if kind == "render":
                partials = {"p": OPEN + b + CLOSE, "q": "inner"}
                src = caller_src(variant, case["call"], variant.get("mid_loop", case["mid_loop"]))
            else:
                partials = {"q": "inner"}
                # parameters may be named like the caller's locals: one that the call leaves out is undefined in the body, it is not looked up outside
                src = "{% macro 'm' " + case.get("macro_sig", "p0, p1: 'D'") + " %}" + OPEN + b + CLOSE + "{% endmacro %}" + caller_src(variant, case["call"], variant.get("mid_loop", case["mid_loop"]))
            env = drv.make_env({"extra": True}, loader=DictLoader(partials), base=MonEnv)
            HOOK.update(copies=0, leak=None)
            o = drv.parse_and_render(env, src, data, use_async=case.get("async", False) and vi % 2 == 1)
            ctx.count("copy_hook_checks", HOOK["copies"])
            if HOOK["leak"]:
                ctx.evaluations += 1
                ctx.violation(f"{kind}:copy-hook-caller-namespace-reachable", f"an isolated child context can reach a {HOOK['leak']} of its caller's local state ({src!r:.200})")
                return
            if not o.ok:
                if not o.is_liquid_error:
                    ctx.count("non_liquid_error_forwarded_to_C02")
                    return
                ctx.evaluations += 1
                ctx.violation(f"{kind}:raises-{o.err_class}", f"{src!r:.300} raised {o.err_class}: {drv.safe_str(o.exc)[:80]}")
                return
            outs.append((vi, empty, src, o.value))
    segs = {}
    probes = {}
    for vi, empty, src, out in outs:
        inner = re.findall(OPEN + "(.*?)" + CLOSE, out, re.DOTALL)
        tail = out.rsplit("|", 1)[-1]
        if empty:
            probes[(vi, "empty")] = tail
        else:
            probes[(vi, "full")] = tail
            segs[vi] = (inner, src)
    ref_inner, ref_src = segs[0]
    ref_loop = case["variants"][0].get("mid_loop", case["mid_loop"])
    for vi, (inner, src) in segs.items():
        # a variant may put the call inside a caller loop over two items (or not): the call's segments then simply repeat
        v_loop = case["variants"][vi].get("mid_loop", case["mid_loop"])
        once_ref = ref_inner[: len(ref_inner) // 2] if ref_loop else ref_inner
        expect = once_ref * (2 if v_loop else 1)
        if v_loop:
            ctx.count("variants_with_call_inside_caller_loop")
        if inner != expect:
            reads = sorted({op[1] for op in case["body"] if op[0] in ("read", "if", "filter")})
            ctx.evaluations += 1
            ctx.violation(
                f"{kind}:output-depends-on-caller-locals:{case['call_kind']}",
                f"partial output changed with the caller's locals only: expected {expect!r} (from {ref_src!r:.200}) but got {inner!r} ({src!r:.200}); body reads {reads}",
                {"body": body},
            )
            return
    for vi in range(len(case["variants"])):
        if probes[(vi, "full")] != probes[(vi, "empty")]:
            ctx.evaluations += 1
            ctx.violation(
                f"{kind}:partial-assignment-visible-to-caller:{case['call_kind']}",
                f"caller probes after the call are {probes[(vi, 'full')]!r} but {probes[(vi, 'empty')]!r} with an empty partial body; body {body!r:.200}",
            )
            return
    # include inside a rendered partial / macro must be refused
    if kind == "render" and case.get("probe_disabled"):
        wrappers = case.get("include_wrappers") or []
        inc = "{% include 'q' %}"
        for w in wrappers:
            inc = WRAP[w].replace("@", inc)
        pmode = case.get("include_mode", "strict")
        env = drv.make_env({"extra": True, "mode": pmode}, loader=DictLoader({"p": "x" + inc, "q": "inner", "mid": "{% render 'p' %}", "pbase": "[{% block b %}{% endblock %}]",
                                                               "pchild": "{% extends 'pbase' %}{% block b %}" + inc + "{% endblock %}"}), base=MonEnv)
        o = drv.parse_and_render(env, case.get("include_call") or "{% render 'p' %}", {"items": [1, 2]}, use_async=case.get("async", False))
        ctx.count("disabled_include_probes")
        if wrappers:
            ctx.count("disabled_include_probes_nested")
        if pmode != "strict":
            # lax / warn suppress the error and go on - but the include itself must still not run
            ctx.count("disabled_include_probes_in_lax_or_warn")
            if o.ok and "inner" in o.value:
                ctx.evaluations += 1
                ctx.violation(f"render:include-runs-in-{pmode}-mode", f"{pmode} mode: include inside a rendered partial ({'x' + inc!r}, called by {case.get('include_call')!r}) was executed: output {o.value!r:.120}")
                return
        elif o.ok or o.err_class != "DisabledTagError":
            ctx.evaluations += 1
            ctx.violation(
                "render:include-not-disabled" + (":inside-inherited-block" if "pchild" in str(case.get("include_call")) else ":nested-in-block" if wrappers else ""),
                f"include inside a rendered partial ({'x' + inc!r}, called by {case.get('include_call')!r}) gave {o.brief()} instead of DisabledTagError",
            )
            return
    binds = {n for v in case["variants"] for n, _, _ in v["binds"]} | {n for v in case["variants"] for n, _ in v.get("withs", [])}
    reads = {op[1] for op in case["body"] if op[0] in ("read", "if", "filter")}
    ctx.ok((kind, case["call"], body, [v["binds"] for v in case["variants"]]), nontrivial=bool(binds & reads))


# ------------------------------------------------------------------------ generators


def gen_body(rng, depth=0) -> list:
    ops: list = []
    for _ in range(rng.randint(2, 6)):
        r = rng.random()
        n = rng.choice(NAMES)
        if r < 0.45:
            ops.append(["read", n])
        elif r < 0.6:
            ops.append(["assign", n, rng.randint(1, 9)])
        elif r < 0.68:
            ops.append(["capture", n, rng.randint(1, 9)])
        elif r < 0.72:
            ops.append(["incr", rng.choice(["n", "a"])])
        elif r < 0.75:
            ops.append(["snippet", n, rng.randint(1, 9)])
        elif r < 0.83:
            ops.append(["if", n])
        elif r < 0.87:
            ops.append(["filter", n])
        elif r < 0.92:
            ops.append(["ctxfilter", rng.choice(["decimal", "currency", "t", "t-kw"])])
        elif depth < 1:
            inner = gen_body(rng, depth + 1) if rng.random() < 0.5 else []
            ops.append(["loop", rng.choice(["c", "x", "i"]), inner + [["read", "forloop.index"], ["read", "forloop.parentloop.index"], ["read", "forloop.parentloop.length"], ["if", "forloop.parentloop"]]])
    ops += [["read", "a"], ["read", "c"], ["read", "forloop.index"], ["read", "forloop.parentloop.index"]]
    return ops


def gen_variant(rng) -> dict[str, Any]:
    binds = []
    for n in NAMES:
        r = rng.random()
        if r < 0.35:
            binds.append([n, "assign", f"CA{rng.randint(1, 99)}"])
        elif r < 0.5:
            binds.append([n, "capture", f"CC{rng.randint(1, 99)}"])
        elif r < 0.6 and n in ("n", "a"):
            binds.append([n, "incr", "i" * rng.randint(1, 3)])
    withs = [[rng.choice(["x", "a", "b"]), f"W{rng.randint(1, 99)}"]] if rng.random() < 0.4 else []
    if rng.random() < 0.35:
        binds.append(["locale", "assign", rng.choice(["de_DE", "fr_FR", "en_GB"])])
    if rng.random() < 0.25:
        binds.append(["currency_code", rng.choice(["assign", "capture"]), rng.choice(["EUR", "GBP"])])
    if rng.random() < 0.5:
        return {"binds": binds, "withs": withs, "loopvar": rng.choice(["c", "x", "i"]), "mid_loop": rng.random() < 0.5, "prime": True}
    return {"binds": binds, "withs": withs, "loopvar": rng.choice(["c", "x", "i"]), "mid_loop": rng.random() < 0.5}


def gen_case(rng) -> dict[str, Any]:
    kind = "render" if rng.random() < 0.6 else "macro"
    if kind == "render":
        ck = rng.choice(["plain", "with", "for", "kwargs", "with-alias"])
        call = {"plain": "{% render 'p' %}", "with": "{% render 'p' with g1 %}", "for": "{% render 'p' for items as x %}",
                "kwargs": "{% render 'p', a: 'ARG', x: g2 %}", "with-alias": "{% render 'p' with g1 as b, n: 5 %}"}[ck]
    else:
        ck = rng.choice(["positional", "keyword", "none"])
        call = {"positional": "{% call 'm' g1, 'lit' %}", "keyword": "{% call 'm' p1: g2, a: 'KW' %}", "none": "{% call 'm' %}"}[ck]
    globals_ = {"g1": "G1", "g2": "G2"}
    for n in NAMES:
        if rng.random() < 0.3:
            globals_[n] = f"GLOBAL_{n}"
    variants = [{"binds": [], "withs": [], "loopvar": "c", "mid_loop": False}] + [gen_variant(rng) for _ in range(5)]
    nw = rng.choice([0, 1, 1, 2])
    wrappers = [rng.choice(list(WRAP)) for _ in range(nw)]
    return {"kind": kind, "call_kind": ck, "call": call, "macro_sig": rng.choice(["p0, p1: 'D'", "p0, p1: 'D', a, x", "p0, p1: 'D', n, b, c", "p0, p1: 'D', x"]), "body": gen_body(rng), "mid_loop": rng.random() < 0.5, "globals": globals_, "variants": variants,
            "probe_disabled": rng.random() < 0.25, "include_wrappers": wrappers,
            "include_call": rng.choice(["{% render 'p' %}", "{% render 'p' for items %}", "{% render 'mid' %}", "{% for i in (1..2) %}{% render 'p' with i as v %}{% endfor %}", "{% render 'pchild' %}"]),
            "include_mode": rng.choice(["strict", "strict", "lax", "warn"]), "async": rng.random() < 0.3}


def cases(ctx: core.Ctx):
    rng = ctx.rng("cases")
    if ctx.shard == 0:
        for i in range(len(VISIBLE_CALLS)):
            for data in ({}, {"z": 1}):
                for eg in (False, True):
                    for a in (False, True):
                        yield {"kind": "visible", "call_index": i, "data": data, "env_globals": eg, "async": a}
        for oi in range(len(NESTED_OUTER)):
            for inner in ("{% render 'q' %}", "{% render 'q', z: 1 %}", "{% render 'q' with g as zz %}", "{% if true %}{% render 'q' %}{% endif %}"):
                for a in (False, True):
                    yield {"kind": "nested", "outer_index": oi, "inner_call": inner, "async": a}
    first = gen_case(rng)
    first.update(kind="render", call="{% render 'p' %}", call_kind="plain", probe_disabled=True)
    yield first
    for _ in range(ctx.budget(2500, 200_000)):
        yield gen_case(rng)
