"""C16 Strict undefined types only refine the default behaviour.

Monitors: M1 outcomes under the four undefined types; counting subclasses of each undefined type (documented
extension point Environment(undefined=...)) so that runs which never created an undefined value are not
counted as evidence.  Oracle: differential + dedicated must-raise probes.
"""

from __future__ import annotations

from typing import Any

from liquid import DictLoader
from liquid import undefined as U

from harness import core, drv
from harness.gen import tpl
from harness.gen import values as V

PROP = "C16"
TECHNIQUE = "differential runtime monitor (default vs three strict undefined types) with must-raise probes and undefined-creation counters"
RULE = (
    "case = generated template (all standard tags, filters, paths incl. sub-paths) rendered with data from which random keys and sub-paths were "
    "removed, under Undefined, StrictUndefined, FalsyStrictUndefined and StrictDefaultUndefined. Judged: strict success => output equals the "
    "default output; the default type never raises UndefinedError; probes that output / iterate / compare / filter a certainly missing name "
    "raise UndefinedError under StrictUndefined. Non-trivial = at least one undefined value was created during the default render "
    "(counted by the hook), distinct by (source, data)."
    " Rounds 5-6 added enumerated families: pairs of missing paths in non-printing positions; missing values made by the engine (parentloop of an outermost loop, helpers' missing properties)."
    " Round 7 added: extra-only tags and filters (translate, gettext family, with, macro, ternary, not) fed every missing path."
)
REQUIRED = [
    ("liquid/undefined.py", "StrictUndefined.__str__"),
    ("liquid/undefined.py", "StrictUndefined.__iter__"),
    ("liquid/undefined.py", "Undefined.__str__"),
    ("liquid/context.py", "RenderContext.get"),
    ("liquid/builtin/filters/misc.py", "default"),
]
MIN_COUNTERS = {"undefined_created_default": 500, "strict_succeeded": 100, "strict_raised_UndefinedError": 100, "must_raise_probes": 400, "implicit_environment_probes": 30}

CREATED = {"n": 0}


def counting(base: type) -> type:
    def __init__(self, *a, **k):
        CREATED["n"] += 1
        base.__init__(self, *a, **k)

    return type("Counting" + base.__name__, (base,), {"__init__": __init__})


TYPES = {
    "default": counting(U.Undefined),
    "strict": counting(U.StrictUndefined),
    "falsy_strict": counting(U.FalsyStrictUndefined),
    "strict_default": counting(U.StrictDefaultUndefined),
}
PARTIALS = {"p": "[{{ p }}|{{ v }}|{{ item }}]", "q": "{{ s }}", "pl": "{{ forloop.parentloop.index }}"}


def run(case, kind: str, data):
    cfg = dict(case.get("env") or {})
    env = drv.make_env(cfg, loader=DictLoader(dict(PARTIALS)))
    env.undefined = TYPES[kind]
    CREATED["n"] = 0
    o = drv.parse_and_render(env, case["source"], data, use_async=case.get("async", False))
    return o, CREATED["n"]


def path_class(path: str) -> str:
    if ".first" in path or ".last" in path:
        return "first-last-of-empty-or-missing"
    if "[" in path:
        return "index-or-bracket"
    return "dotted" if "." in path else "root"


def construct_of(src: str) -> str:
    import re

    m = re.search(r"\{%-?\s*(#|\w+)", src)
    return m.group(1) if m else "output"


def judge(ctx: core.Ctx, case: dict[str, Any]) -> None:
    data = V.dec(case["data"])
    if case.get("probe"):
        o, n = run(case, "strict", data)
        if not o.ok and o.err_class == "LiquidSyntaxError":
            ctx.count("probe_not_parseable_skipped")  # e.g. a bracketed root as a filter argument: not this property's subject
            return
        ctx.count("must_raise_probes")
        if case.get("implicit") and not o.ok and o.err_class == "UndefinedError":
            # package-level API: liquid.Template(source, undefined=StrictUndefined) uses a memoised implicit environment; a template made
            # with the default undefined type in between (and one before) must not change what this one does
            import liquid

            liquid.Template("{{ a }}")
            t = drv.call(liquid.Template, case["source"], undefined=U.StrictUndefined)
            liquid.Template("{{ b }}")
            oi = drv.render(t.value, data) if t.ok else t
            td = drv.call(liquid.Template, case["source"])
            od = drv.render(td.value, data) if td.ok else td
            ctx.count("implicit_environment_probes")
            if oi.ok or oi.err_class != "UndefinedError":
                ctx.evaluations += 1
                ctx.violation("strict-does-not-raise:implicit-environment-shared-with-default-undefined", f"liquid.Template({case['source']!r}, undefined=StrictUndefined), with default templates made before and after it, gave {oi.brief()} instead of UndefinedError")
                return
            if not od.ok and od.err_class == "UndefinedError":
                ctx.evaluations += 1
                ctx.violation("default-raises:implicit-environment-shared-with-strict-undefined", f"liquid.Template({case['source']!r}) made after a StrictUndefined template raised UndefinedError")
                return
        if o.ok or o.err_class != "UndefinedError":
            ctx.evaluations += 1
            ctx.violation(f"strict-does-not-raise:{case['probe']}", f"StrictUndefined: {case['source']!r} gave {o.brief()} instead of UndefinedError")
            return
        d, _ = run(case, "default", data)
        if not d.ok and (d.err_class == "UndefinedError" or not d.is_liquid_error):
            # "the default undefined type never raises for a missing variable or path": not UndefinedError, and no foreign exception from
            # the machinery that reports the missing path either (other Liquid errors, e.g. a filter rejecting its argument, are not judged)
            ctx.evaluations += 1
            ctx.violation(f"default-raises:{case['probe']}" + ("" if d.err_class == "UndefinedError" else f":{d.err_class}"), f"default Undefined: {case['source']!r} raised {d.err_class}: {drv.safe_str(d.exc)[:100]}")
            return
        ctx.ok((case["source"],), nontrivial=True)
        return
    d, created = run(case, "default", data)
    ctx.count("undefined_created_default", created)
    if not d.ok:
        if d.err_class == "UndefinedError":
            ctx.evaluations += 1
            ctx.violation(f"default-raises:{construct_of(case['source'])}", f"default Undefined raised UndefinedError: {drv.safe_str(d.exc)[:100]} for {case['source']!r:.200}")
            return
        if not d.is_liquid_error:
            ctx.count("non_liquid_error_forwarded_to_C02")
        else:
            ctx.count("default_render_liquid_error_skipped")
        return
    for kind in ("strict", "falsy_strict", "strict_default"):
        o, _ = run(case, kind, data)
        if o.ok:
            ctx.count("strict_succeeded")
            if o.value != d.value:
                def pred(src: str, kind=kind) -> bool:
                    c = dict(case, source=src)
                    a, _ = run(c, "default", data)
                    b, _ = run(c, kind, data)
                    return a.ok and b.ok and a.value != b.value

                from harness import shrink

                small = shrink.shrink_source(case["source"], pred)
                ctx.evaluations += 1
                ctx.violation(f"strict-output-differs:{kind}:{construct_of(small)}", f"{kind}: {small!r:.300} renders {run(dict(case, source=small), kind, data)[0].brief()} but default renders {run(dict(case, source=small), 'default', data)[0].brief()}", {"source": case["source"]})
                return
        elif o.err_class == "UndefinedError":
            ctx.count("strict_raised_UndefinedError")
        elif not o.is_liquid_error:
            ctx.count("non_liquid_error_forwarded_to_C02")
        else:
            ctx.count(f"strict_other_error:{o.err_class}")
    ctx.ok((case["source"], case["data"]), nontrivial=created > 0)


def drop_subpaths(rng, d: Any, p: float) -> Any:
    if isinstance(d, dict):
        return {k: drop_subpaths(rng, v, p) for k, v in d.items() if rng.random() > p}
    if isinstance(d, list):
        return [drop_subpaths(rng, v, p) for v in d]
    return d


def gen_case(rng) -> dict[str, Any]:
    flags = {}
    for f in ("ternary_expressions", "logical_not_operator", "logical_parentheses"):
        if rng.random() < 0.4:
            flags[f] = True
    cfg = tpl.GenCfg(ternary=flags.get("ternary_expressions", False), logical_not=flags.get("logical_not_operator", False),
                     parens=flags.get("logical_parentheses", False), partial_names=["p", "q"], max_nodes=8, wild=0.1)
    g = tpl.Gen(rng, cfg)
    src = tpl.print_nodes(g.template(1, 4), tpl.Style(wc=0.05), rng)
    data = drop_subpaths(rng, tpl.make_data(rng, hostile=0.03, drop=0.3), 0.2)
    data["pname"] = "p"
    return {"source": src, "data": V.enc(data), "env": {"flags": flags}, "async": rng.random() < 0.15}


PROBES = [
    ("output", "{{ nosuch }}"), ("output-path", "{{ h.nosuch }}"), ("output-deep", "{{ nosuch.a.b }}"), ("echo", "{% echo nosuch %}"),
    ("iterate", "{% for i in nosuch %}x{% endfor %}"), ("iterate-tablerow", "{% tablerow i in nosuch %}x{% endtablerow %}"),
    ("compare-eq", "{% if nosuch == 1 %}y{% endif %}"), ("compare-lt", "{% if nosuch < 1 %}y{% endif %}"), ("compare-contains", "{% if nosuch contains 'a' %}y{% endif %}"),
    ("compare-case", "{% case nosuch %}{% when 1 %}y{% endcase %}"), ("truthy", "{% if nosuch %}y{% endif %}"), ("unless", "{% unless nosuch %}y{% endunless %}"),
    ("filter-upcase", "{{ nosuch | upcase }}"), ("filter-size", "{{ nosuch | size }}"), ("filter-join", "{{ nosuch | join: ',' }}"), ("filter-plus", "{{ nosuch | plus: 1 }}"),
    ("filter-arg", "{{ 'a' | append: nosuch }}"), ("filter-first", "{{ nosuch | first }}"), ("assign-output", "{% assign v = nosuch %}{{ v }}"),
    ("capture", "{% capture v %}{{ nosuch }}{% endcapture %}"), ("index", "{{ xs[9] }}"), ("range", "{% for i in (1..nosuch) %}x{% endfor %}"),
    ("cycle", "{% cycle nosuch, 'b' %}"), ("include-arg", "{% include 'p', v: nosuch %}"), ("render-arg", "{% render 'p', v: nosuch %}"),
    # missing values that the engine makes itself: they are of the configured type too
    ("parentloop-of-an-outermost-loop", "{% for x in xs %}{{ forloop.parentloop.index }}{% endfor %}"), ("parentloop-output", "{% for x in xs %}{{ forloop.parentloop }}{% endfor %}"),
    ("parentloop-compared", "{% for x in xs %}{% if forloop.parentloop.first == true %}y{% endif %}{% endfor %}"), ("parentloop-iterated", "{% for x in xs %}{% for y in forloop.parentloop %}z{% endfor %}{% endfor %}"),
    ("parentloop-filtered", "{% for x in xs %}{{ forloop.parentloop | upcase }}{% endfor %}"), ("parentloop-in-render-for", "{% render 'pl' for xs %}"), ("parentloop-in-include-for", "{% include 'pl' for xs %}"),
    ("parentloop-in-tablerow", "{% tablerow x in xs %}{{ forloop.index }}{% endtablerow %}"), ("loop-helper-missing-property", "{% for x in xs %}{{ forloop.nosuch }}{% endfor %}"),
    ("tablerow-helper-missing-property", "{% tablerow x in xs %}{{ tablerowloop.nosuch }}{% endtablerow %}"), ("parentloop-two-levels-up", "{% for x in xs %}{% for y in xs %}{{ forloop.parentloop.parentloop.index }}{% endfor %}{% endfor %}"),
]


# paths that certainly do not resolve against PROBE_DATA x contexts that output / iterate / compare / filter them
MISSING = [
    "nosuch", "h.nosuch", "h['nosuch']", "h[nosuch]", "nosuch.a.b", "h.a.b", "xs[9]", "xs[-9]", "xs.nosuch", "e.first", "e.last", "e[0]", "e[-1]", "eh.first", "eh.last",
    "eh.k", "s.nope", "s[0].x", "xs[0].y", "d.a.nope.x", "d.list[3]", "d.list.first.z", "n.size.x", "['nosuch']", "h.e2.first", "h.e2[0]",
]
USES = [
    ("output", "{{ @ }}"), ("echo", "{% echo @ %}"), ("iterate", "{% for i in @ %}x{% endfor %}"), ("iterate-tablerow", "{% tablerow i in @ %}x{% endtablerow %}"),
    ("compare-eq", "{% if @ == 1 %}y{% endif %}"), ("compare-ne-right", "{% if 1 != @ %}y{% endif %}"), ("compare-lt", "{% if @ < 1 %}y{% endif %}"),
    ("compare-contains", "{% if @ contains 'a' %}y{% endif %}"), ("compare-case", "{% case @ %}{% when 1 %}y{% endcase %}"), ("compare-when", "{% case 1 %}{% when @ %}y{% endcase %}"),
    ("filter-upcase", "{{ @ | upcase }}"), ("filter-size", "{{ @ | size }}"), ("filter-join", "{{ @ | join: ',' }}"), ("filter-plus", "{{ @ | plus: 1 }}"),
    ("filter-arg", "{{ 'a' | append: @ }}"), ("filter-first", "{{ @ | first }}"), ("assign-output", "{% assign v = @ %}{{ v }}"), ("capture", "{% capture v %}{{ @ }}{% endcapture %}"),
    ("liquid-echo", "{% liquid\n echo @\n%}"), ("range", "{% for i in (1..@) %}x{% endfor %}"),
    # iterating with loop arguments: the iterable is touched whatever the arguments say
    ("iterate-limit-0", "{% for i in @ limit: 0 %}x{% else %}e{% endfor %}"), ("iterate-limit-var", "{% for i in @ limit: zero %}x{% else %}e{% endfor %}"), ("iterate-offset", "{% for i in @ offset: 5 %}x{% endfor %}"),
    ("iterate-reversed", "{% for i in @ reversed %}x{% endfor %}"), ("iterate-tablerow-limit-0", "{% tablerow i in @ limit: 0 %}x{% endtablerow %}"), ("iterate-negative-limit", "{% for i in @ limit: -1 %}x{% endfor %}"),
    ("iterate-offset-continue", "{% for i in @ limit: 0 offset: continue %}x{% endfor %}"), ("index-by-missing", "{{ xs[@] }}"), ("key-by-missing", "{{ h[@] }}{{ d.a[@] }}"),
]
# uses of a missing value that some strict type tolerates (default filter, truthiness, equality with nil / false, a filter argument that
# is only compared): whenever a strict type completes the render, its output must be the default type's output
TOLERANT_USES = [
    "{{ @ | default: 'd' }}", "{{ @ | default: 'd', allow_false: true }}", "{{ @ | default: 'd', allow_false: false }}", "{% assign v = @ | default: 'x' %}[{{ v }}]",
    "{{ @ | default: nosuch2 }}|", "{% if @ %}y{% else %}n{% endif %}", "{% unless @ %}y{% else %}n{% endunless %}", "{% if @ == nil %}y{% else %}n{% endif %}",
    "{% if @ == false %}y{% else %}n{% endif %}", "{% if @ != nil %}y{% else %}n{% endif %}", "{% if nil == @ %}y{% else %}n{% endif %}", "{% if @ == empty %}y{% else %}n{% endif %}",
    "{% if @ == blank %}y{% else %}n{% endif %}", "{% if @ and true %}y{% else %}n{% endif %}", "{% if @ or false %}y{% else %}n{% endif %}", "{% if @ == nosuch2 %}y{% else %}n{% endif %}",
    "{% case @ %}{% when nil %}y{% else %}n{% endcase %}", "{% case nil %}{% when @ %}y{% else %}n{% endcase %}", "{{ os | has: 'k', @ }}", "{{ os | has: 'j', @ }}",
    "{{ os | find: 'k', @ | json }}", "{{ os | find_index: 'j', @ }}", "{{ os | where: 'k', @ | size }}", "{{ os | reject: 'k', @ | size }}", "{{ os | map: 'k' | compact | size }}",
    "{{ xs | concat: e | first | default: @ | default: 'z' }}", "{% if xs contains @ %}y{% else %}n{% endif %}", "{{ 'a' | default: @ }}", "{{ false | default: @, allow_false: true }}|",
    "{{ nil | default: @ | default: 'q' }}", "{% assign w = @ %}{% if w %}y{% else %}n{% endif %}", "{% capture w %}{% if @ %}y{% endif %}{% endcapture %}[{{ w }}]",
]
# two missing values in one template, in places that do not print them: what a missing value *is* (which path, which hint) must not leak into
# anything the default type and the strict types do differently
PAIR_PATHS = ["nosuch", "nosuch2", "h.x", "h.y", "h.x.k", "h.y.k", "h['x']", "xs[8]", "xs[9]", "d.a.nope", "d.a.nope2", "e.first", "e.last", "s.nope"]
PAIR_USES = [
    "{% cycle 1, 2, @1 %}{% cycle 1, 2, @2 %}", "{% cycle 1, @1 %}|{% cycle 1, @2 %}", "{% cycle 'a', 'b', @1 %}{% cycle 'a', 'b', @2 %}{% cycle 'a', 'b', @1 %}",
    "{% for i in (1..2) %}{% cycle 1, 2, 3, @1 %}{% cycle 1, 2, 3, @2 %}{% endfor %}", "{% cycle 'g': 1, 2, @1 %}{% cycle 'g': 1, 2, @2 %}", "{% cycle @1: 1, 2 %}{% cycle @2: 1, 2 %}",
    "{% cycle @1, 1, 2 %}{% cycle @2, 1, 2 %}{% cycle @1, 1, 2 %}{% cycle @2, 1, 2 %}", "{% if @1 == @2 %}y{% else %}n{% endif %}", "{{ @1 | default: @2 | default: 'z' }}",
    "{% assign v = @1 %}{% assign w = @2 %}{% if v == w %}y{% else %}n{% endif %}", "{{ os | where: 'k', @1 | size }}{{ os | where: 'k', @2 | size }}", "{% case @1 %}{% when @2 %}y{% else %}n{% endcase %}",
    "{% ifchanged %}{% if @1 %}a{% else %}b{% endif %}{% endifchanged %}{% ifchanged %}{% if @2 %}a{% else %}b{% endif %}{% endifchanged %}",
    "{% assign l = @1 | default: nil %}{% assign r = @2 | default: nil %}{{ l == r }}",
]
# the same differential reading for the tags and filters that only the `extra` environment registers
EXTRA_USES = [
    "{% translate count: @ %}one{% plural %}many{% endtranslate %}", "{% translate count: @ %}one {{ count }}{% plural %}many {{ count }}{% endtranslate %}", "{% translate you: @ %}hello {{ you }}!{% endtranslate %}",
    "{% translate you: @, count: 2 %}one {{ you }}{% plural %}many {{ you }}{% endtranslate %}", "{{ 'one' | ngettext: 'many', @ }}", "{{ 'hello %(you)s' | gettext: you: @ }}|", "{{ 'hello %(you)s' | t: you: @ }}|",
    "{{ 'one %(you)s' | ngettext: 'many %(you)s', 2, you: @ }}|", "{{ 'ctx' | npgettext: 'one', 'many', @ }}", "{% with a: @ %}{% if a %}y{% else %}n{% endif %}{% endwith %}", "{% with a: @ %}[{{ a | default: 'd' }}]{% endwith %}",
    "{% macro m x %}{% if x %}y{% else %}n{% endif %}{% endmacro %}{% call m @ %}", "{% macro m x: @ %}{% if x %}y{% else %}n{% endif %}{% endmacro %}{% call m %}", "{% macro m x %}[{{ x | default: 'd' }}]{% endmacro %}{% call m x: @ %}",
    "{{ 'a' if @ else 'b' }}", "{{ @ if false else 'b' }}", "{{ 'a' if true else @ }}", "{% if not @ %}y{% else %}n{% endif %}", "{% if (@ or true) and true %}y{% else %}n{% endif %}",
]
PROBE_DATA = {"zero": 0, "os": [{"k": 1}, {"j": 2}, {"k": None}, {"k": False}], "h": {"a": 1, "e2": []}, "xs": [1], "e": [], "eh": {}, "s": "str", "n": 5, "d": {"a": {"b": 1}, "list": ["p"]}}


def cases(ctx: core.Ctx):
    for name, src in PROBES:
        yield {"source": src, "data": V.enc({"h": {"a": 1}, "xs": [1]}), "probe": name}
    k = 0
    for path in MISSING:
        for use, t in USES:
            k += 1
            if k % ctx.nshards != ctx.shard:
                continue
            yield {"source": t.replace("@", path), "data": V.enc(PROBE_DATA), "probe": f"{use}:{path_class(path)}", "async": k % 5 == 0, "implicit": k % 6 == 0 and "liquid" not in t}
    for path in MISSING:
        for t in TOLERANT_USES:
            k += 1
            if k % ctx.nshards != ctx.shard:
                continue
            yield {"source": t.replace("@", path), "data": V.enc(PROBE_DATA), "async": k % 4 == 0}
    for path in MISSING:
        for t in EXTRA_USES:
            k += 1
            if k % ctx.nshards != ctx.shard:
                continue
            yield {"source": t.replace("@", path), "data": V.enc(PROBE_DATA), "async": k % 2 == 0, "env": {"extra": True}}
    for p1 in PAIR_PATHS:
        for p2 in PAIR_PATHS:
            for t in PAIR_USES:
                k += 1
                if k % ctx.nshards != ctx.shard or (ctx.tier == "quick" and p1 == p2 and k % 3):
                    continue
                yield {"source": t.replace("@1", p1).replace("@2", p2), "data": V.enc(PROBE_DATA), "async": k % 4 == 0}
    rng = ctx.rng("cases")
    for _ in range(ctx.budget(5000, 400_000)):
        yield gen_case(rng)
