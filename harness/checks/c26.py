"""C26 Null translations leave message text intact.

Monitor: M1 (rendered output).  Oracle: reference model R-translate; plural choice taken from the
standard library's gettext.NullTranslations itself.
"""

from __future__ import annotations

import gettext
import itertools
import re
from typing import Any

from harness import core, drv
from harness.gen import values as V

PROP = "C26"
TECHNIQUE = "reference-model runtime monitor (R-translate) over enumerated message alphabets, with gettext.NullTranslations as plural oracle"
RULE = (
    "messages = all sequences of 1..3 (thorough 4) tokens from {word, space, %, %%, %s, %d, %(you)s, %(n)s, (, ), newline-run, <b>, {, 100%} for "
    "the t / gettext / ngettext / pgettext / npgettext filters (message as string variable and as literal) and for the translate tag (text + "
    "{{ you }} placeholders), with/without plural, count in {-1,0,1,2,5, '2', 1.0}, context and keyword variables. Expected: message with "
    "%(name)s replaced by the stringified variable and nothing else touched (tag: compared after collapsing whitespace runs). "
    "Non-trivial = message containing a % sign or a placeholder or a plural choice, distinct by source+data."
    " Rounds 5-6 added enumerated families: hyphenated and ?-suffixed placeholder names; percent signs inside variable values; count / plural / context combinations chosen independently of the enumeration order."
    " Round 7 added: given-and-nil message variables under five undefined types."
)
REQUIRED = [
    ("liquid/extra/filters/translate.py", "BaseTranslateFilter.format_message"),
    ("liquid/extra/filters/translate.py", "Translate.__call__"),
    ("liquid/extra/filters/translate.py", "NGetText.__call__"),
    ("liquid/extra/tags/translate_tag.py", "TranslateNode.render_to_output"),
    ("liquid/extra/tags/translate_tag.py", "TranslateTag.validate_message_block"),
]

_env = None
NULL = gettext.NullTranslations()
PH = re.compile(r"(?<!%)%\(([\w-]+\??)\)s")  # a variable name may hold hyphens, like every Liquid identifier
WSRUN = re.compile(r"\s+")


def env(undefined: str = "default"):
    global _env
    if undefined != "default":
        if undefined not in _und_envs:
            _und_envs[undefined] = drv.make_env({"extra": True, "undefined": undefined})
        return _und_envs[undefined]
    if _env is None:
        _env = drv.make_env({"extra": True})
    return _env


_und_envs: dict[str, Any] = {}


def _txt(v: Any) -> str:
    return "" if v is None else str(v)


def fmt(msg: str, vars_: dict[str, Any]) -> str:
    return PH.sub(lambda m: _txt(vars_.get(m.group(1), "")), msg)


def plural_pick(s: str, p: str, n: Any):
    """Null-translation plural choice for integer counts; None when the count is not an integer (unspecified)."""
    if isinstance(n, bool) or not isinstance(n, int):
        return None
    return NULL.ngettext(s, p, n)


def classify(msg: str) -> str:
    """Mechanism id: does the message contain a % that is not part of a well-formed %(name)s placeholder?"""
    if re.search(r"%\{\{\s*[\w-]+\??\s*\}\}", msg):
        return "percent-directly-before-placeholder"  # tag bodies only
    rest = re.sub(r"%\([\w-]+\??\)s", "", msg)
    if "%" in rest:
        return "literal-percent"
    if PH.search(msg):
        return "placeholder"
    return "plain"


def judge(ctx: core.Ctx, case: dict[str, Any]) -> None:
    e = env(case.get("undefined", "default"))
    k = case["kind"]
    msg = case["msg"]
    vars_ = dict(case.get("vars") or {})
    data: dict[str, Any] = {"m": msg, "pl": case.get("plural"), "cnt": V.dec(case["count"]) if "count" in case else None, "ctxv": case.get("context")}
    if case.get("outer"):
        # render data named like the message variables: the value given with the filter / tag is the one that is interpolated, nil included
        data.update({"you": "OUTER-YOU", "n": "OUTER-N", "user-name": "OUTER-UN", "ok?": "OUTER-OK"})
    count = data["cnt"]
    chosen = msg
    if k == "tag":
        args = []
        if "count" in case:
            args.append("count: cnt")
        if case.get("context") is not None:
            args.append("context: ctxv")
        for name in vars_:
            data["val_" + name] = vars_[name]
            args.append(f"{name}: nil" if vars_[name] is None and case.get("nil_literal") else f"{name}: val_{name}")
        body = case["body"]
        src = "{% translate " + ", ".join(args) + " %}" + body + ("{% plural %}" + case["plural_body"] if case.get("plural_body") is not None else "") + "{% endtranslate %}"
        sing = body
        if case.get("plural_body") is not None:
            plur = case["plural_body"]
            n = count if "count" in case else 1
            if isinstance(n, str) and re.fullmatch(r"-?\d+", n):
                n = int(n)
            pick = plural_pick("S", "P", n)
            if pick is None:
                ctx.unspecified("non-integer-count")
                return
            chosen = sing if pick == "S" else plur
        else:
            chosen = sing
        allvars = dict(vars_)
        if "count" in case:
            allvars.setdefault("count", count)
        # only {{ name }} placeholders are substituted; literal text (even text that looks like %(name)s) is left alone
        outer = {"you": "OUTER-YOU", "n": "OUTER-N", "user-name": "OUTER-UN", "ok?": "OUTER-OK"} if case.get("outer") else {}
        # a placeholder names a variable of the block's scope: the tag's own arguments first (nil included), then whatever the name means outside
        # "the tag also collapses whitespace runs": the message text is stripped and every whitespace run that holds a line break becomes
        # one space (documented behaviour of the tag); what a variable's own value contains is left alone
        chosen_n = re.sub(r"\s*\n\s*", " ", chosen.strip())
        exp = re.sub(r"\{\{\s*([\w-]+\??)\s*\}\}", lambda m2: _txt(allvars[m2.group(1)] if m2.group(1) in allvars else outer.get(m2.group(1), "")), chosen_n)
        o = drv.parse_and_render(e, src, data, use_async=case.get("async", False))
        norm = lambda s: s  # noqa: E731 - compared exactly
    else:
        f = case["filter"]
        left = "m" if not case.get("literal") else None
        if left is None:
            q = "'" if "'" not in msg else '"'
            if q in msg or "\n" in msg:
                left = "m"
            else:
                left = f"{q}{msg}{q}"
        pos: list[str] = []
        kw: list[str] = []
        plural = case.get("plural")
        if f == "gettext":
            pass
        elif f == "ngettext":
            pos += ["pl", "cnt"]
        elif f == "pgettext":
            pos += ["ctxv"]
        elif f == "npgettext":
            pos += ["ctxv", "pl", "cnt"]
        elif f == "t":
            if case.get("context") is not None:
                pos.append("ctxv")
            if plural is not None:
                kw.append("plural: pl")
            if "count" in case:
                kw.append("count: cnt")
        for name in vars_:
            data["val_" + name] = vars_[name]
            kw.append(f"{name}: nil" if vars_[name] is None and case.get("nil_literal") else f"{name}: val_{name}")
        args = ", ".join(pos + kw)
        src = "{{ " + left + " | " + f + (": " + args if args else "") + " }}"
        if f in ("ngettext", "npgettext") or (f == "t" and plural is not None and "count" in case):
            n = count
            if isinstance(n, str) and re.fullmatch(r"-?\d+", n):
                n = int(n)
            pick = plural_pick("S", "P", n)
            if pick is None:
                ctx.unspecified("non-integer-count")
                return
            chosen = msg if pick == "S" else plural
        allvars = dict(vars_)
        if "count" in case and f == "t":
            allvars.setdefault("count", count)
        if case.get("outer"):
            # a placeholder the filter's own arguments do not name is looked up in the render context
            allvars = {**{"you": "OUTER-YOU", "n": "OUTER-N", "user-name": "OUTER-UN", "ok?": "OUTER-OK"}, **allvars}
        exp = fmt(chosen, allvars)
        o = drv.parse_and_render(e, src, data, use_async=case.get("async", False))
        norm = lambda s: s  # noqa: E731
    if not o.ok:
        if not o.is_liquid_error:
            ctx.count("non_liquid_error_also_C02")
        ctx.evaluations += 1
        mech = classify(chosen)
        ctx.violation(f"{k}:literal-percent" if mech == "literal-percent" else f"{k}:raises-{o.err_class}:{mech}", f"{src!r} with message {chosen!r} raised {o.err_class}: {drv.safe_str(o.exc)[:80]}", {"source": src})
        return
    if norm(o.value) != norm(exp):
        ctx.evaluations += 1
        what = "plural-choice" if chosen != msg and norm(o.value) == norm(fmt(msg, vars_)) else classify(chosen)
        ctx.violation(f"{k}:literal-percent" if what == "literal-percent" else f"{k}:text-changed:{what}", f"{src!r} with message {chosen!r} vars {vars_!r} count {count!r} rendered {o.value!r}, expected {exp!r}", {"source": src})
        return
    ctx.ok((src, case.get("msg"), case.get("vars"), case.get("count"), case.get("plural")), nontrivial=("%" in msg or "count" in case or bool(vars_)))


TOKENS = ["Hello", " ", "%", "%%", "%s", "%d", "%(you)s", "%(n)s", "%(count)s", "(", ")", "\n  ", "<b>", "{", "100%", "%(", ")s", "é", "%(user-name)s", "%(ok?)s"]
TAG_TOKENS = ["Hello", " ", "%", "%%", "%s", "%(you)s", "(", ")", "\n  ", "<b>", "100%", "{{ you }}", "{{ n }}", "é", "  ", "\n\n", " \r\n \n\t", "{{ user-name }}", "{{ ok? }}"]
COUNTS: list[Any] = [-1, 0, 1, 2, 5, "2", 1.0, None]


def defined_nil_cases():
    """A message variable that is *given* and is nil, under every undefined type: it is a value (it prints as nothing), not a missing name,
    so the message comes out whole whatever the environment does about missing names."""
    i = 0
    for und in ("default", "strict", "strict_default", "falsy_strict", "debug"):
        for msg in ("100% for %(you)s, (50% off)", "%(you)s", "Hello %(you)s and %(n)s!", "%%(you)s %(you)s"):
            for f in ("t", "gettext", "ngettext", "pgettext", "npgettext"):
                for nil_literal in (False, True):
                    i += 1
                    c: dict[str, Any] = {"kind": "filter", "filter": f, "msg": msg, "literal": bool(i % 2), "async": i % 3 == 0, "vars": {"you": None, "n": 3}, "nil_literal": nil_literal, "undefined": und, "outer": i % 4 == 0}
                    if f in ("ngettext", "npgettext"):
                        c["plural"], c["count"] = "many %(you)s", V.enc(1 + i % 2)
                    if f in ("pgettext", "npgettext"):
                        c["context"] = "ctx"
                    yield c
        for body in ("100% for {{ you }}, (50% off)", "{{ you }}", "Hello {{ you }} and {{ n }}!"):
            for nil_literal in (False, True):
                for plural in (None, "many {{ you }}"):
                    i += 1
                    c = {"kind": "tag", "msg": body, "body": body, "async": i % 3 == 0, "vars": {"you": None, "n": 3}, "nil_literal": nil_literal, "undefined": und, "outer": i % 4 == 0}
                    if plural:
                        c["plural_body"], c["count"] = plural, V.enc(1 + i % 2)
                    yield c


def cases(ctx: core.Ctx):
    for gi, c in enumerate(defined_nil_cases()):
        if gi % ctx.nshards == ctx.shard:
            yield c
    rng = ctx.rng("cases")
    L = 3 if ctx.tier == "quick" else 4
    idx = 0
    for n in range(1, L + 1):
        for toks in itertools.product(TOKENS, repeat=n):
            idx += 1
            if idx % ctx.nshards != ctx.shard:
                continue
            msg = "".join(toks)
            f = ["t", "gettext", "ngettext", "pgettext", "npgettext"][idx % 5]
            c: dict[str, Any] = {"kind": "filter", "filter": f, "msg": msg, "literal": bool(idx % 3 == 0), "async": idx % 13 == 0}
            if "%(user-name)s" in msg and idx % 3:
                c.setdefault("vars", {})["user-name"] = ["Ann", 7, ""][idx % 3]
            if "%(ok?)s" in msg and idx % 3:
                c.setdefault("vars", {})["ok?"] = ["yes", 0, ""][idx % 3]
            if idx % 2:
                c.setdefault("vars", {})["you"] = rng.choice(["Sue", "", "%s", 5, None, "100%% wool", "50%", "%off", "%(n)s"])
                c["outer"] = idx % 4 == 1
                c["nil_literal"] = idx % 8 == 1
            if f in ("ngettext", "npgettext") or (f == "t" and idx % 4 == 0):
                c["plural"] = rng.choice(["%(n)s items", "many", "100% of %(you)s", msg + "s"])
                c["count"] = V.enc(rng.choice(COUNTS[:-1]))
                if rng.random() < 0.5:
                    c.setdefault("vars", {})["n"] = 3
            elif f == "t" and idx % 4 == 1:
                c["count"] = V.enc(rng.choice(COUNTS[:-1]))  # a count without a plural form: still a message variable
            elif f in ("gettext", "pgettext") and idx % 4 == 2:
                c.setdefault("vars", {})["count"] = rng.choice([3, "x"])
            if f in ("pgettext", "npgettext") or (f == "t" and idx % 6 == 0):
                c["context"] = rng.choice(["ctx", "", "%"])
            yield c
    # count / plural / context as message variables, in every combination the t filter accepts (independent of the enumeration order above:
    # picking options by position in the product ties what is covered to the size of the alphabet)
    for a, b in itertools.product(["", "Hello ", "<b>", "("], ["%(count)s", "%(count)s of %(n)s", "%(you)s has %(count)s", "%(context)s|%(count)s", "%(plural)s|%(count)s"]):
        msg = a + b
        for has_plural, has_count, has_ctx, cnt in itertools.product((False, True), (False, True), (False, True), (0, 1, 2, "2")):
            idx += 1
            if idx % ctx.nshards != ctx.shard:
                continue
            c = {"kind": "filter", "filter": "t", "msg": msg, "literal": bool(idx % 2), "async": idx % 7 == 0, "vars": {"you": "Sue", "n": 3}}
            if has_plural:
                c["plural"] = "%(count)s items for %(you)s"
            if has_count:
                c["count"] = V.enc(cnt)
            if has_ctx:
                c["context"] = "ctx"
            c["outer"] = idx % 3 == 0
            if ("%(context)s" in msg and has_ctx) or "%(plural)s" in msg or (not has_count and "%(count)s" in msg and c["outer"] is False and False):
                continue  # (whether the selecting arguments themselves are message variables is not settled)
            yield c
    for n in range(1, L + 1):
        for toks in itertools.product(TAG_TOKENS, repeat=n):
            idx += 1
            if idx % ctx.nshards != ctx.shard:
                continue
            body = "".join(toks)
            c = {"kind": "tag", "msg": body, "body": body, "async": idx % 13 == 0}
            vs = {}
            if "{{ you }}" in body and idx % 3:
                vs["you"] = rng.choice(["Sue", "%s", "", 7, None, "100%% wool", "50%", "%off", "%(you)s"])
                c["outer"] = idx % 2 == 0
                c["nil_literal"] = idx % 4 == 0
            if "{{ n }}" in body and idx % 2:
                vs["n"] = rng.choice([1, "x"])
            if "{{ ok? }}" in body and idx % 3:
                vs["ok?"] = ["yes", 0, ""][idx % 3]
            if "{{ user-name }}" in body:
                # identifiers may hold hyphens: as a tag argument, or (every third time) left to the render context
                if idx % 3:
                    vs["user-name"] = ["Ann", "%s", 7][idx % 3]
                else:
                    c["outer"] = True
            if vs:
                c["vars"] = vs
            if idx % 3 == 0:
                c["plural_body"] = rng.choice(["Many {{ you }}", "%d items", "{{ count }} of 100%", body + " more"])
                c["count"] = V.enc(rng.choice(COUNTS[:-1]))
            if idx % 7 == 0:
                c["context"] = "c"
            yield c
    ctx.extra["exhaustive"] = True
    ctx.extra["message_alphabet"] = len(TOKENS)
    ctx.extra["max_tokens"] = L
