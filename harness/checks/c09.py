"""C09 Parsing and rendering always terminate within the stack.

Termination is decided as *bounded progress* on a logical clock (M4: sys.monitoring PY_START + LINE + JUMP events): parsing a source of
n characters must finish within A + B*n steps, rendering a recursion family within a fixed step budget.  A RAISE-event sentinel counts
every RecursionError raised anywhere, even when it is later wrapped in a Liquid error.  CPU time (never wall time) is a second guard
for work done inside the regex engine; a trip is re-measured three times in isolated child processes before it counts.
"""

from __future__ import annotations

import itertools

import json
import os
import resource
import signal
import subprocess
import sys
import time
from typing import Any

from liquid import DictLoader

from harness import core, drv
from harness.gen import malformed as MF
from harness.gen import tpl
from harness.mon.stepclock import StepBudgetExceeded, StepClock

PROP = "C09"
TECHNIQUE = "runtime monitor with a logical step clock (sys.monitoring) and a RecursionError sentinel; bounded-progress oracle over malformed sources and recursion families"
RULE = (
    "parse cases: generated templates, token-level mutations, tag/expression fragments and markup soup up to 8 KB, plus every opener / fragment of a "
    "fixed list repeated 10..800 times (unterminated and unbalanced block tags, bare case, repeated openers, unterminated strings and brackets), in strict "
    "and lax mode; judged: parse ends (result or Liquid error) within 50 000 + 1 000 x len(source) clock steps (about 40x the worst ratio measured on the "
    "pinned tree), no RecursionError raised anywhere, CPU time under 10 s. recursion families: cycles of length 1..4 of templates that include / "
    "render / extend / call-a-macro-of / inherit-block-structure-from the next one, the recursive call placed at block depth 0..30 inside if / for / "
    "unless / case / capture / tablerow / with / liquid nests, extends cycles that do or do not pass through the leaf, an include inside an overridden "
    "block that leads back to the extending template; strict mode; judged: the render ends within 3 000 000 steps in success or a ContextDepthError / "
    "TemplateInheritanceError / other ResourceLimitError, and no RecursionError is raised anywhere. Non-trivial = source with >= 1 markup token, or a "
    "family with a real cycle; distinct by content."
    " Rounds 5-6 added enumerated families: tolerant-mode families with fan-out 1-3 (also inside 13 / 20 nested blocks); long cycles (5-24 partials) mixing include / render / render-for; expression-level opener x filler runs."
    " Round 7 added: render-extends and include-in-block recursion with 1-3 calls per level in lax / warn mode."
)
REQUIRED = [
    ("liquid/parser.py", "Parser.parse_block"),
    ("liquid/builtin/tags/case_tag.py", "CaseTag.parse"),
    ("liquid/context.py", "RenderContext.copy"),
    ("liquid/context.py", "RenderContext.extend"),
    ("liquid/extra/tags/extends_tag.py", "_build_block_stacks"),
    ("liquid/extra/tags/macro_tag.py", "CallNode.render_to_output"),
    ("liquid/template.py", "BoundTemplate.render_with_context"),
]
MIN_COUNTERS = {"parse_cases": 1000, "family_cases": 300, "families_cut_off_by_ContextDepthError": 100, "families_cut_off_by_TemplateInheritanceError": 10, "clock_steps": 1_000_000}
CASE_WATCHDOG_S = 300.0
PARSE_A, PARSE_B = 50_000, 1_000
RENDER_BUDGET = 3_000_000
CPU_S = 4.0

CLOCK = StepClock()


class CpuBudgetExceeded(BaseException):
    pass


def setup(ctx: core.Ctx) -> None:
    if not CLOCK.install():
        raise core.Inconclusive("sys.monitoring tool id for the step clock is taken")


def finish(ctx: core.Ctx) -> None:
    CLOCK.uninstall()


def clocked(fn, budget: int):
    """(outcome, steps, recursion_errors, max_depth, tripped); outcome is a drv.Outcome or 'steps' / 'cpu'."""

    def on_cpu(signum, frame):
        raise CpuBudgetExceeded()

    old = signal.signal(signal.SIGVTALRM, on_cpu)
    signal.setitimer(signal.ITIMER_VIRTUAL, CPU_S)
    CLOCK.start(budget)
    try:
        try:
            out: Any = fn()
        except StepBudgetExceeded:
            out = "steps"
        except CpuBudgetExceeded:
            out = "cpu"
    finally:
        CLOCK.stop()
        signal.setitimer(signal.ITIMER_VIRTUAL, 0)
        signal.signal(signal.SIGVTALRM, old)
    return out, CLOCK.steps, CLOCK.recursion_errors, CLOCK.max_depth


_envs: dict[tuple, Any] = {}


def env(mode: str, limits: tuple = ()):
    k = (mode, limits)
    if k not in _envs:
        _envs[k] = drv.make_env({"extra": True, "mode": mode, "limits": dict(limits), "flags": {"ternary_expressions": True, "logical_not_operator": True, "logical_parentheses": True}})
    return _envs[k]


CHILD = r"""
import sys, time, json
sys.path[:0] = json.loads(sys.argv[1])
from liquid import Environment, Mode
src = sys.stdin.read()
t = time.process_time()
try:
    Environment(extra=True, tolerance=Mode.LAX if sys.argv[2] == 'lax' else Mode.STRICT).from_string(src)
except Exception:
    pass
print(time.process_time() - t)
"""


def confirm_cpu(source: str, mode: str) -> str:
    """Re-measure the parse three times in isolated children (no monitors): 'violation' only if every run is over the bound."""
    over = 0
    for _ in range(3):
        try:
            p = subprocess.run([sys.executable, "-c", CHILD, json.dumps([core.REPO]), mode], input=source, capture_output=True, text=True, timeout=CPU_S * 6)
            t = float(p.stdout.strip() or "0")
            if t > CPU_S / 2:
                over += 1
        except subprocess.TimeoutExpired:
            over += 1
        except ValueError:
            pass
    return "violation" if over == 3 else "inconclusive"


def max_bracket_nesting(src: str) -> int:
    d = m = 0
    for ch in src:
        if ch in "([":
            d += 1
            m = max(m, d)
        elif ch in ")]" and d:
            d -= 1
    import re

    runs = [len(r.group(0).split()) for r in re.finditer(r"(?:\bnot\s+){2,}", src)]  # a chain of prefix operators nests just the same
    # and / or group from the right, so a long flat chain inside one tag is a deep right spine too
    chains = [len(re.findall(r"\b(?:and|or)\b", mk)) for mk in re.findall(r"\{%.*?%\}|\{\{.*?\}\}", src, re.S)]
    return max([m] + runs + chains)


def fragment_of(src: str) -> str:
    import re

    m = re.search(r"\{%-?\s*(#|\w*)", src)
    if m:
        return "tag:" + (m.group(1) or "<noname>")
    return "output" if "{{" in src else "text"


def judge_parse(ctx: core.Ctx, case: dict[str, Any]) -> None:
    src = case["source"]
    mode = case.get("mode", "strict")
    e = env(mode)
    budget = PARSE_A + PARSE_B * len(src)
    out, steps, rec, depth = clocked(lambda: drv.parse(e, src), budget)
    ctx.count("parse_cases")
    ctx.count("clock_steps", steps)
    ctx.evaluations += 1
    ratio = steps / (len(src) + 50)
    if ratio > ctx.extra.get("max_parse_steps_per_char", 0):
        ctx.extra["max_parse_steps_per_char"] = round(ratio, 2)
    if depth > ctx.extra.get("max_python_stack_depth_parse", 0):
        ctx.extra["max_python_stack_depth_parse"] = depth
    if out == "steps":
        small = shrink_parse(src, mode)
        ctx.violation(
            f"parse-exceeds-step-budget:{fragment_of(small)}",
            f"parsing {len(src)} characters ({mode}) did not finish within {budget} clock steps; shrunk source {small!r:.200}",
            {"source": src[:2000], "shrunk": small},
        )
        return
    if out == "cpu":
        verdict = confirm_cpu(src, mode)
        if verdict == "violation":
            ctx.violation(f"parse-cpu-time:{fragment_of(src)}", f"parsing {len(src)} characters ({mode}) used more than {CPU_S}s CPU with only {steps} clock steps, three times in isolated processes: {src!r:.200}", {"source": src[:4000]})
        else:
            ctx.inconclusive(f"CPU guard fired once for a {len(src)}-character source but was not reproduced in isolation")
        return
    if rec:
        nest = max_bracket_nesting(src)
        ctx.violation(
            "RecursionError-while-parsing:expression-nested-or-chained-150-or-more-levels" if nest >= 150 else f"RecursionError-while-parsing:{fragment_of(src)}",
            f"parsing {len(src)} characters ({mode}) raised RecursionError {rec}x inside the library (final outcome {out.brief()!r:.120}, max Python stack depth {depth}): {src!r:.160}",
            {"source": src[:3000]},
        )
        return
    if not out.ok and not out.is_liquid_error:
        ctx.count("non_liquid_error_forwarded_to_C02")
    h = core.stable_hash([src, mode])
    if ("{%" in src or "{{" in src) and h not in ctx.nontrivial_hashes:
        ctx.nontrivial_hashes.add(h)
        if len(ctx.samples) < 3 and len(ctx.nontrivial_hashes) in (1, 100, 1000):
            ctx.samples.append({"kind": "parse", "source": src[:300], "mode": mode})


def shrink_parse(src: str, mode: str) -> str:
    e = env(mode)

    def still(s: str) -> bool:
        out, _, _, _ = clocked(lambda: drv.parse(e, s), PARSE_A + PARSE_B * len(s))
        return out == "steps"

    cur = src
    for _ in range(12):
        half = cur[: len(cur) // 2]
        if half and still(half):
            cur = half
            continue
        other = cur[len(cur) // 2 :]
        if other and still(other):
            cur = other
            continue
        break
    return cur


# ------------------------------------------------------------------------------ recursion families

WRAPPERS = {
    "if": ("{% if true %}", "{% endif %}"), "else": ("{% if false %}{% else %}", "{% endif %}"), "unless": ("{% unless false %}", "{% endunless %}"),
    "for": ("{% for i in (1..1) %}", "{% endfor %}"), "case": ("{% case 1 %}{% when 1 %}", "{% endcase %}"), "capture": ("{% capture cc %}", "{% endcapture %}{{ cc }}"),
    "tablerow": ("{% tablerow i in (1..1) %}", "{% endtablerow %}"), "with": ("{% with zz: 1 %}", "{% endwith %}"), "ifchanged": ("{% ifchanged %}", "{% endifchanged %}"),
}


def wrap(call: str, wrappers: list[str]) -> str:
    for w in reversed(wrappers):
        a, b = WRAPPERS[w]
        call = a + call + b
    return call


def build_family(case: dict[str, Any]) -> tuple[dict[str, str], str]:
    """Templates of the family and the name of the one to render."""
    kind = case["family"]
    n = case["cycle"]
    ws = case["wrappers"]
    # directory-qualified names: a loaded template's own name is its basename, which differs from the name the tag asked for
    style = case.get("names", "plain")
    names = [{"plain": f"t{i}", "dirs": f"layouts/sub{i}/t{i}", "samebase": f"d{i}/t"}[style] for i in range(n)]
    tpls: dict[str, str] = {}
    if kind == "mixed-long":
        for i, nm in enumerate(names):
            nxt = names[(i + 1) % n]
            tag = case["tags"][i]
            call = "{% render '" + nxt + "' for xs %}" if tag == "render-for" else "{% " + tag + " '" + nxt + "' %}"
            tpls[nm] = f"<{nm}>" + call
        return tpls, names[0]
    if kind in ("include", "render", "mixed"):
        for i, nm in enumerate(names):
            nxt = names[(i + 1) % n]
            tag = kind if kind != "mixed" else case["tags"][i % len(case["tags"])]
            call = "{% " + tag + " '" + nxt + "' %}"
            if case.get("via_for") and tag == "render":
                call = "{% render '" + nxt + "' for xs %}"
            # (fanout: the template calls its successor more than once, one call after the other: if the first call's error is only reported - a
            # tolerant environment - the second call is made too)
            call = call * case.get("fanout", 1)
            tpls[nm] = f"<{nm}>" + wrap(call, ws if i == 0 or case.get("wrap_all") else [])
        # `include` is not allowed inside a rendered partial: a mixed cycle is built so that includes precede renders only at the entry
        return tpls, names[0]
    if kind == "call":
        body = wrap("{% call 'm0' %}", ws)
        if n == 1:
            src = "{% macro 'm0' %}<m0>" + body + "{% endmacro %}{% call 'm0' %}"
        else:
            src = ""
            for i in range(n):
                src += "{% macro 'm" + str(i) + "' %}<m" + str(i) + ">" + wrap("{% call 'm" + str((i + 1) % n) + "' %}", ws if i == 0 else []) + "{% endmacro %}"
            src += "{% call 'm0' %}"
        return {"t0": src}, "t0"
    if kind == "extends":
        # cycle of extends; `entry` extra templates lead into the cycle without being part of it
        for i, nm in enumerate(names):
            tpls[nm] = "{% extends '" + names[(i + 1) % n] + "' %}{% block b %}<" + nm + ">{% endblock %}"
        leaf = names[0]
        for j in range(case.get("entry", 0)):
            nm = f"e{j}"
            tpls[nm] = "{% extends '" + leaf + "' %}{% block b %}<" + nm + ">{{ block.super }}{% endblock %}"
            leaf = nm
        return tpls, leaf
    if kind == "block-structure":
        # x{ y{super} } over y{ x{} }: resolving the blocks never bottoms out
        tpls["t0"] = "{% extends 't1' %}{% block x %}X0" + wrap("{% block y %}Y0{{ block.super }}{% endblock %}", ws) + "{% endblock %}"
        tpls["t1"] = "{% block y %}Y1" + "{% block x %}X1{% endblock %}{% endblock %}"
        return tpls, "t0"
    if kind == "include-in-block":
        # an include inside an overridden block leads back to the extending template
        tpls["t0"] = "{% extends 't1' %}{% block b %}B0" + wrap("{% include 't0' %}" * case.get("fanout", 1), ws) + "{% endblock %}"
        tpls["t1"] = "<t1>{% block b %}B1{% endblock %}"
        return tpls, "t0"
    if kind == "render-extends":
        tpls["t0"] = "{% extends 't1' %}{% block b %}B0" + wrap("{% render 't0' %}" * case.get("fanout", 1), ws) + "{% endblock %}"
        tpls["t1"] = "<t1>{% block b %}B1{% endblock %}"
        return tpls, "t0"
    raise ValueError(kind)


LADDER = [0, 1, 2, 3, 4, 5, 6, 9, 12, 20]


def eff_depth(wrappers: list[str]) -> int:
    """Block depth of the recursive call in units of one plain block (a case/when pair nests about 1.5 blocks' worth of frames)."""
    return len(wrappers) + (wrappers.count("case") + 1) // 2


ALLOWED_END = ("ContextDepthError", "TemplateInheritanceError", "LoopIterationLimitError", "BlockNestingError", "OutputStreamLimitError", "LocalNamespaceLimitError", "DisabledTagError")


def judge_family(ctx: core.Ctx, case: dict[str, Any]) -> None:
    tpls, entry = build_family(case)
    mode = case.get("mode", "strict")
    e = env(mode)
    e.loader = DictLoader(tpls)

    def run():
        o = drv.call_async(e.get_template_async, entry) if case.get("async") else drv.call(e.get_template, entry)
        if not o.ok:
            return o
        return drv.render_async(o.value, {"xs": [1]}) if case.get("async") else drv.render(o.value, {"xs": [1]})

    out, steps, rec, depth = clocked(run, RENDER_BUDGET)
    ctx.count("family_cases")
    ctx.count("clock_steps", steps)
    ctx.evaluations += 1
    ctx.observe("family_kinds", case["family"])
    if depth > ctx.extra.get("max_python_stack_depth_render", 0):
        ctx.extra["max_python_stack_depth_render"] = depth
    d = eff_depth(case["wrappers"])
    sig_tail = f"{case['family']}:block-depth>={max(x for x in LADDER if x <= d)}"
    if out == "steps":
        ctx.violation(f"render-exceeds-step-budget:{case['family']}" + (f":{mode}-mode-fanout" if mode != "strict" else ""), f"rendering {entry!r} of {tpls!r:.400} ({mode} mode) did not finish within {RENDER_BUDGET} clock steps", {"templates": tpls})
        return
    if out == "cpu":
        ctx.inconclusive("CPU guard fired during a recursion family")
        return
    if rec or (not out.ok and out.err_class == "RecursionError"):
        ctx.violation(
            f"python-stack-exhausted:{sig_tail}",
            f"rendering {entry!r} of the recursive family {tpls!r:.500} raised RecursionError {rec}x (max Python stack depth {depth}); final outcome {out.brief()!r:.160}",
            {"templates": tpls, "block_depth_of_recursive_call": d},
        )
        return
    if out.ok:
        ctx.count("families_completed")
    elif out.err_class in ALLOWED_END:
        ctx.count("families_cut_off_by_" + out.err_class)
    elif not out.is_liquid_error:
        ctx.violation(f"family-ends-in-{out.err_class}:{sig_tail}", f"rendering {entry!r} of {tpls!r:.400} ended in {out.err_class}: {drv.safe_str(out.exc)[:100]}", {"templates": tpls})
        return
    else:
        ctx.count("families_other_liquid_error:" + str(out.err_class))
    if case.get("must_cut") and out.ok and mode == "strict":
        ctx.violation(f"unbounded-recursion-not-cut-off:{sig_tail}", f"the recursive family {tpls!r:.400} rendered to completion: {out.value!r:.100}", {"templates": tpls})
        return
    h = core.stable_hash(case)
    if h not in ctx.nontrivial_hashes:
        ctx.nontrivial_hashes.add(h)
        if len(ctx.samples) < ctx.max_samples and len(ctx.nontrivial_hashes) in (3, 30, 300):
            ctx.samples.append(case)


def judge(ctx: core.Ctx, case: dict[str, Any]) -> None:
    if case["kind"] == "parse":
        judge_parse(ctx, case)
    else:
        judge_family(ctx, case)


# ------------------------------------------------------------------------------ workload

FRAGMENTS = [
    # malformed block tags interleaved with well-formed open ones (in a tolerant mode the parser reports, recovers and goes on: the nesting
    # limit must keep counting correctly through the recoveries)
    "{% if %}{% endif %}{% if a %}x", "{% for %}{% endfor %}{% for i in a %}", "{% if a %}{% nosuch %}", "{% case %}{% endcase %}{% case a %}{% when 1 %}", "{% if a %}{% if %}",
    "{% unless a %}{% else junk %}{% unless b %}", "{% capture %}{% endcapture %}{% capture c %}", "{% if a %}{% endfor %}", "{% tablerow %}{% endtablerow %}{% tablerow i in a %}",
    "{% case x %}", "{% case %}", "{% case x %}{% when", "{% when 1 %}", "{% if", "{% if a %}", "{% if a %}{% else %}", "{% elsif a %}", "{{ a | ", "{{ a | f: ", "{% for i in (1..", "{% for i in xs %}",
    "{% liquid\nif a\n", "{% liquid\ncase x\n", "{% liquid\nfor i in xs\n", "{%", "{{", "{% raw %}", "{% comment %}", "{% endif %}", "{% else %}", "((((", "{{ a[b[c[d", "{% if a and b or c and ",
    "{{ 'abc", "{% assign x = 'a", "{% unless a %}{% elsif", "{% capture x %}", "{% tablerow i in xs cols:", "{% doc %}", "{# ", "{% # ", "{% macro 'm' %}", "{% block b %}", "{% extends 'x' %}",
    "{% with a: 1 %}", "{% translate %}", "{% translate %}{% plural %}", "{{ a if b else ", "{% if not not not ", "{% if (a or (b and (", "{% cycle 1, 2, ", "{% include 'p' with ", "{% render 'p' for ",
    "-%}", "{%-", "{{-", "}}", "%}", "\n", " ", "a", "'", '"', "{% endcase %}", "{% break %}", "{% ifchanged %}", "{% liquid\n", "{% liquid\nliquid\n", "{% liquid %}",
]


def parse_cases(ctx: core.Ctx, rng):
    k = 0
    for frag in FRAGMENTS:
        for n in (10, 100, 800):
            for mode in ("strict", "lax"):
                k += 1
                if k % ctx.nshards != ctx.shard:
                    continue
                yield {"kind": "parse", "source": (frag * n)[:8000], "mode": mode}
                yield {"kind": "parse", "source": ("x " + frag) * min(n, 400) + "{% endif %}", "mode": mode}
    # an opening delimiter followed by a long run of one filler (the shapes on which a lexer rule can backtrack): the step clock sees one
    # regex call, so the CPU guard is what decides here
    for opener in ("{%", "{{", "{%-", "{{-", "{% if", "{% liquid", "{#", "{% raw %}", "{% comment %}", "{% doc %}", "{{ a |", "{% assign x ="):
        for filler in (" ", "\n", "\t ", "-", " -", "a ", "%", "}", "'", " #"):
            for n in (300, 2000):
                k += 1
                if k % ctx.nshards != ctx.shard:
                    continue
                yield {"kind": "parse", "source": opener + filler * n, "mode": "strict" if k % 2 else "lax"}
                if filler == " " and n == 2000:
                    yield {"kind": "parse", "source": opener + filler * n + "b", "mode": "lax"}
                    yield {"kind": "parse", "source": ("x" + opener + filler * 200) * 10, "mode": "strict"}
    # the same one level down: inside an expression, a character that opens something (a group, a range, a bracket, a string, a filter)
    # followed by a long run of ordinary expression text that never closes it; these are the shapes on which an expression-tokenizer rule
    # with a lookahead or a nested quantifier can backtrack
    for head, tail in (("{{ ", " }}"), ("{% if ", " %}x{% endif %}"), ("{% assign x = ", " %}"), ("{% for i in ", " %}x{% endfor %}"), ("{% echo ", " %}"),
                       ("{% liquid\n echo ", "\n%}"), ("{% case ", " %}{% endcase %}"), ("{% cycle ", " %}"), ("{% include ", " %}")):
        for xo in ("(", "((", "(a", "(1.", "(1. .", "[", "a[", "a[b", "a.", "'", '"', "a | ", "a | f: ", "a | f: b,", "(a and", "not ", "a == ", "a.b[", "('..' "):
            for xf in ("a", "a ", "a.", ".", " ", "1", "a,", "-", "a and ", "_", "1.", "a:", "a b.c ", "a_b and c.d > 1 "):
                k += 1
                if k % ctx.nshards != ctx.shard:
                    continue
                n = (40, 400)[k % 2]
                run = (xf * n)[: n * 2]
                yield {"kind": "parse", "source": head + xo + run + tail, "mode": "strict" if k % 2 else "lax"}
                if k % 5 == 0:
                    yield {"kind": "parse", "source": head + xo + run, "mode": "lax"}
    # every tag name with every malformed expression fragment, in the tolerant modes (where a parser that reports an error goes on, and
    # must still get somewhere), and unterminated blocks with stray inner tags
    for tname in MF.TAG_NAMES:
        if not tname or tname.startswith("end"):
            continue
        for fi, frag in enumerate(MF.EXPR_FRAGMENTS):
            k += 1
            if k % ctx.nshards != ctx.shard:
                continue
            yield {"kind": "parse", "source": "{% " + tname + " " + frag + " %}x{{ y }}", "mode": ("lax", "warn", "strict")[(k + fi) % 3]}
    inner = ["{% else %}", "{% elsif b %}", "{% when 1 %}", "{% else %}x", "{% plural %}", "{% break %}"]
    for opener in ("{% if a %}", "{% unless a %}", "{% case a %}", "{% for i in xs %}", "{% tablerow i in xs %}", "{% capture c %}", "{% ifchanged %}", "{% macro m %}", "{% with a: 1 %}",
                   "{% block b %}", "{% translate %}", "{% liquid\n if a\n", "{% liquid\n unless a\n else\n else\n"):
        for n_inner in range(0, 4):
            for combo in itertools.product(inner, repeat=n_inner):
                k += 1
                if k % ctx.nshards != ctx.shard:
                    continue
                if n_inner == 3 and k % 4:
                    continue
                yield {"kind": "parse", "source": opener + "1" + "".join(combo) + "2", "mode": ("strict", "lax", "warn")[k % 3]}
    # deep expression nesting (parentheses, bracketed paths, not-chains, filter arguments), far beyond anything a block nesting limit covers
    for n in (20, 100, 400, 1500):
        for mode in ("strict", "lax"):
            k += 1
            if k % ctx.nshards != ctx.shard:
                continue
            for src in (
                "{% if " + "(" * n + "a" + ")" * n + " %}x{% endif %}", "{{ a" + "[b" * n + "]" * n + " }}", "{% if " + "not " * n + "a %}x{% endif %}", "{{ " + "(" * n + "1..2" + ")" * n + " }}",
                "{{ a" + ".b" * n + " }}", "{{ a" + " | f: b" * n + " }}", "{% if a" + " and a" * n + " %}x{% endif %}", "{% if a" + " or (a" * n + ")" * n + " %}x{% endif %}",
                "{{ 'x' if " + "(" * n + "a" + ")" * n + " else 'y' }}", "{% liquid\n" + "if a\n" * min(n, 200) + "echo 1\n" + "endif\n" * min(n, 200) + "%}", "{% assign x = a" + "[0]" * n + " %}",
                "{% case a %}" + "{% when " + ", ".join(["1"] * n) + " %}x{% endcase %}", "{% cycle " + ", ".join(["a"] * n) + " %}",
            ):
                yield {"kind": "parse", "source": src[:16000], "mode": mode}
    for i in range(ctx.budget(1500, 400_000)):
        r = rng.random()
        g = tpl.Gen(rng, tpl.GenCfg(extra=True, max_nodes=24, wild=0.1))
        valid = tpl.print_nodes(g.template(1, 6), tpl.Style(wc=0.1, tight=0.2), rng)
        if r < 0.2:
            src = valid
        elif r < 0.6:
            src = MF.mutate(rng, valid, 4)
        elif r < 0.75:
            src = MF.random_tag_source(rng)
        elif r < 0.9:
            src = MF.soup(rng, 30)
        else:
            src = (MF.mutate(rng, valid, 2) * rng.randint(2, 30))[:8000]
        yield {"kind": "parse", "source": src, "mode": rng.choice(["strict", "lax", "warn"]) if False else rng.choice(["strict", "lax"])}


def family_cases(ctx: core.Ctx, rng):
    fams = ["include", "render", "mixed", "call", "extends", "block-structure", "include-in-block", "render-extends"]
    k = 0
    depths = list(range(0, 31)) if ctx.tier == "thorough" else [0, 1, 2, 3, 5, 8, 10, 12, 16, 20, 24, 28, 29, 30]
    for fam in fams:
        for cycle in (1, 2, 3, 4):
            if fam in ("block-structure", "include-in-block", "render-extends") and cycle > 1:
                continue
            for d in depths:
                if fam == "extends" and d > 0:
                    continue
                k += 1
                if k % ctx.nshards != ctx.shard:
                    continue
                kinds = [rng.choice(list(WRAPPERS)) for _ in range(d)]
                # (a macro is not visible inside its own body, so a "recursive" call is an undefined macro and need not be cut off)
                case = {"kind": "family", "family": fam, "cycle": cycle, "wrappers": kinds, "async": k % 5 == 0, "must_cut": fam != "call", "names": ["plain", "dirs", "samebase"][k % 3]}
                if fam == "mixed":
                    case["tags"] = ["include", "render"] if cycle > 1 else ["render"]
                if fam == "extends":
                    for entry in (0, 1, 2):
                        yield dict(case, entry=entry)
                    continue
                if fam == "render" and k % 3 == 0:
                    case["via_for"] = True
                yield case
                if d and k % 4 == 0:
                    yield dict(case, wrap_all=True)
    # uniform nests (one kind of block all the way down) at the depths where the Python stack is most at risk
    for w in WRAPPERS:
        for d in (10, 20, 30):
            for fam in ("render", "include", "call"):
                k += 1
                if k % ctx.nshards != ctx.shard:
                    continue
                yield {"kind": "family", "family": fam, "cycle": 1, "wrappers": [w] * d, "async": False, "must_cut": fam != "call"}


def long_mixed_cycles(ctx: core.Ctx):
    """Long cycles of distinct partials that mix the ways of reaching a partial (include, render, render ... for), at block depth 0: the two
    budgets (scopes pushed by include, contexts copied by render) must not multiply into more frames than the interpreter has."""
    k = 0
    for n in (5, 8, 10, 11, 12, 13, 16, 24):
        for pattern in ("i*r", "i*R", "r*i", "iR", "iiR", "R*", "i*Ri*", "iriR"):
            for is_async in (False, True):
                k += 1
                if k % ctx.nshards != ctx.shard:
                    continue
                if pattern == "i*r":
                    tags = ["include"] * (n - 1) + ["render"]
                elif pattern == "i*R":
                    tags = ["include"] * (n - 1) + ["render-for"]
                elif pattern == "r*i":
                    tags = ["render"] * (n - 1) + ["include"]
                elif pattern == "R*":
                    tags = ["render-for"] * n
                elif pattern == "i*Ri*":
                    tags = ["include"] * (n // 2) + ["render-for"] + ["include"] * (n - n // 2 - 1)
                else:
                    unit = [{"i": "include", "r": "render", "R": "render-for"}[c] for c in pattern]
                    tags = (unit * n)[:n]
                yield {"kind": "family", "family": "mixed-long", "cycle": n, "tags": tags, "wrappers": [], "async": is_async, "must_cut": False}


def tolerant_family_cases(ctx: core.Ctx):
    """The same families in the tolerant modes, where an error is reported and the render goes on with the next node: a template that calls
    itself twice (or three times) per level must still end, not try every branch of a tree as deep as the context depth limit."""
    k = 0
    for mode in ("lax", "warn"):
        for fam, tags in (("render", None), ("include", None), ("mixed", ["include", "render"]), ("mixed", ["render", "render"])):
            for fanout in (1, 2, 3):
                for cycle in (1, 2, 3):
                    for ws in ([], ["if"], ["for", "if"]) + ((["if"] * 13, ["if"] * 20) if fanout == 2 and cycle == 1 and tags is None else ()):
                        k += 1
                        if k % ctx.nshards != ctx.shard:
                            continue
                        c = {"kind": "family", "family": fam, "cycle": cycle, "wrappers": ws, "async": k % 4 == 0, "must_cut": False, "mode": mode, "fanout": fanout}
                        if tags:
                            c["tags"] = tags
                        yield c
        # a partial that extends a base and calls itself from an overridden block (the base is rendered as a template of its own at every level)
        for fam in ("render-extends", "include-in-block"):
            for fanout in (1, 2, 3):
                for ws in ([], ["if"], ["for", "if"]):
                    k += 1
                    if k % ctx.nshards != ctx.shard:
                        continue
                    yield {"kind": "family", "family": fam, "cycle": 1, "wrappers": ws, "async": k % 2 == 0, "must_cut": False, "mode": mode, "fanout": fanout}


def cases(ctx: core.Ctx):
    rng = ctx.rng("cases")
    yield from tolerant_family_cases(ctx)
    yield from long_mixed_cycles(ctx)
    yield from family_cases(ctx, rng)
    yield from parse_cases(ctx, rng)
