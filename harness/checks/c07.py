"""C07 Output and local-namespace limits bound what they measure.

Monitors: M1 (returned string / exception) with an unlimited twin; M3 icontract postcondition on the real
LimitedStringIO.write (shadow UTF-8 byte count per buffer); postcondition on RenderContext.assign through the
documented context_class extension point, recomputing the size of the locals of the whole context chain.
"""

from __future__ import annotations

import itertools

import sys
from typing import Any

import icontract
from liquid import BoundTemplate, DictLoader, Environment, RenderContext
from liquid import output as output_mod

from liquid.exceptions import ResourceLimitError

from harness import core, drv
from harness.gen import tpl
from harness.gen import values as V

PROP = "C07"
TECHNIQUE = "differential runtime monitor (limited vs unlimited twin) plus postcondition hooks on LimitedStringIO.write and RenderContext.assign"
RULE = (
    "case = template over output, echo, assign, capture, ifchanged, cycle, for/tablerow, if/case, include, render with multi-byte text "
    "(2-, 3-, 4-byte code points) + data; the unlimited twin measures U (UTF-8 bytes of the output) and S (max size of the local namespaces "
    "along the context chain); limits swept over {0, 1, U-1, U, U+1, 2U} and {1, S-1, S, S+1, 2S}, strict / lax. Judged: completed => "
    "len(utf8(out)) <= L; strict and U > L => OutputStreamLimitError; every assign that returns normally leaves chain size <= M. "
    "Non-trivial = U > 0 with at least one multi-byte character or a capture/partial, distinct by (templates, data)."
    " Rounds 5-6 added enumerated families: every nesting (depth 1-3) of the buffering tags under every limit value; refused assignments in tolerant modes (the namespace of a render that goes on is measured after the refusal)."
    " Round 7 added: twin runs under liquid.future.Environment with the hook on its context class."
)
REQUIRED = [
    ("liquid/output.py", "LimitedStringIO.write"),
    ("liquid/context.py", "RenderContext.get_buffer"),
    ("liquid/context.py", "RenderContext.assign"),
    ("liquid/context.py", "RenderContext.get_size_of_locals"),
    ("liquid/context.py", "RenderContext.copy"),
    ("liquid/builtin/tags/capture_tag.py", "CaptureNode.render_to_output"),
]
MIN_COUNTERS = {"write_postconditions": 1000, "assign_postconditions": 300, "must_raise_output": 30}


class PostBroken(Exception):
    pass


HOOK: dict[str, Any] = {"writes": 0, "assigns": 0, "max_size": 0, "broken": None, "limit": None, "held_after_refusal": None}


def write_within_limit(_ARGS, result) -> bool:
    buf, s = _ARGS[0], _ARGS[1]
    HOOK["writes"] += 1
    shadow = getattr(buf, "_verif_bytes", 0) + len(s.encode("utf-8"))
    buf._verif_bytes = shadow
    # write() returned normally: everything accepted by this buffer so far must fit its limit
    # (an empty write accepts nothing, whatever is left of the limit)
    return s == "" or shadow <= buf.limit


def chain_size(ctx: RenderContext) -> int:
    total = 0
    seen = set()
    c: Any = ctx
    while c is not None and id(c) not in seen:
        seen.add(id(c))
        total += sum(sys.getsizeof(v, 1) for v in c.locals.values())
        c = c.parent_context
    return total


class MonContext(RenderContext):
    __slots__ = ()

    def assign(self, key: str, val: Any) -> None:
        try:
            super().assign(key, val)
        except BaseException:
            # a refused assignment: what the namespace holds from here on is what a render that carries on (lax / warn mode) holds
            lim = HOOK["limit"]
            if lim and chain_size(self) > lim and HOOK["held_after_refusal"] is None:
                HOOK["held_after_refusal"] = (key, chain_size(self), lim)
            raise
        HOOK["assigns"] += 1
        size = chain_size(self)
        HOOK["max_size"] = max(HOOK["max_size"], size)
        lim = self.env.local_namespace_limit
        if lim is not None and HOOK["limit"] is not None and size > HOOK["limit"]:
            HOOK["broken"] = (key, size, HOOK["limit"])


class MonTemplate(BoundTemplate):
    context_class = MonContext


class MonEnv(Environment):
    template_class = MonTemplate


# the same hook on liquid.future.Environment's own context and template classes (every third case runs there)
from liquid.context import FutureContext as _FutureContext  # noqa: E402
from liquid.future import Environment as _FutureEnvironment  # noqa: E402
from liquid.template import FutureBoundTemplate as _FutureBoundTemplate  # noqa: E402


class MonFutureContext(_FutureContext):
    __slots__ = ()

    def assign(self, key: str, val: Any) -> None:
        try:
            super().assign(key, val)
        except BaseException:
            lim = HOOK["limit"]
            if lim and chain_size(self) > lim and HOOK["held_after_refusal"] is None:
                HOOK["held_after_refusal"] = (key, chain_size(self), lim)
            raise
        HOOK["assigns"] += 1
        HOOK["future_assigns"] = HOOK.get("future_assigns", 0) + 1
        size = chain_size(self)
        HOOK["max_size"] = max(HOOK["max_size"], size)
        lim = self.env.local_namespace_limit
        if lim is not None and HOOK["limit"] is not None and size > HOOK["limit"]:
            HOOK["broken"] = (key, size, HOOK["limit"])


class MonFutureTemplate(_FutureBoundTemplate):
    context_class = MonFutureContext


class MonFutureEnv(_FutureEnvironment):
    template_class = MonFutureTemplate


_installed = False


def setup(ctx: core.Ctx) -> None:
    global _installed
    if not _installed:
        if not hasattr(output_mod, "LimitedStringIO"):
            raise core.Inconclusive("liquid.output.LimitedStringIO is gone: contract target missing")
        output_mod.LimitedStringIO.write = icontract.ensure(write_within_limit, error=PostBroken)(output_mod.LimitedStringIO.write)
        _installed = True


def finish(ctx: core.Ctx) -> None:
    pass


def make(case, mode: str, limits: dict[str, Any]):
    cfg = {"mode": mode, "limits": limits}
    return drv.make_env(cfg, loader=DictLoader(dict(case["partials"])), base=MonFutureEnv if case.get("future") else MonEnv)


HEAVY = {"output_stream_limit": 4_000_000, "loop_iteration_limit": 300_000, "local_namespace_limit": 4_000_000}


def run(case, mode, limits, data):
    env = make(case, mode, limits)
    HOOK.update(writes=0, assigns=0, max_size=0, broken=None, held_after_refusal=None, limit=limits.get("local_namespace_limit"))
    o = drv.parse_and_render(env, case["source"], data, use_async=case.get("async", False))
    return o, dict(HOOK)


def construct(case) -> str:
    s = case["source"] + "".join(case["partials"].values())
    for name in ("render", "include", "capture", "ifchanged", "tablerow", "for", "cycle"):
        if "{% " + name in s or "{%- " + name in s:
            return name
    return "output"


def judge(ctx: core.Ctx, case: dict[str, Any]) -> None:
    data = V.dec(case["data"])
    # workload guard (never a verdict): a template whose unlimited render is enormous (a capture that echoes itself inside nested loops
    # doubles on every iteration) is not rendered without limits at all
    probe, _ = run(case, "strict", HEAVY, data)
    if not probe.ok and isinstance(probe.exc, ResourceLimitError):
        ctx.count("workload_too_heavy_skipped")
        return
    base, h0 = run(case, "strict", {}, data)
    if not base.ok:
        ctx.count("unlimited_twin_failed_skipped")
        return
    try:
        U = len(base.value.encode("utf-8"))
    except UnicodeEncodeError:
        ctx.unspecified("lone-surrogate-in-output-has-no-utf8-size")
        return
    # measure S with an effectively unlimited namespace limit so that the hook sees the sizes
    _, h1 = run(case, "strict", {"local_namespace_limit": 10**12}, data)
    S = h1["max_size"]
    ctx.count("assign_postconditions", h1["assigns"])
    multibyte = len(base.value) != U
    # (small hand-built nestings: every limit value; otherwise the boundary values)
    for L in (range(0, U + 2) if case.get("all_limits") and U <= 400 else sorted({0, 1, max(U - 1, 0), U, U + 1, 2 * U})):
        for mode in ("strict", "lax"):
            o, h = run(case, mode, {"output_stream_limit": L}, data)
            ctx.count("write_postconditions", h["writes"])
            if not o.ok and isinstance(o.exc, PostBroken):
                ctx.evaluations += 1
                ctx.violation(f"write-postcondition:{construct(case)}", f"LimitedStringIO.write accepted more UTF-8 bytes than its limit (output limit {L}, mode {mode}): {o.exc}")
                return
            if o.ok:
                n = len(o.value.encode("utf-8"))
                if n > L:
                    ctx.evaluations += 1
                    ctx.violation(f"output-exceeds-limit:{mode}:{construct(case)}", f"output_stream_limit={L} ({mode}) but the render returned {n} UTF-8 bytes (unlimited {U}): {o.value!r:.80}")
                    return
                if mode == "strict" and U > L:
                    ctx.evaluations += 1
                    ctx.violation(f"no-error-over-limit:{construct(case)}", f"unlimited output is {U} bytes > limit {L}, but the strict render completed with {n} bytes")
                    return
            else:
                if mode == "strict" and U > L:
                    ctx.count("must_raise_output")
                    if o.err_class != "OutputStreamLimitError":
                        ctx.evaluations += 1
                        ctx.violation(f"wrong-error-over-limit:{o.err_class}:{construct(case)}", f"unlimited output {U} > limit {L}: raised {o.err_class} instead of OutputStreamLimitError: {drv.safe_str(o.exc)[:80]}")
                        return
                if not o.is_liquid_error:
                    ctx.count("non_liquid_error_forwarded_to_C02")
    if S > 0:
        r = core.random.Random(core.stable_hash([case["source"], "M"]))
        for M in sorted({0, 1, max(S - 1, 1), S, S + 1, 2 * S} | {r.randint(1, S) for _ in range(3)}):
            for mode in ("strict", "lax"):
                o, h = run(case, mode, {"local_namespace_limit": M}, data)
                ctx.count("assign_postconditions", h["assigns"])
                if h["broken"] is not None:
                    key, size, lim = h["broken"]
                    ctx.evaluations += 1
                    kind = "zero-means-unlimited" if M == 0 else construct(case)
                    ctx.violation(f"namespace-exceeds-limit:{kind}", f"local_namespace_limit={M} ({mode}): assign of {key!r} returned normally with {size} bytes of locals along the context chain")
                    if M == 0:
                        break  # a limit of 0 is a separate mechanism; keep judging the other limit values
                    return
                if o.ok and h["held_after_refusal"] is not None:
                    # the render completed (tolerant mode: the refusal was reported and rendering went on) still holding what was refused
                    key, size, lim = h["held_after_refusal"]
                    ctx.evaluations += 1
                    ctx.violation("namespace-exceeds-limit:refused-value-kept", f"local_namespace_limit={M} ({mode}): the assignment of {key!r} was refused with LocalNamespaceLimitError, but the value stayed: the render went on and completed holding {size} bytes of locals")
                    return
    if U > 1 and not case.get("async"):
        # the limit is read when a render starts: the same template object, rendered once without a limit (e.g. to learn the unlimited
        # size), obeys a limit set on its environment afterwards - and is free again once the limit is taken away
        env_live = make(case, "strict", {})
        t = drv.call(env_live.from_string, case["source"])
        if t.ok and drv.render(t.value, data).ok:
            env_live.output_stream_limit = U - 1
            again = drv.render(t.value, data)
            ctx.count("renders_after_limit_set_on_live_environment")
            if again.ok or again.err_class != "OutputStreamLimitError":
                ctx.evaluations += 1
                ctx.violation(f"limit-set-on-live-environment-ignored:{construct(case)}", f"output_stream_limit={U - 1} set on the environment after a first (unlimited, {U} bytes) render of the same template object: second render gave {again.brief()!r:.120}")
                return
            env_live.output_stream_limit = None
            third = drv.render(t.value, data)
            if not third.ok or third.value != base.value:
                ctx.evaluations += 1
                ctx.violation(f"limit-removed-on-live-environment-still-applies:{construct(case)}", f"after output_stream_limit was set back to None the same template object renders {third.brief()!r:.120}")
                return
    ctx.ok((case["source"], case["partials"], case["data"]), nontrivial=U > 0 and (multibyte or construct(case) in ("capture", "render", "include")))


TAGS = {"assign", "echo", "capture", "ifchanged", "cycle", "for", "tablerow", "if", "case", "include", "render", "increment"}


def gen_case(rng) -> dict[str, Any]:
    cfg = tpl.GenCfg(tags=TAGS, max_nodes=10, wild=0.03, comments=False, liquid_tag=False,
                     text_alphabet=["a", "é", "日本", "😀", " ", "x-y", "\n", "ß"], string_lits=["", "a", "é", "日", "😀😀", "k", "title"])
    main, partials, _ = tpl.gen_template_set(rng, cfg, n_partials=rng.randint(0, 2))
    st = tpl.Style(wc=0.05)
    d = tpl.make_data(rng, hostile=0.02, drop=0.05)
    d["s"] = rng.choice(["é", "日本語", "😀", "plain", ""])
    d["ys"] = ["é", "ß", "x"][: rng.randint(0, 3)]
    d["pname"] = "p0"
    return {"source": tpl.print_nodes(main, st, rng), "partials": {n: tpl.print_nodes(b, st, rng) for n, b in partials.items()}, "data": V.enc(d), "async": rng.random() < 0.1}


def gen_chain_case(rng) -> dict[str, Any]:
    """A chain of 2-4 nested render / include levels; each level binds locals of varied size before and/or after the nested call - or nothing
    at all (a pass-through level), which is where a carried size is most easily lost."""
    n = rng.randint(2, 4)
    partials: dict[str, str] = {}
    names = ["main"] + [f"c{i}" for i in range(1, n)]

    def binds(i: int) -> str:
        k = rng.choice([0, 0, 1, 2])
        out = []
        for j in range(k):
            v = rng.choice(["'é'", "'" + "x" * rng.randint(1, 60) + "'", "s", "s | append: s", "ys"])
            out.append(rng.choice(["{% assign l" + str(i) + str(j) + " = " + v + " %}", "{% capture k" + str(i) + str(j) + " %}{{ " + v + " }}{% endcapture %}"]))
        return "".join(out)

    for i in range(n - 1, -1, -1):
        body = binds(i)
        if i < n - 1:
            tag = rng.choice(["render", "render", "include"]) if i == 0 or "render" not in partials.get("_tags", "") else "render"
            call = "{% " + tag + " '" + names[i + 1] + "' %}"
            r = rng.random()
            if r < 0.3:
                # the other calling forms: once per item of an array, with a bound variable, with keyword arguments
                form = rng.choice([" for ys", " for ys as it", " with s", " with s as it", ", a: s, b: ys", " for (1..2)"])
                call = "{% " + tag + " '" + names[i + 1] + "'" + form + " %}"
            if rng.random() < 0.25:
                call = "{% for q in (1..2) %}" + call + "{% endfor %}"
            body += call + (binds(i) if rng.random() < 0.4 else "")
        else:
            body += "{% assign deep = s | append: 'tail' %}{{ deep | size }}"
        if i == 0:
            src = body
        else:
            partials[names[i]] = body
    # include is not allowed below a render: make every call below the first render a render
    seen_render = "render '" in src
    for nm in names[1:]:
        if seen_render:
            partials[nm] = partials[nm].replace("{% include '", "{% render '")
        if "render '" in partials[nm]:
            seen_render = True
    d = {"s": rng.choice(["é", "日本語", "plain text", "y" * 40]), "ys": ["é", "ß", "x"][: rng.randint(1, 3)]}
    return {"source": src, "partials": partials, "data": V.enc(d), "async": rng.random() < 0.15}


HAND = [
    {"source": "{% assign big = 'xxxxxxxxxxxxxxxxxxxxxxxxxxxxxxxxxxxxxxxx' %}{% render 'mid' %}", "partials": {"mid": "{% render 'leaf' %}", "leaf": "{% assign v = 'yyyyyyyyyyyyyyyyyyyyyyyy' %}{{ v | size }}"}},
    {"source": "{{ s }}{% capture c %}{{ s }}{{ s }}{% endcapture %}{{ c }}", "partials": {}},
    {"source": "é{% render 'p' %}é", "partials": {"p": "日{% capture c %}😀{% endcapture %}{{ c }}"}},
    {"source": "{% for i in (1..3) %}{% ifchanged %}é{% endifchanged %}{% include 'p' %}{% endfor %}", "partials": {"p": "{{ s }}"}},
    {"source": "{% assign a = s %}{% render 'p', x: s %}{% assign b = s | append: s %}", "partials": {"p": "{% assign c = x | append: x %}{% render 'q' %}", "q": "{% assign d = 'éééééééééé' %}"}},
    {"source": "{% capture a %}{{ s }}{% capture b %}{{ s }}{% endcapture %}{{ b }}{% endcapture %}{{ a }}{{ b }}", "partials": {}},
]


def nested_buffer_cases():
    """Every nesting (depth 1-3) of the tags that render into an intermediate buffer before writing to the one above: what a buffer two levels
    down may still take is what is left in *every* buffer above it."""
    wrap = {
        "ifchanged": lambda b, i: "{% ifchanged %}" + b + "{% endifchanged %}",
        "capture": lambda b, i: "{% capture c" + str(i) + " %}" + b + "{% endcapture %}{{ c" + str(i) + " }}",
        "loop-ifchanged": lambda b, i: "{% for i" + str(i) + " in (1..2) %}{% ifchanged %}" + b + "{{ i" + str(i) + " }}{% endifchanged %}{% endfor %}",
    }
    for depth in (1, 2, 3):
        for combo in itertools.product(sorted(wrap), repeat=depth):
            for lead, core_text, tail in (("", "{{ s }}", "z"), ("{{ s }}", "é{{ s }}", "z"), ("ab", "{{ s }}{{ s }}", "z"), ("ééé", "{{ s }}{{ s }}", ""), ("→", "{{ s }}", "")):
                body = core_text
                for i, k in enumerate(reversed(combo)):
                    # (text before the inner block inside the outer one makes the two blocks' texts differ; with an empty tail the inner
                    # block's flush is the last thing the outer buffer sees)
                    body = (lead[:1] if i else "") + wrap[k](body, i) + tail
                yield {"source": lead + body, "partials": {}, "all_limits": True}


def cases(ctx: core.Ctx):
    for c in _cases(ctx):
        yield c
        if c.get("twin_future"):
            yield dict({k: v for k, v in c.items() if k != "twin_future"}, future=True)


def _cases(ctx: core.Ctx):
    for h in HAND:
        yield dict(h, data=V.enc({"s": "日本語😀"}), twin_future=True)
    for gi, c in enumerate(nested_buffer_cases()):
        if gi % ctx.nshards == ctx.shard:
            yield dict(c, data=V.enc({"s": "日本😀"}), twin_future=gi % 2 == 0)
    rng = ctx.rng("cases")
    for i in range(ctx.budget(1500, 300_000)):
        c = gen_chain_case(rng) if i % 4 == 1 else gen_case(rng)
        if i % 3 == 2:
            c["future"] = True
        yield c
