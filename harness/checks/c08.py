"""C08 Resource limits only abort a render, never alter its output.

Monitors: M1 (outcome under each limit value and of the unlimited twin); M2 hooks through the documented
context_class extension point measuring the resources a render actually uses (max loop product, output bytes,
max size of locals along the context chain, max scope depth / copy depth).
Oracle: differential + monotonicity over a sweep of limit values around the measured use.
"""

from __future__ import annotations

import sys
from functools import reduce
from operator import mul
from typing import Any

from liquid import BoundTemplate, DictLoader, Environment, RenderContext
from liquid.exceptions import ResourceLimitError

from harness import core, drv
from harness.gen import tpl
from harness.gen import values as V

PROP = "C08"
TECHNIQUE = "differential runtime monitor (limited vs unlimited twin) with monotonicity check over limit sweeps placed around hook-measured resource use"
RULE = (
    "case = generated template set (loops, nested blocks, captures, assigns, partials via include/render, macros) + data, strict mode; the "
    "unlimited twin is rendered under hooks that measure the resources used; each of the five limits is swept over {0, 1, 2, used-1, used, "
    "used+1, 2*used+1} (block nesting: 0..depth+2). Judged per value: outcome == unlimited outcome or a ResourceLimitError; and per limit: "
    "success at v => identical outcome at every larger swept value. Non-trivial = unlimited twin succeeds with non-empty output and at "
    "least one swept value aborts the render, distinct by (templates, data)."
    " Rounds 5-6 added enumerated families: one environment, one limit, histories of refused and accepted templates (same and larger limit); engine-made values held in local variables."
)
REQUIRED = [
    ("liquid/context.py", "RenderContext.raise_for_loop_limit"),
    ("liquid/context.py", "RenderContext.extend"),
    ("liquid/context.py", "RenderContext.copy"),
    ("liquid/context.py", "RenderContext.assign"),
    ("liquid/output.py", "LimitedStringIO.write"),
    ("liquid/parser.py", "Parser.parse_block"),
]
MIN_COUNTERS = {"aborted_by_limit": 100, "same_as_unlimited": 100}

USE: dict[str, int] = {}


def _reset():
    USE.update(loop=0, locals=0, scope=0, copy=0)


class MonContext(RenderContext):
    __slots__ = ()

    def raise_for_loop_limit(self, length: int = 1) -> None:
        prod = reduce(mul, (lp.length for lp in self.loops), length * self.loop_iteration_carry)
        USE["loop"] = max(USE["loop"], prod)
        return super().raise_for_loop_limit(length)

    def assign(self, key: str, val: Any) -> None:
        super().assign(key, val)
        total, c, seen = 0, self, set()
        while c is not None and id(c) not in seen:
            seen.add(id(c))
            total += sum(sys.getsizeof(v, 1) for v in c.locals.values())
            c = c.parent_context
        USE["locals"] = max(USE["locals"], total)

    def extend(self, namespace, template=None):
        USE["scope"] = max(USE["scope"], self.scope.size() + 1)
        return super().extend(namespace, template)

    def copy(self, *a, **k):
        USE["copy"] = max(USE["copy"], self._copy_depth + 1)
        return super().copy(*a, **k)


class MonTemplate(BoundTemplate):
    context_class = MonContext


class MonEnv(Environment):
    template_class = MonTemplate


LIMITS = ["loop_iteration_limit", "output_stream_limit", "local_namespace_limit", "context_depth_limit", "block_nesting_limit"]


HEAVY = {"output_stream_limit": 4_000_000, "loop_iteration_limit": 300_000, "local_namespace_limit": 4_000_000}


def run(case, limits: dict[str, Any], data):
    env = drv.make_env({"mode": "strict", "extra": True, "limits": limits, "undefined": case.get("undefined", "default")}, loader=DictLoader(dict(case["partials"])), base=MonEnv)
    _reset()
    return drv.parse_and_render(env, case["source"], data, use_async=case.get("async", False))


def block_depth(src: str) -> int:
    import re

    d = m = 0
    for t in re.findall(r"\{%-?\s*(\w+)", src):
        if t in ("if", "unless", "case", "for", "tablerow", "capture", "ifchanged", "macro", "with", "block"):
            d += 1
            m = max(m, d)
        elif t.startswith("end") and d:
            d -= 1
    return m


def outcome_key(o) -> tuple:
    return o.key()  # (memory addresses in printed objects are normalised there)


def _deep(n: int, inner: str = "{{ 1 }}{{ 2 }}") -> str:
    return "{% if true %}" * n + inner + "{% endif %}" * n


def limit_history_cases():
    """One environment, one limit, a sequence of templates: what the limit refused (or let through) earlier does not change what it does
    for a later template - success under a limit stays success under the same and under any larger limit."""
    for limit_name, ok_src, bad_src, lims in (
        ("block_nesting_limit", lambda L: _deep(L), lambda L: _deep(L + 2), (1, 3, 5)),
        ("loop_iteration_limit", lambda L: "{% for i in (1.." + str(L) + ") %}x{% endfor %}", lambda L: "{% for i in (1.." + str(L + 1) + ") %}{% for j in (1..2) %}x{% endfor %}{% endfor %}", (2, 6)),
        ("output_stream_limit", lambda L: "y" * L, lambda L: "{{ 'z' }}" * (L + 1), (1, 8)),
        ("context_depth_limit", lambda L: "{% with a: 1 %}" * max(L - 2, 0) + "q" + "{% endwith %}" * max(L - 2, 0), lambda L: "{% render 'selfr' %}", (4, 6)),
        ("local_namespace_limit", lambda L: "{% assign a = 'k' %}{{ a }}", lambda L: "{% assign b = '" + "w" * 300 + "' %}{{ b | size }}", (120,)),
    ):
        for L in lims:
            for k in (1, 2, 5):
                for is_async in (False, True):
                    yield {"kind": "limit-history", "limit": limit_name, "L": L, "ok": ok_src(L), "bad": bad_src(L), "repeats": k, "async": is_async}


def judge_limit_history(ctx: core.Ctx, case: dict[str, Any]) -> None:
    name, L = case["limit"], case["L"]
    partials = {"selfr": "r{% render 'selfr' %}"}

    def mk(limit):
        return drv.make_env({"mode": "strict", "extra": True, "limits": {name: limit}}, loader=DictLoader(dict(partials)), base=MonEnv)

    def go(env, src):
        return drv.parse_and_render(env, src, {}, use_async=case.get("async", False))

    fresh = go(mk(L), case["ok"])
    env = mk(L)
    first = go(env, case["ok"])
    refused = [go(env, case["bad"]) for _ in range(case["repeats"])]
    again = go(env, case["ok"])
    bigger = mk(L + 1)
    for _ in range(case["repeats"]):
        go(bigger, case["bad"] if name != "block_nesting_limit" else _deep(L + 3))
    larger = go(bigger, case["ok"])
    ctx.count("limit_histories")
    ctx.evaluations += 1
    if not fresh.ok:
        ctx.count("limit_history_baseline_not_ok")
        return
    for what, o in (("the first render", first), (f"the same template after {case['repeats']} refused one(s) in the same environment", again), (f"the same template under the larger limit {L + 1}, after refused ones there", larger)):
        if o.key() != fresh.key():
            ctx.violation(f"not-monotone:{name}:history-in-one-environment", f"{name}={L}: {case['ok']!r:.120} renders {fresh.brief()!r:.60} in a fresh environment but {what} gives {o.brief()!r:.100}")
            return
    ctx.ok((name, L, case["repeats"], case.get("async")), nontrivial=any(not r.ok for r in refused))


def judge(ctx: core.Ctx, case: dict[str, Any]) -> None:
    if case.get("kind") == "limit-history":
        judge_limit_history(ctx, case)
        return
    data = V.dec(case["data"])
    # workload guard (never a verdict): see C07
    probe = run(case, HEAVY, data)
    if not probe.ok and isinstance(probe.exc, ResourceLimitError):
        ctx.count("workload_too_heavy_skipped")
        return
    base = run(case, {}, data)
    used = dict(USE)
    if not base.ok and not base.is_liquid_error:
        ctx.count("non_liquid_error_forwarded_to_C02")
        return
    bkey = outcome_key(base)
    # U only chooses the values of the sweep (it is not a verdict), so a lone surrogate may be counted any reasonable way
    U = len(base.value.encode("utf-8", "surrogatepass")) if base.ok else 64
    depth = max([block_depth(case["source"])] + [block_depth(p) for p in case["partials"].values()])
    sweeps = {
        "loop_iteration_limit": used["loop"],
        "output_stream_limit": U,
        "local_namespace_limit": used["locals"],
        "context_depth_limit": max(used["scope"], used["copy"]),
        "block_nesting_limit": depth,
    }
    aborted_any = False
    for lim in (case.get("only") or LIMITS):
        u = sweeps[lim]
        vals = {0, 1, 2, max(u - 2, 0), max(u - 1, 0), u, u + 1, 2 * u + 1, u + 7}
        if lim in ("context_depth_limit", "block_nesting_limit") and u <= 40:
            # small range, and every value makes a *different* construct the first to hit the limit: sweep them all
            vals.update(range(0, u + 2))
        elif u > 4:
            r = core.random.Random(core.stable_hash([case["source"], lim]))
            vals.update(r.randint(2, u - 1) for _ in range(3))
        vals = sorted(vals)
        first_ok = None
        for v in vals:
            o = run(case, {lim: v}, data)
            k = outcome_key(o)
            if k == bkey:
                ctx.count("same_as_unlimited")
                if first_ok is None:
                    first_ok = v
                continue
            if not o.ok and isinstance(o.exc, ResourceLimitError):
                ctx.count("aborted_by_limit")
                ctx.observe("limit_errors", o.err_class)
                aborted_any = True
                if first_ok is not None:
                    zero = first_ok == 0 and lim in ("loop_iteration_limit", "local_namespace_limit")
                    ctx.evaluations += 1
                    ctx.violation(
                        f"not-monotone:{lim}" + (":zero-means-unlimited" if zero else ""),
                        f"{lim}={first_ok} gives the unlimited result but the larger value {v} aborts with {o.err_class} (measured use {u})",
                        {"sweep": vals},
                    )
                    if zero:
                        first_ok = None
                        continue
                    return
                continue
            if not o.ok and not o.is_liquid_error:
                # the unlimited run of this very case ends in success or a Liquid error, so this foreign exception exists only
                # because of the limit: the limit neither left the result alone nor failed with a ResourceLimitError
                ctx.evaluations += 1
                ctx.violation(
                    f"outcome-altered:{lim}:escapes-{o.err_class}@{core.liquid_frame(core.root_cause(o.exc))}",
                    f"{lim}={v}: {o.err_class} ({drv.safe_str(o.exc)[:80]}) escapes where the unlimited run gives {base.brief()!r:.120} (measured use {u})",
                    {"tb": core.short_tb(o.exc)},
                )
                return
            ctx.evaluations += 1
            ctx.violation(
                f"outcome-altered:{lim}",
                f"{lim}={v}: outcome {o.brief()} is neither the unlimited outcome {base.brief()} nor a ResourceLimitError (measured use {u})",
            )
            return
    ctx.ok((case["source"], case["partials"], case["data"]), nontrivial=base.ok and bool(base.value) and aborted_any)


# values a template can put into its local namespace that are not plain data: loop drops (iterating or sizing them must not advance the
# loop), undefined values, ranges, nested hashes and arrays, block drops, captured Markup
DROPS = [
    "{% for i in (1..3) %}{% assign lp = forloop %}{{ lp.index }}{{ forloop.index }}{{ forloop.last }}{% endfor %}",
    "{% for i in (1..1) %}{% assign lp = forloop %}{{ lp.first }}{{ forloop.index }}{{ forloop.length }}{% endfor %}",
    "{% tablerow i in (1..3) cols: 2 %}{% assign tl = tablerowloop %}{{ tl.col }}{{ tablerowloop.index }}{% endtablerow %}",
    "{% for i in (1..2) %}{% for j in (1..2) %}{% assign pl = forloop.parentloop %}{{ pl.index }}{{ forloop.index }}{% endfor %}{% endfor %}",
    "{% assign u = nosuch %}[{{ u }}]", "{% assign r = (1..5) %}{{ r | size }}", "{% assign hh = h %}{{ hh.a }}", "{% assign dd = d %}{{ dd.list | join: ',' }}",
    "{% assign oo = os %}{% for o in oo %}{{ o.title }}{% endfor %}", "{% capture cc %}{{ s }}{% endcapture %}{% assign c2 = cc %}{{ c2 }}",
    "{% assign e = empty %}{% assign b = blank %}{% if '' == e %}E{% endif %}", "{% assign n1 = nil %}{% assign t1 = true %}{{ n1 }}{{ t1 }}",
    "{% for i in xs %}{% assign keep = forloop %}{% endfor %}{{ keep.length }}",
]


def gen_case(rng) -> dict[str, Any]:
    cfg = tpl.GenCfg(extra=True, max_nodes=14, max_depth=4, wild=0.03, comments=False)
    main, partials, _ = tpl.gen_template_set(rng, cfg, n_partials=rng.randint(0, 3))
    st = tpl.Style(wc=0.05)
    d = tpl.make_data(rng, hostile=0.02, drop=0.05)
    d["pname"] = "p0"
    if rng.random() < 0.25:
        snippet = rng.choice(DROPS)
        und = "strict" if "nosuch" in snippet and rng.random() < 0.5 else "default"
        return {"source": snippet + (tpl.print_nodes(main, st, rng) if rng.random() < 0.5 else ""), "partials": {n: tpl.print_nodes(b, st, rng) for n, b in partials.items()},
                "data": V.enc(d), "async": rng.random() < 0.1, "undefined": und}
    return {"source": tpl.print_nodes(main, st, rng), "partials": {n: tpl.print_nodes(b, st, rng) for n, b in partials.items()}, "data": V.enc(d), "async": rng.random() < 0.1}


HAND = [
    # values the engine makes itself held in local variables (a strict undefined that is never used, the loop helpers, a block drop, a macro's
    # arguments): measuring them for the namespace limit must not use them
    {"source": "{% assign x = nosuchthing %}ok", "partials": {}, "undefined": "strict"}, {"source": "{% assign x = h.nope.deeper %}{% capture y %}{% endcapture %}ok{{ y }}", "partials": {}, "undefined": "strict"},
    {"source": "{% for i in (1..3) %}{% assign lp = forloop %}{{ i }}{% endfor %}{{ lp.length }}", "partials": {}}, {"source": "{% tablerow i in (1..3) %}{% assign lp = tablerowloop %}{{ i }}{% endtablerow %}", "partials": {}},
    {"source": "{% for i in (1..2) %}{% for j in (1..2) %}{% assign pl = forloop.parentloop %}{{ j }}{% endfor %}{% endfor %}", "partials": {}},
    {"source": "{% macro m %}{% assign a = args %}{% assign k = kwargs %}{{ a | size }}{{ k | size }}{% endmacro %}{% call m 1, 2, z: 3 %}", "partials": {}},
    {"source": "{% block b %}{% assign bl = block %}x{% endblock %}", "partials": {}}, {"source": "{% assign r = (1..5) %}{% assign e = empty %}{% assign n = nil %}{{ r | size }}", "partials": {}},
    {"source": "{% for i in (1..3) %}{% for j in (1..4) %}{{ i }}{{ j }}{% endfor %}{% endfor %}", "partials": {}},
    {"source": "{% if true %}{% if true %}{% if true %}x{% endif %}{% endif %}{% endif %}", "partials": {}},
    {"source": "{% render 'a' %}", "partials": {"a": "a{% render 'b' %}", "b": "b{% render 'c' %}", "c": "c"}},
    {"source": "{% include 'a' %}", "partials": {"a": "a{% include 'b' %}", "b": "b{% with x: 1 %}{% include 'c' %}{% endwith %}", "c": "c{{ x }}"}},
    {"source": "{% assign a = 'xxxxxxxxxx' %}{% capture b %}{{ a }}{{ a }}{% endcapture %}{{ b }}", "partials": {}},
    {"source": "{% tablerow i in (1..3) %}{% for j in (1..3) %}{{ j }}{% endfor %}{% endtablerow %}", "partials": {}},
    {"source": "{% for i in (1..2) %}{% render 'a' for xs %}{% endfor %}", "partials": {"a": "{% for k in (1..2) %}{{ k }}{% endfor %}"}},
    # what a nested loop sees of the loops around it (parentloop) is part of "the result": a limit's bookkeeping must not show up there
    {"source": "{% for i in (1..2) %}{% tablerow j in (1..2) %}{% for k in (1..2) %}[{{ forloop.parentloop.index }}/{{ forloop.parentloop.length }}/{{ forloop.parentloop.first }}]{% endfor %}{% endtablerow %}{% endfor %}", "partials": {}},
    {"source": "{% for i in (1..3) %}{% include 'a' for xs %}{% endfor %}", "partials": {"a": "{% for k in (1..2) %}<{{ forloop.parentloop.index }}{{ forloop.parentloop.rindex }}>{% endfor %}"}},
    {"source": "{% tablerow j in (1..2) %}{% for k in (1..2) %}({{ forloop.parentloop.index }}{{ forloop.parentloop }}){% endfor %}{% endtablerow %}", "partials": {}},
    {"source": "{% for i in (1..2) %}{% for j in (1..2) %}{% tablerow t in (1..1) %}{% for k in (1..2) %}{{ forloop.parentloop.index }}{{ forloop.parentloop.parentloop.index }}{% endfor %}{% endtablerow %}{% endfor %}{% endfor %}", "partials": {}},
    {"source": "{% for i in (1..2) %}{% render 'a' for xs %}{% endfor %}", "partials": {"a": "{{ forloop.index }}{% for k in (1..2) %}{{ forloop.parentloop.index }}{{ forloop.parentloop.parentloop.index }}{% endfor %}"}},
]


def cases(ctx: core.Ctx):
    for gi, c in enumerate(limit_history_cases()):
        if gi % ctx.nshards == ctx.shard:
            yield c
    for h in HAND:
        yield dict(h, data=V.enc({"xs": [1, 2, 3]}))
    # strings that have no UTF-8 encoding (lone surrogates) written under an output limit
    for src in ("{{ s }}", "a{{ s }}b{{ s }}", "{% for i in (1..3) %}{{ s }}{% endfor %}", "{% capture c %}{{ s }}{% endcapture %}{{ c }}{{ c | size }}"):
        for sv in ("\ud800", "x\udfffy", "\ud800\ud800"):
            yield {"source": src, "partials": {}, "data": V.enc({"s": sv, "xs": [1]})}
    rng = ctx.rng("cases")
    for _ in range(ctx.budget(1200, 150_000)):
        yield gen_case(rng)
