"""C24 LRU caches behave as bounded least-recently-used maps.

Monitors: M3 icontract invariant on the real LRUCache (reached inside ThreadSafeLRUCache's lock);
per-operation comparison against R-lru; M7 thread history recorder with yield injection
(sys.monitoring LINE events on lru_cache.py + switch interval 1e-6) and WGL linearizability check;
long stress with per-read and quiescent-point invariants.
"""

from __future__ import annotations

import itertools
import random
import sys
import threading
import time
from typing import Any

import icontract
from liquid.utils import lru_cache as lru_mod
from liquid.utils.lru_cache import LRUCache, ThreadSafeLRUCache

from harness import core
from harness.models.lru import MISSING, RLru, linearizable, real_apply

PROP = "C24"
TECHNIQUE = "reference-model monitor over exhaustive op sequences + linearizability checking of recorded concurrent histories under yield injection + invariant hooks"
RULE = (
    "sequential: every sequence of set/getitem/get/del/contains over 3 keys (15 ops) up to length L (quick 4, thorough 6) x "
    "capacity 1..4 x {LRUCache, ThreadSafeLRUCache}, after EACH op the result, len, keys, values, items and iter order are "
    "compared with R-lru (exhaustive), plus random sequences to length 200; concurrent: 2-4 threads x 3-5 ops with unique "
    "values, yield injection, WGL linearizability vs R-lru; stress: 2-16 threads mixed ops incl. lazily consumed listings. "
    "Non-trivial = a sequence with >= 1 eviction or reorder, or a concurrent history with >= 2 overlapping operations."
)
REQUIRED = [
    ("liquid/utils/lru_cache.py", "LRUCache.__setitem__"),
    ("liquid/utils/lru_cache.py", "LRUCache.__getitem__"),
    ("liquid/utils/lru_cache.py", "ThreadSafeLRUCache.__setitem__"),
    ("liquid/utils/lru_cache.py", "ThreadSafeLRUCache.keys"),
    ("liquid/utils/lru_cache.py", "ThreadSafeLRUCache.items"),
]
MIN_COUNTERS = {"invariant_evaluations": 1000, "concurrent_histories": 5, "overlapping_histories": 1}
QUICK_S = 55.0

KEYS = ["a", "b", "c"]
OPS = [(op, k) for op in ("set", "getitem", "get", "del", "contains") for k in KEYS]
CLASSES = {"LRUCache": LRUCache, "ThreadSafeLRUCache": ThreadSafeLRUCache}


class InvariantBroken(Exception):
    pass


INV = {"n": 0}


def size_within_capacity(self) -> bool:
    INV["n"] += 1
    return len(self._cache) <= self.capacity


_installed = False


def setup(ctx: core.Ctx) -> None:
    global _installed
    if not _installed:
        if not hasattr(LRUCache, "_cache") and "_cache" not in LRUCache.__init__.__code__.co_names:
            raise core.Inconclusive("LRUCache no longer keeps its entries in _cache: invariant hook target missing")
        icontract.invariant(size_within_capacity, error=InvariantBroken)(LRUCache)
        _installed = True


def finish(ctx: core.Ctx) -> None:
    ctx.count("invariant_evaluations", INV["n"])
    INV["n"] = 0


# ------------------------------------------------------------------- sequential


def check_listing(ctx, cache, model: RLru, after: str) -> bool:
    for op in ("len", "keys", "values", "items", "iter"):
        exp = model.apply(op)
        got = real_apply(cache, op)
        if got != exp and [tuple(x) if isinstance(x, list) else x for x in (got if isinstance(got, list) else [got])] != [
            tuple(x) if isinstance(x, list) else x for x in (exp if isinstance(exp, list) else [exp])
        ]:
            ctx.violation(f"seq:{op}-after-{after}", f"{op}() returned {got!r}, model says {exp!r} (most to least recently used)")
            return False
    if len(cache) > model.cap:
        ctx.violation("seq:len>capacity", f"cache holds {len(cache)} > capacity {model.cap}")
        return False
    return True


FALSY = [None, 0, "", False, "dflt", 0.0, (), None]  # values a lookup must not mistake for "absent" (or for its own default)


def run_sequence(ctx, cls_name: str, cap: int, ops: list, record_case: bool = True, vals: str = "unique") -> bool:
    """Run ops on a fresh real cache and the model; compare after each op. Returns False on violation."""
    cache = CLASSES[cls_name](cap)
    model = RLru(cap)
    vcount = 0
    for i, (op, k) in enumerate(ops):
        v = None
        if op == "set":
            vcount += 1
            v = f"{k}{vcount}" if vals == "unique" else FALSY[(vcount + len(k)) % len(FALSY)]
        elif op == "get":
            v = "dflt"
        try:
            got = real_apply(cache, op, k, v)
        except InvariantBroken as e:
            if record_case:
                ctx.current_case = {"kind": "seq", "cls": cls_name, "cap": cap, "ops": [list(o) for o in ops[: i + 1]], "vals": vals}
            ctx.violation("seq:invariant-len<=capacity", f"icontract invariant len(_cache) <= capacity broken after {op}({k}): {e}")
            return False
        except Exception as e:  # noqa: BLE001
            if record_case:
                ctx.current_case = {"kind": "seq", "cls": cls_name, "cap": cap, "ops": [list(o) for o in ops[: i + 1]], "vals": vals}
            ctx.violation(f"seq:{op}-raises-{type(e).__name__}", f"{op}({k}) raised {type(e).__name__}: {e}")
            return False
        exp = model.apply(op, k, v)
        if got != exp:
            if record_case:
                ctx.current_case = {"kind": "seq", "cls": cls_name, "cap": cap, "ops": [list(o) for o in ops[: i + 1]], "vals": vals}
            ctx.violation(f"seq:{op}-result", f"{cls_name}(capacity={cap}) after {ops[:i]}: {op}({k}) returned {got!r}, model says {exp!r}")
            return False
        saved = ctx.current_case
        if record_case:
            ctx.current_case = {"kind": "seq", "cls": cls_name, "cap": cap, "ops": [list(o) for o in ops[: i + 1]], "vals": vals}
        ok = check_listing(ctx, cache, model, op)
        ctx.current_case = saved
        if not ok:
            return False
    return True


# ------------------------------------------------------------------- concurrent

YTOOL = 4


class YieldInjector:
    """LINE-event callback on lru_cache.py that yields the GIL with a seeded probability."""

    def __init__(self, p: float, seed: int):
        self.p = p
        self.rng = random.Random(seed)
        self.file = lru_mod.__file__
        self.fired = 0
        self.on = False

    def start(self):
        mon = sys.monitoring
        try:
            mon.use_tool_id(YTOOL, "verif-yield")
        except ValueError:
            return
        self.on = True

        def line(code, ln):
            if code.co_filename != self.file:
                return mon.DISABLE
            if self.rng.random() < self.p:
                self.fired += 1
                time.sleep(0)
            return None

        mon.register_callback(YTOOL, mon.events.LINE, line)
        mon.set_events(YTOOL, mon.events.LINE)

    def stop(self):
        if not self.on:
            return
        mon = sys.monitoring
        mon.set_events(YTOOL, 0)
        mon.register_callback(YTOOL, mon.events.LINE, None)
        mon.free_tool_id(YTOOL)
        self.on = False


def run_history(ctx, case: dict[str, Any]) -> None:
    rng = random.Random(case["seed"])
    cap = case["cap"]
    nthreads = case["threads"]
    nops = case["ops"]
    cache = ThreadSafeLRUCache(cap)
    plans = []
    for t in range(nthreads):
        plan = []
        for j in range(nops):
            op = rng.choice(["set", "set", "getitem", "get", "del", "contains", "keys", "items", "values", "len", "iter"])
            k = rng.choice(KEYS)
            v = f"t{t}.{j}" if op == "set" else ("dflt" if op == "get" else None)
            plan.append((op, k, v))
        plans.append(plan)
    log: list[dict[str, Any]] = []
    loglock = threading.Lock()
    errors: list[str] = []
    barrier = threading.Barrier(nthreads)
    yrng = [random.Random(case["seed"] * 31 + t) for t in range(nthreads)]

    def worker(t: int):
        try:
            barrier.wait()
            for j, (op, k, v) in enumerate(plans[t]):
                t_call = time.monotonic_ns()
                if op in ("keys", "values", "items", "iter"):
                    it = {"keys": cache.keys, "values": cache.values, "items": cache.items, "iter": cache.__iter__}[op]()
                    t_ret = time.monotonic_ns()
                    # legal schedule: the listing is consumed lazily, outside the call, with yields in between
                    res = []
                    for x in it:
                        if yrng[t].random() < 0.7:
                            time.sleep(0)
                        res.append(tuple(x) if isinstance(x, (tuple, list)) else x)
                else:
                    res = real_apply(cache, op, k, v)
                    t_ret = time.monotonic_ns()
                with loglock:
                    log.append({"id": f"{t}.{j}", "thread": t, "op": op, "k": k, "v": v, "result": res, "call": t_call, "ret": t_ret})
        except Exception as e:  # noqa: BLE001
            errors.append(f"{type(e).__name__}: {e}")

    inj = YieldInjector(case.get("yield_p", 0.3), case["seed"])
    old = sys.getswitchinterval()
    sys.setswitchinterval(1e-6)
    inj.start()
    try:
        ths = [threading.Thread(target=worker, args=(t,)) for t in range(nthreads)]
        for th in ths:
            th.start()
        for th in ths:
            th.join(30)
        alive = any(th.is_alive() for th in ths)
    finally:
        inj.stop()
        sys.setswitchinterval(old)
    ctx.count("concurrent_histories")
    ctx.count("yields_injected", inj.fired)
    if alive:
        ctx.inconclusive("worker thread did not finish within the watchdog (possible deadlock)")
        return
    if errors:
        ctx.evaluations += 1
        ctx.violation("conc:worker-exception:" + errors[0].split(":")[0], f"ThreadSafeLRUCache raised in a worker thread: {errors[0]}", {"errors": errors})
        return
    # overlap statistics / distinct interleavings
    order = sorted(log, key=lambda o: o["ret"])
    inter = ",".join(str(o["thread"]) for o in order)
    ctx.observe("interleavings", core.stable_hash(inter))
    overlaps = sum(1 for a, b in itertools.combinations(log, 2) if a["thread"] != b["thread"] and a["call"] < b["ret"] and b["call"] < a["ret"])
    if overlaps:
        ctx.count("overlapping_histories")
    ctx.count("overlapping_op_pairs", overlaps)
    r = linearizable(log, cap)
    if r is None:
        ctx.count("linearizability_search_budget_exhausted")
        ctx.unspecified("lin-timeout")
        return
    if r is False:
        ctx.evaluations += 1
        ctx.violation("conc:not-linearizable", "recorded concurrent history has no linearization against R-lru", {"history": order})
        return
    ctx.ok(("conc", case["seed"], cap, nthreads, nops), nontrivial=overlaps >= 1)


def run_stress(ctx, case: dict[str, Any]) -> None:
    cap = case["cap"]
    nthreads = case["threads"]
    nops = case["ops"]
    keys = [f"k{i}" for i in range(case.get("nkeys", 5))]
    cache = ThreadSafeLRUCache(cap)
    errors: list[str] = []
    bad: list[str] = []
    rounds = case.get("rounds", 3)
    barrier = threading.Barrier(nthreads + 1)
    ops_done = [0] * nthreads

    def worker(t: int):
        rng = random.Random(case["seed"] * 1000 + t)
        try:
            for rnd in range(rounds):
                barrier.wait()
                for j in range(nops):
                    op = rng.choice(["set", "set", "getitem", "get", "del", "contains", "len", "keys", "values", "items", "iter"])
                    k = rng.choice(keys)
                    if op == "set":
                        cache[k] = (k, t, rnd, j)
                    elif op == "getitem":
                        try:
                            v = cache[k]
                            if v[0] != k:
                                bad.append(f"read {v!r} for key {k}")
                        except KeyError:
                            pass
                    elif op == "get":
                        v = cache.get(k)
                        if v is not None and v[0] != k:
                            bad.append(f"get {v!r} for key {k}")
                    elif op == "del":
                        try:
                            del cache[k]
                        except KeyError:
                            pass
                    elif op == "contains":
                        k in cache  # noqa: B015
                    elif op == "len":
                        n = len(cache)
                        if n > cap:
                            bad.append(f"len {n} > capacity {cap}")
                    else:
                        it = {"keys": cache.keys, "values": cache.values, "items": cache.items, "iter": cache.__iter__}[op]()
                        got = []
                        for x in it:
                            if rng.random() < 0.5:
                                time.sleep(0)
                            got.append(x)
                        if len(got) > cap:
                            bad.append(f"{op}() listed {len(got)} > capacity {cap} entries")
                        ks = [x[0] if op in ("items", "values") else x for x in got]
                        if len(set(ks)) != len(ks):
                            bad.append(f"{op}() listed duplicate keys {ks}")
                        if op == "items":
                            for kk, vv in got:
                                if vv[0] != kk:
                                    bad.append(f"items() paired key {kk} with value {vv!r}")
                    ops_done[t] += 1
                barrier.wait()  # quiescent point
        except threading.BrokenBarrierError:
            pass
        except Exception as e:  # noqa: BLE001
            errors.append(f"{type(e).__name__}: {e}")
            barrier.abort()

    inj = YieldInjector(case.get("yield_p", 0.05), case["seed"])
    old = sys.getswitchinterval()
    sys.setswitchinterval(1e-6)
    inj.start()
    quiescent_fail = None
    try:
        ths = [threading.Thread(target=worker, args=(t,)) for t in range(nthreads)]
        for th in ths:
            th.start()
        try:
            for rnd in range(rounds):
                barrier.wait(60)
                barrier.wait(120)
                # quiescent: all workers are parked before the next barrier
                ks = list(cache.keys())
                its = list(cache.items())
                vs = list(cache.values())
                if len(cache) > cap or len(ks) != len(cache) or [k for k, _ in its] != ks or [v for _, v in its] != vs or len(set(ks)) != len(ks):
                    quiescent_fail = f"keys={ks} items={its} values={vs} len={len(cache)} cap={cap}"
                for k, v in its:
                    if v[0] != k:
                        quiescent_fail = f"value {v!r} stored under key {k}"
                ctx.count("quiescent_points_checked")
        except threading.BrokenBarrierError:
            pass
        for th in ths:
            th.join(60)
        alive = any(th.is_alive() for th in ths)
    finally:
        inj.stop()
        sys.setswitchinterval(old)
    ctx.count("stress_runs")
    ctx.count("stress_ops", sum(ops_done))
    ctx.count("yields_injected", inj.fired)
    if errors:
        ctx.evaluations += 1
        ctx.violation("conc:worker-exception:" + errors[0].split(":")[0], f"ThreadSafeLRUCache raised in a worker thread under stress: {errors[0]}", {"errors": errors[:5]})
        return
    if alive:
        ctx.inconclusive("stress worker did not finish within the watchdog")
        return
    if bad:
        ctx.evaluations += 1
        ctx.violation("stress:read-invariant", f"stress read observed an impossible value: {bad[0]}", {"bad": bad[:10]})
        return
    if quiescent_fail:
        ctx.evaluations += 1
        ctx.violation("stress:quiescent-invariant", f"inconsistent cache at a quiescent point: {quiescent_fail}")
        return
    ctx.ok(("stress", case["seed"], cap, nthreads), nontrivial=True)


# ------------------------------------------------------------------- driver


def judge(ctx: core.Ctx, case: dict[str, Any]) -> None:
    kind = case["kind"]
    if kind == "seq":
        ops = [tuple(o) for o in case["ops"]]
        try:
            ok = run_sequence(ctx, case["cls"], case["cap"], ops, record_case=False, vals=case.get("vals", "unique"))
        except InvariantBroken as e:
            ctx.violation("seq:invariant-len<=capacity", f"invariant broken: {e}")
            ok = False
        if ok:
            evict = sum(1 for o in ops if o[0] == "set") > case["cap"]
            ctx.ok((case["cls"], case["cap"], case["ops"]), nontrivial=evict or len(ops) > 2)
        else:
            ctx.evaluations += 1
    elif kind == "block":
        pre = [tuple(o) for o in case["prefix"]]
        L = case["length"]
        n = 0
        for tail in itertools.product(OPS, repeat=L - len(pre)):
            ops = pre + list(tail)
            if not run_sequence(ctx, case["cls"], case["cap"], ops, vals=case.get("vals", "unique")):
                ctx.evaluations += 1
                return
            n += 1
        ctx.evaluations += n - 1
        ctx.count("sequences_enumerated", n)
        ctx.ok(("block", case["cls"], case["cap"], case["prefix"], L), nontrivial=True)
        # every enumerated sequence is distinct by construction; account for them in the distinct count
        ctx.extra["distinct_sequences_enumerated"] = ctx.extra.get("distinct_sequences_enumerated", 0) + n
    elif kind == "conc":
        run_history(ctx, case)
    elif kind == "stress":
        run_stress(ctx, case)
    else:
        raise ValueError(kind)


def cases(ctx: core.Ctx):
    rng = ctx.rng("cases")
    L = 4 if ctx.tier == "quick" else 6
    plen = 2 if L <= 5 else 3
    blocks = []
    for cls in CLASSES:
        for cap in (1, 2, 3, 4):
            for pre in itertools.product(OPS, repeat=plen):
                blocks.append({"kind": "block", "cls": cls, "cap": cap, "length": L, "prefix": [list(o) for o in pre], "vals": "falsy" if len(blocks) % 3 == 1 else "unique"})
    ctx.extra["exhaustive"] = True
    ctx.extra["exhaustive_sequence_length"] = L
    # a few concurrent histories first, so the concurrency monitors are always reached within the time cap
    seeds = itertools.count(ctx.seed * 100_000 + ctx.shard * 1000)
    nconc_first = 60 if ctx.tier == "quick" else 200
    for _ in range(nconc_first):
        yield {"kind": "conc", "seed": next(seeds), "threads": rng.choice([2, 3, 4]), "ops": rng.choice([3, 4, 5]), "cap": rng.choice([1, 2, 3]), "yield_p": rng.choice([0.1, 0.3, 0.6])}
    for i in range(3 if ctx.tier == "quick" else 6):
        yield {"kind": "stress", "seed": next(seeds), "threads": rng.choice([2, 4, 8, 16]), "ops": 400, "cap": rng.choice([1, 2, 3, 4]), "rounds": 3, "yield_p": 0.02}
    for i, b in enumerate(blocks):
        if i % ctx.nshards == ctx.shard:
            yield b
    # random long sequences
    for _ in range(ctx.budget(300, 20000)):
        n = rng.randint(5, 200)
        yield {"kind": "seq", "cls": rng.choice(list(CLASSES)), "cap": rng.randint(1, 4), "ops": [list(rng.choice(OPS)) for _ in range(n)], "vals": rng.choice(["unique", "falsy"])}
    # remaining time: more concurrent histories and stress
    for i in range(ctx.budget(400, 40000)):
        if i % 25 == 24:
            yield {"kind": "stress", "seed": next(seeds), "threads": rng.choice([2, 4, 8, 16]), "ops": 500, "cap": rng.choice([1, 2, 3, 4]), "rounds": 3, "yield_p": 0.02}
        else:
            yield {"kind": "conc", "seed": next(seeds), "threads": rng.choice([2, 3, 4]), "ops": rng.choice([3, 4, 5]), "cap": rng.choice([1, 2, 3]), "yield_p": rng.choice([0.1, 0.3, 0.6])}
