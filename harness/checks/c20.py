"""C20 Reported locations point at the reported item.

Monitor: M1 on BoundTemplate.analyze / analyze_async / Environment.analyze_tags_from_string (every Span returned) and on
         Environment.from_string (every LiquidError raised: its token, str(), context()).
Oracle : invariant over each span: the named template's source, at the reported index, spells the reported name; invariant over
         each parse error: position inside its own source, message formats, line/column agree with an independent count.
"""

from __future__ import annotations

import re
from typing import Any

from harness import core, drv
from harness.gen import malformed as MF
from harness.gen import tpl

PROP = "C20"
TECHNIQUE = "runtime monitor with span / error-position invariants over generated multi-line template sets and malformed sources"
RULE = (
    "analysis cases: generated template sets (main + 2 partials from G-ast: every standard and extra tag, liquid tags, nested / bracketed / "
    "quoted paths, filters, include/render) printed with random whitespace control and tight/loose padding, with spaces inside markup "
    "randomly turned into newlines, analysed with analyze(), analyze_async() and analyze_tags_from_string(); every returned span is judged. "
    "error cases: token-level mutations of such sources, random tag/expression fragments and markup soup, with \\n and \\r\\n line ends, parsed "
    "in strict mode; every LiquidError is judged. Non-trivial = >= 3 spans judged on a source with >= 2 lines, or an error raised; distinct by source."
    " Rounds 5-6 added enumerated families: every line ending for the hand-written sources; partials under names that are not plain words."
)
REQUIRED = [
    ("liquid/static_analysis.py", "analyze"),
    ("liquid/static_analysis.py", "analyze_async"),
    ("liquid/static_analysis.py", "_analyze_variables"),
    ("liquid/static_analysis.py", "_extract_filters"),
    ("liquid/analyze_tags.py", "TagAnalysis._all_tags"),
    ("liquid/builtin/expressions/_tokenize.py", "tokenize"),
    ("liquid/builtin/tags/liquid_tag.py", "LiquidTag.parse"),
    ("liquid/exceptions.py", "LiquidError.detailed_message"),
    ("liquid/exceptions.py", "LiquidError._error_context"),
    ("liquid/lex.py", "_tokenize_template"),
]
MIN_COUNTERS = {
    "span:variables": 500, "span:globals": 300, "span:locals": 50, "span:filters": 200, "span:tags": 300, "span:tag_analysis": 300,
    "span_in_liquid_tag": 30, "span_in_partial": 50, "span_beyond_line1": 300, "parse_errors_judged": 300, "error_beyond_line1": 50,
}

from liquid import DictLoader  # noqa: E402
from liquid.exceptions import LiquidError  # noqa: E402

_envs: dict[tuple, Any] = {}


def env(extra: bool, mode: str = "strict"):
    k = (extra, mode)
    if k not in _envs:
        _envs[k] = drv.make_env({"extra": extra, "mode": mode, "flags": {"ternary_expressions": True, "logical_not_operator": True, "logical_parentheses": True}})
    return _envs[k]


# ------------------------------------------------------------------------------ span oracle

_QUOTED_ROOT = re.compile(r"""\[\s*(['"])(.*?)\1""", re.S)


def span_points_at(source: str, index: int, name: str, kind: str) -> bool:
    if not isinstance(index, int) or index < 0 or index >= len(source):
        return False
    rest = source[index:]
    if rest.startswith(name):
        return True
    if kind in ("variables", "globals", "locals"):
        # bracketed root: ['name'] / ["name"]; nested root [a.b] is reported under the printed list and starts with '['
        m = _QUOTED_ROOT.match(rest)
        if m and m.group(2) == name:
            return True
        if rest.startswith("[") and name.startswith("["):
            return True
    return False


def liquid_tag_regions(source: str) -> list[tuple[int, int]]:
    return [(m.start(), m.end()) for m in re.finditer(r"\{%-?\s*liquid\b.*?%\}", source, re.S)]


def judge_spans(ctx: core.Ctx, what: str, name_spans, sources: dict[str, str], main_name: str) -> int:
    n = 0
    for kind, name, tname, index in name_spans:
        n += 1
        ctx.count("span:" + kind)
        src = sources.get(tname)
        if src is None:
            ctx.violation(f"span-names-unknown-template:{kind}", f"{what}: {kind} {name!r} reported in template {tname!r}, which is not one of {sorted(sources)}")
            continue
        if tname != main_name:
            ctx.count("span_in_partial")
        if isinstance(index, int) and 0 <= index < len(src):
            if "\n" in src[:index]:
                ctx.count("span_beyond_line1")
            if any(a <= index < b for a, b in liquid_tag_regions(src)):
                ctx.count("span_in_liquid_tag")
        if not span_points_at(src, index, name, kind):
            where = "liquid-tag" if isinstance(index, int) and any(a <= index < b for a, b in liquid_tag_regions(src)) else "markup"
            near = src[max(0, index - 10) : index + 20] if isinstance(index, int) else None
            ctx.violation(
                f"span-misses-name:{kind}:{where}",
                f"{what}: {kind} {name!r} reported at {tname}:{index}, where the source reads {near!r}",
                {"template": tname, "index": index, "name": name, "source": src},
            )
    return n


def collect_analysis(a) -> list[tuple[str, str, str, int]]:
    out = []
    for kind in ("variables", "globals", "locals"):
        for root, vs in getattr(a, kind).items():
            for v in vs:
                out.append((kind, str(root), v.span.template_name, v.span.index))
    for kind in ("filters", "tags"):
        for name, spans in getattr(a, kind).items():
            for sp in spans:
                out.append((kind, str(name), sp.template_name, sp.index))
    return out


def collect_tag_analysis(ta, tname: str) -> list[tuple[str, str, str, int]]:
    out = []
    for attr in ("all_tags", "tags", "unclosed_tags", "unexpected_tags", "unknown_tags"):
        for name, spans in getattr(ta, attr).items():
            for sp in spans:
                out.append(("tag_analysis", str(name), sp.template_name if sp.template_name else tname, sp.index))
    return out


# ------------------------------------------------------------------------------ error oracle

def line_col(source: str, index: int) -> tuple[int, int] | None:
    """Independent line/column: only for sources whose line breaks are \\n or \\r\\n (else None)."""
    if re.search(r"[\x0b\x0c\x1c\x1d\x1e\x85  ]|\r(?!\n)", source):
        return None
    line = source.count("\n", 0, index) + 1
    last = source.rfind("\n", 0, index)
    return line, index - (last + 1)


def judge_error(ctx: core.Ctx, err: LiquidError, source: str, what: str) -> None:
    ctx.count("parse_errors_judged")
    cls = type(err).__name__
    ctx.observe("error_class", cls)
    tok = getattr(err, "token", None)
    bad = None
    if tok is None:
        bad = "no-token"
    elif not isinstance(tok.start_index, int) or tok.start_index < 0:
        bad = "negative-index:" + ("eof" if tok.kind in ("EOF", "eof") or tok.start_index == -1 else "other")
    elif tok.source != source:
        # a token cut from an expression must still index the template source, not a fragment of it
        bad = "token-source-is-not-the-template-source"
    elif tok.start_index >= len(source):
        bad = "index-past-end"
    if bad:
        ctx.violation(f"error-position:{bad}:{cls}", f"{what}: {cls}({str(getattr(err, 'message', ''))[:80]!r}) carries {bad} (token={tok!r:.120})", {"source": source})
    try:
        text = str(err)
        c = err.context()
    except Exception as e:  # noqa: BLE001 - formatting the message must never fail
        ctx.violation(
            f"error-message-raises:{type(e).__name__}@{core.liquid_frame(e)}",
            f"{what}: formatting {cls} raised {type(e).__name__}: {e}",
            {"source": source, "tb": core.short_tb(e)},
        )
        return
    if bad:
        return
    # Token's own contract (liquid/token.py: "start_index: the index into source where this token starts"): the text at the
    # reported position is the token the error names.  Quoted strings and the synthetic end-of-stream token are exempt.
    # Top-level tokens whose value is a *body* (doc, comment, raw, content, the expression part of a tag) start at their markup.
    if tok.kind not in ("end of expression", "EOF", "doc", "comment", "COMMENT", "raw", "content", "expression", "output") and tok.value and not source[tok.start_index :].startswith(tok.value):
        rest = source[tok.start_index :]
        quoted = rest[:1] in "'\"" and rest[1:].startswith(tok.value)
        bracket = rest[:1] == "[" and tok.value in rest.split("]", 1)[0]
        if not (quoted or bracket):
            ctx.violation(
                f"error-token-not-at-its-index:{tok.kind}:{cls}",
                f"{what}: {cls} names token {tok.value!r} ({tok.kind}) at index {tok.start_index}, where the source reads {rest[:20]!r}",
                {"source": source},
            )
            return
    ctx.count("error_token_found_at_its_index")
    if c is None or not isinstance(text, str):
        ctx.violation(f"error-context-missing:{cls}", f"{what}: {cls} has a token but context() returned {c!r}", {"source": source})
        return
    exp = line_col(source, tok.start_index)
    if exp is None:
        ctx.count("error_linecol_unspecified_line_breaks")
        return
    if exp[0] > 1:
        ctx.count("error_beyond_line1")
    if (c[0], c[1]) != exp:
        ctx.violation(
            f"error-line-col-wrong:{cls}",
            f"{what}: {cls} at index {tok.start_index} reports line {c[0]} col {c[1]}, counting line breaks gives {exp}",
            {"source": source},
        )
        return
    if f"{exp[0]}:{exp[1]}" not in text:
        ctx.violation(f"error-message-lacks-position:{cls}", f"{what}: str() of {cls} does not mention {exp[0]}:{exp[1]}: {text!r:.200}", {"source": source})


# ------------------------------------------------------------------------------ judge

def judge(ctx: core.Ctx, case: dict[str, Any]) -> None:
    if case["kind"] == "analysis":
        judge_analysis(ctx, case)
    else:
        judge_malformed(ctx, case)


def judge_analysis(ctx: core.Ctx, case: dict[str, Any]) -> None:
    e = env(case.get("extra", False))
    sources = dict(case["partials"])
    sources["main"] = case["main"]
    e.loader = DictLoader(dict(case["partials"]))
    o = drv.call(e.from_string, case["main"], name="main")
    n = 0
    if not o.ok:
        if isinstance(o.exc, LiquidError):
            judge_error(ctx, o.exc, case["main"], "from_string(main)")
            ctx.ok((case["main"],), nontrivial=True)
        else:
            ctx.count("non_liquid_error_forwarded_to_C02")
        # tag analysis works on tokens and must still be judged
    else:
        t = o.value
        if case.get("async"):
            a = drv.call_async(t.analyze_async)
        else:
            a = drv.call(t.analyze)
        if a.ok:
            n += judge_spans(ctx, "analyze_async()" if case.get("async") else "analyze()", collect_analysis(a.value), sources, "main")
        elif isinstance(a.exc, LiquidError):
            ctx.count("analysis_raised_liquid_error")
            ctx.observe("analysis_error", a.err_class)
            # errors found while loading/parsing a partial are parse errors of that partial's source
            tok = getattr(a.exc, "token", None)
            if tok is not None and tok.source in sources.values():
                judge_error(ctx, a.exc, tok.source, "analyze() -> partial parse")
        else:
            ctx.count("non_liquid_error_forwarded_to_C02")
    if drv.lexer_accepts(e, case["main"]):
        ta = drv.call(e.analyze_tags_from_string, case["main"], name="main")
        if ta.ok:
            n += judge_spans(ctx, "analyze_tags_from_string()", collect_tag_analysis(ta.value, "main"), sources, "main")
    if o.ok:
        ctx.ok((case["main"], tuple(sorted(case["partials"].items())), bool(case.get("async"))), nontrivial=n >= 3 and "\n" in case["main"])


def judge_malformed(ctx: core.Ctx, case: dict[str, Any]) -> None:
    e = env(case.get("extra", False))
    e.loader = DictLoader({})
    src = case["source"]
    o = drv.call(e.from_string, src, name="main")
    if o.ok:
        ctx.count("malformed_source_parsed")
        if drv.lexer_accepts(e, src):
            ta = drv.call(e.analyze_tags_from_string, src, name="main")
            if ta.ok:
                judge_spans(ctx, "analyze_tags_from_string()", collect_tag_analysis(ta.value, "main"), {"main": src}, "main")
        ctx.ok((src,), nontrivial=False)
        return
    if not isinstance(o.exc, LiquidError):
        ctx.count("non_liquid_error_forwarded_to_C02")
        return
    judge_error(ctx, o.exc, src, "from_string")
    if drv.lexer_accepts(e, src):
        ta = drv.call(e.analyze_tags_from_string, src, name="main")
        if ta.ok:
            judge_spans(ctx, "analyze_tags_from_string()", collect_tag_analysis(ta.value, "main"), {"main": src}, "main")
    ctx.ok((src,), nontrivial=True)


# ------------------------------------------------------------------------------ workload

def spread(rng, source: str, p: float) -> str:
    """Turn some spaces inside markup (outside liquid tags and string literals) into newlines / extra indentation."""
    toks = MF.split_tokens(source)
    out = []
    for t in toks:
        if (t.startswith("{%") or t.startswith("{{")) and not re.match(r"\{%-?\s*(liquid|raw|comment|doc|#)", t) and "'" not in t and '"' not in t:
            t = "".join((rng.choice(["\n", "\n  ", "  ", "\t"]) if ch == " " and rng.random() < p else ch) for ch in t)
        out.append(t)
    return "".join(out)


def gen_set(rng, extra: bool):
    cfg = tpl.GenCfg(extra=extra, ternary=True, logical_not=True, parens=True, max_nodes=18, wild=0.03)
    cfg.text_alphabet = ["a", "b", " ", "\n", "x-y", ".", "1", "é", "\n\n", "  \n"]
    main, partials, _meta = tpl.gen_template_set(rng, cfg, 2)
    st = tpl.Style(wc=rng.choice([0.0, 0.3]), tight=rng.choice([0.0, 0.3]))
    p = rng.choice([0.0, 0.15, 0.3])
    msrc = spread(rng, tpl.print_nodes(main, st, rng), p)
    psrc = {k: spread(rng, tpl.print_nodes(v, st, rng), p) for k, v in partials.items()}
    if rng.random() < 0.15:
        # text that editors and tools treat specially at the start of a file is ordinary text to a template: every index still counts it
        lead = rng.choice(["\ufeff", "\ufeff\ufeff", "\u200b", "\u2028", "\x0c", "\r\n", "\ufeff\n", "\ufffe"])
        msrc = lead + msrc
        psrc = {k: (lead + v if rng.random() < 0.5 else v) for k, v in psrc.items()}
    return msrc, psrc


HAND = [
    "Hello {{ you.name | upcase }}\n{%- assign x = a.b[c.d]['e f'] | default: z, allow_false: q %}\n{% liquid\n  assign y = x | plus: 1\n  echo y | minus: w\n  for i in (1..n)\n    echo i\n  endfor\n%}\n",
    "{% for item in items limit: lim %}{{ item.title }}{{ forloop.index }}{% endfor %}\n{{ [\"br\"].x }}{{ ['q'] }}{{ [a.b].c }}{{ 'lit' | append: sfx }}\n",
    "{% liquid\n  # note\n  if u == v and w contains 'x'\n    echo u | append: v\n  elsif not (u)\n    increment cnt\n  endif\n  case u\n    when v, w\n      cycle 'g': u, v\n  endcase\n%}",
    "a\n{% if true %}\n  {% liquid\n    assign q = 1\n    liquid\n      echo q | plus: r\n  %}\n{% endif %}",
]


# partials reached by extends / include / render under names that are not plain words: the template a location names is the one it lies in
NAMED_SETS = []
for _n1, _n2 in (("layouts/base.html", "dir/p.liquid"), ("my base", "a b/c d"), ("if", "for"), ("base.v2", "p-1.0"), ("ünï/cödé", "日本/語"), ("true", "nil"), ("a'b", "q.r/s.t")):
    NAMED_SETS.append(("{% extends \"" + _n1 + "\" %}{% block b %}{{ x | upcase }}{% assign loc = y.z %}{% endblock %}\n{% block c %}{% include \"" + _n2 + "\" %}{% endblock %}",
                       {_n1: "A{{ top.level }}\n{% block b %}{{ inner | size }}{% endblock %}|{% block c %}{% endblock %}{% render \"" + _n2 + "\", v: arg.one %}", _n2: "\n  {{ zed | downcase }}{% echo v.w %}"}))
    NAMED_SETS.append(("{% include \"" + _n1 + "\" %}{% render \"" + _n2 + "\" %}{{ own }}", {_n1: "{% liquid\n assign q = r.s\n echo q\n%}{% include \"" + _n2 + "\" %}", _n2: "{{ deep.er[0] | first }}"}))


def cases(ctx: core.Ctx):
    rng = ctx.rng("cases")
    if ctx.shard == 0:
        for msrc, psrc in NAMED_SETS:
            for is_async in (False, True):
                yield {"kind": "analysis", "main": msrc, "partials": dict(psrc), "extra": True, "async": is_async}
        for s in HAND:
            for extra in (False, True):
                yield {"kind": "analysis", "main": s, "partials": {}, "extra": extra, "async": False}
        # the same sources with every other line ending (and characters that only some tools take for one): an index counts characters,
        # whatever they are
        for sep in ("\r\n", "\r", "\n\n", "\r\n\r\n", " \r\n", "\n\r"):
            for hi, s in enumerate(HAND):
                v = s.replace("\n", sep)
                yield {"kind": "analysis", "main": v, "partials": {}, "extra": bool(hi % 2), "async": False}
                yield {"kind": "analysis", "main": "{% include 'p' %}{% render 'p' %}" + v, "partials": {"p": v}, "extra": True, "async": True}
    n = ctx.budget(2500, 300_000)
    for i in range(n):
        extra = rng.random() < 0.5
        msrc, psrc = gen_set(rng, extra)
        yield {"kind": "analysis", "main": msrc, "partials": psrc, "extra": extra, "async": rng.random() < 0.3}
        # malformed relatives of the same source
        for _ in range(3):
            r = rng.random()
            if r < 0.6:
                s = MF.mutate(rng, msrc, 2)
            elif r < 0.8:
                s = rng.choice(["", "a\n", "x\n\ny ", "é\n"]) + MF.random_tag_source(rng) + rng.choice(["", "\n", "\nz"])
            else:
                s = MF.soup(rng, 14)
            if rng.random() < 0.1:
                s = s.replace("\n", "\r\n")
            yield {"kind": "malformed", "source": s, "extra": extra}
