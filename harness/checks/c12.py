"""C12 Conditions follow Liquid truthiness and operator rules.

Monitor: M1 (rendered branch selection / exception class).
Oracle : reference model R-cond (harness/models/cond.py), three-valued.
"""

from __future__ import annotations

import itertools
from decimal import Decimal
from typing import Any

from harness import core, drv
from harness.gen import values as V
from harness.models import cond as M

PROP = "C12"
TECHNIQUE = "reference-model runtime monitor (R-cond) over the exhaustive operator x operand x operand grid and enumerated and/or/not/paren trees"
RULE = (
    "grid: every operator (== != <> < > <= >= contains) x operand x operand over a ~30-value lattice (ints, floats, Decimal, bools, nil, "
    "undefined, strings incl. empty/blank-like/numeric, lists, dicts, ranges, plus the empty/blank keywords), operands given as variables "
    "and as literals, in if / unless / elsif / case-when / ternary contexts (exhaustive); truthiness of every value; all and/or/not/paren "
    "trees to depth 3 (thorough 4) over true/false/variables with all truth assignments. Cells the documentation leaves open are counted "
    "as unspecified. Non-trivial = every judged cell (each has a model verdict), distinct by (context, operator, operands)."
    " Rounds 5-6 added enumerated families: strings holding number and boolean texts as haystacks (the needle is the text a template prints)."
)
REQUIRED = [
    ("liquid/builtin/expressions/logical.py", "is_truthy"),
    ("liquid/builtin/expressions/logical.py", "_eq"),
    ("liquid/builtin/expressions/logical.py", "_lt"),
    ("liquid/builtin/expressions/logical.py", "_contains"),
    ("liquid/builtin/expressions/logical.py", "parse_boolean_primitive"),
    ("liquid/builtin/tags/case_tag.py", "CaseNode.render_to_output"),
    ("liquid/builtin/tags/unless_tag.py", "UnlessNode.render_to_output"),
]

FLAGS = {"ternary_expressions": True, "logical_not_operator": True, "logical_parentheses": True}
_env = None


def env():
    global _env
    if _env is None:
        _env = drv.make_env({"flags": FLAGS})
    return _env


_env_falsy = None


def env_falsy():
    """Same flags, undefined=FalsyStrictUndefined: documented to behave like the default undefined in conditions and comparisons."""
    global _env_falsy
    if _env_falsy is None:
        _env_falsy = drv.make_env({"flags": FLAGS, "undefined": "falsy_strict"})
    return _env_falsy


VALUES: list[Any] = [
    0, 1, -1, 2, 0.0, 1.0, 1.5, Decimal("1"), Decimal("1.5"), True, False, None,
    "", " ", "a", "b", "1", "abc", "true", "v1.5", "x1.0y-1", "it is true", "True 1.5e0",
    [], [1], [1, 2], ["a"], [True], [None], {}, {"a": 1}, {"1": 1}, range(1, 3), range(0),
]
OPERANDS: list[dict[str, Any]] = [{"t": "val", "v": V.enc(v)} for v in VALUES] + [{"t": "undef"}, {"t": "empty"}, {"t": "blank"}]
OPS = ["==", "!=", "<>", "<", ">", "<=", ">=", "contains"]
CONTEXTS = ["if", "unless", "elsif", "ternary", "case"]


def model_operand(o: dict[str, Any]):
    if o["t"] == "val":
        return ("val", V.dec(o["v"]))
    return (o["t"],)


def operand_src(o: dict[str, Any], name: str, as_lit: bool, data: dict[str, Any]) -> str:
    if o["t"] == "undef":
        return "nosuchvar"
    if o["t"] in ("empty", "blank"):
        return o["t"]
    v = V.dec(o["v"])
    if as_lit:
        lit = V.literal_source(v)
        if lit is not None and not isinstance(v, Decimal):
            return lit
    data[name] = v
    return name


def wrap(ctx_kind: str, expr: str) -> str:
    if ctx_kind == "if":
        return "{% if " + expr + " %}T{% else %}F{% endif %}"
    if ctx_kind == "unless":
        return "{% unless " + expr + " %}F{% else %}T{% endunless %}"
    if ctx_kind == "elsif":
        return "{% if false %}x{% elsif " + expr + " %}T{% else %}F{% endif %}"
    if ctx_kind == "ternary":
        return "{{ 'T' if " + expr + " else 'F' }}"
    raise ValueError(ctx_kind)


def classify_pair(op: str, a, b) -> str:
    return f"{op}:{M.kind(a)}~{M.kind(b)}"


def judge(ctx: core.Ctx, case: dict[str, Any]) -> None:
    data: dict[str, Any] = {}
    k = case["kind"]
    if k == "cmp":
        a, b = case["a"], case["b"]
        ma, mb = model_operand(a), model_operand(b)
        op = case["op"]
        exp = M.compare(op, ma, mb)
        sa = operand_src(a, "x", case.get("alit", False), data)
        sb = operand_src(b, "y", case.get("blit", False), data)
        if case["ctx"] == "case":
            src = "{% case " + sa + " %}{% when " + sb + " %}T{% else %}F{% endcase %}"
        else:
            src = wrap(case["ctx"], f"{sa} {op} {sb}")
        sig_tail = classify_pair(op, ma, mb)
    elif k == "truthy":
        a = case["a"]
        ma = model_operand(a)
        exp = M.truthy(ma)
        sa = operand_src(a, "x", case.get("alit", False), data)
        src = wrap(case["ctx"], sa)
        sig_tail = f"truthy:{M.kind(ma)}"
    elif k == "tree":
        toks = []
        for t in case["tokens"]:
            if isinstance(t, dict):
                toks.append(("atom", t["v"] if isinstance(t["v"], bool) else M.truthy(("val", V.dec(t["v"])))))
            else:
                toks.append(t)
        exp = M.eval_flat(toks)
        parts = []
        for t in case["tokens"]:
            if isinstance(t, dict):
                if t.get("src"):
                    data.update({"lo": 1, "hi": 3, "s2": ".."})
                    parts.append(t["src"])
                elif t.get("name"):
                    data[t["name"]] = V.dec(t["v"]) if not isinstance(t["v"], bool) else t["v"]
                    parts.append(t["name"])
                else:
                    parts.append("true" if t["v"] else "false")
            else:
                parts.append(t)
        src = wrap(case["ctx"], " ".join(parts).replace("( ", "(").replace(" )", ")"))
        sig_tail = "logical-grouping"
    elif k == "chain":
        # if / unless with elsif branches and an optional else: the first truthy condition wins, whatever its block prints (nothing at all,
        # whitespace only, text); later conditions and the else block are then out of the picture
        names = []
        for i, c in enumerate(case["conds"]):
            if c.get("t") == "undef":
                names.append(f"nosuch{i}")
            else:
                data[f"c{i}"] = V.dec(c["v"])
                names.append(f"c{i}")
        truth = [M.truthy(model_operand(c)) for c in case["conds"]]
        if case["head"] == "unless":
            truth[0] = not truth[0]
        bodies = case["bodies"]
        chosen = next((bodies[i] for i, t in enumerate(truth) if t), case.get("else") or "")
        exp_text = chosen
        src = "{% " + case["head"] + " " + names[0] + " %}" + bodies[0]
        for i in range(1, len(names)):
            src += "{% elsif " + names[i] + " %}" + bodies[i]
        if case.get("else") is not None:
            src += "{% else %}" + case["else"]
        src = "[" + src + "{% end" + case["head"] + " %}]"
        o = drv.parse_and_render(env_falsy() if case.get("falsy_undef") else env(), src, data, use_async=case.get("async", False))
        got = o.value if o.ok else f"raised {o.err_class}"
        ctx.count("branch_chains_judged")
        if got != "[" + exp_text + "]":
            ctx.evaluations += 1
            ctx.violation("branch-chain:" + case["head"] + (":async" if case.get("async") else ""), f"{src!r} with {data!r:.160} gave {got!r}, R-cond says {'[' + exp_text + ']'!r}", {"source": src, "data": V.enc(data)})
            return
        ctx.ok((case,), nontrivial=True)
        return
    elif k == "nestcase":
        # case inside a when block of another case, each with its own subject
        vals = {n: model_operand(v) for n, v in case["vals"].items()}
        for n, v in case["vals"].items():
            if v["t"] == "val":
                data[n] = V.dec(v["v"])

        def run_case(spec) -> Any:
            subj = vals[spec["subject"]]
            out = []
            matched = False
            for w in spec["whens"]:
                r = M.eq(subj, vals[w["value"]])
                if r is M.UNSPEC:
                    return M.UNSPEC
                if r:
                    matched = True
                    out.append(w["text"])
                    if w.get("inner"):
                        inner = run_case(w["inner"])
                        if inner is M.UNSPEC:
                            return M.UNSPEC
                        out.append(inner)
            if not matched and spec.get("else") is not None:
                out.append(spec["else"])
            return "".join(out)

        def src_case(spec) -> str:
            t = "{% case " + spec["subject"] + " %}"
            for w in spec["whens"]:
                t += "{% when " + w["value"] + " %}" + w["text"] + (src_case(w["inner"]) if w.get("inner") else "")
            if spec.get("else") is not None:
                t += "{% else %}" + spec["else"]
            return t + "{% endcase %}"

        exp = run_case(case["spec"])
        src = src_case(case["spec"])
        sig_tail = "case-nested-in-when"
        if exp is not M.UNSPEC:
            o = drv.parse_and_render(env(), src, data, use_async=case.get("async", False))
            got = o.value if o.ok else f"raised {o.err_class}"
            if got != exp:
                ctx.evaluations += 1
                ctx.violation(sig_tail, f"{src!r} with {data!r:.160} gave {got!r}, R-cond says {exp!r}", {"source": src, "data": V.enc(data)})
                return
            ctx.count("nested_case_judged")
            ctx.ok((case,), nontrivial=True)
            return
    else:
        raise ValueError(k)

    the_env = env_falsy() if case.get("falsy_undef") else env()
    if case.get("falsy_undef"):
        ctx.count("judged_with_falsy_strict_undefined")
        sig_tail += ":FalsyStrictUndefined"
    if exp is M.UNSPEC:
        ctx.unspecified(sig_tail.split(":")[0])
        # still executed for crash containment (non-Liquid errors are C02's subject)
        o = drv.parse_and_render(the_env, src, data)
        if not o.ok and not o.is_liquid_error:
            ctx.count("non_liquid_error_forwarded_to_C02")
        return
    o = drv.parse_and_render(the_env, src, data, use_async=case.get("async", False))
    if o.ok:
        got: Any = {"T": True, "F": False}.get(o.value, o.value)
    elif o.err_class == "LiquidTypeError":
        got = M.TYPE_ERROR
    else:
        got = f"raised {o.err_class}"
    if exp == M.FALSE_OR_TYPE_ERROR and got in (False, M.TYPE_ERROR) or exp == M.TRUE_OR_TYPE_ERROR and got in (True, M.TYPE_ERROR):
        ctx.count("set_valued_cells_judged")
        ctx.observe("verdict_kinds", exp)
        ctx.ok((case,), nontrivial=True)
        return
    if got != exp:
        ctx.evaluations += 1
        ctx.violation(f"{sig_tail}", f"{src!r} with {data!r:.120} gave {got!r}, R-cond says {exp!r}", {"source": src, "data": V.enc(data)})
        return
    ctx.observe("verdict_kinds", exp)
    ctx.ok((case,), nontrivial=True)


# ------------------------------------------------------------------------ generators


def trees(depth: int):
    """Token lists of and/or/not/paren trees; atoms are placeholders 'A'."""
    if depth == 0:
        yield ["A"]
        return
    yield from trees(depth - 1)
    subs = list(trees(depth - 1))
    for l, r in itertools.product(subs, subs):
        if l.count("A") + r.count("A") > 4:
            continue
        for op in ("and", "or"):
            yield l + [op] + r
            yield ["("] + l + [")", op] + r
            yield l + [op, "("] + r + [")"]
    for s in subs:
        yield ["not", "("] + s + [")"]
        if s == ["A"]:
            yield ["not", "A"]


def tree_cases(depth: int, rng, limit: int | None):
    seen = set()
    all_trees = []
    for t in trees(depth):
        key = " ".join(t)
        if key in seen:
            continue
        seen.add(key)
        # `not` directly followed by an atom that is not the end of its chain is not settled: skip those shapes
        ok = True
        for i, tok in enumerate(t):
            if tok != "not":
                continue
            j = i + 1
            if t[j] == "(":
                d = 0
                while True:
                    d += t[j] == "("
                    d -= t[j] == ")"
                    if d == 0:
                        break
                    j += 1
            # the operand of `not` must end its (sub)expression: how far `not` reaches otherwise is not settled
            if j + 1 < len(t) and t[j + 1] in ("and", "or"):
                ok = False
        if ok:
            all_trees.append(t)
    if limit is not None and len(all_trees) > limit:
        all_trees = all_trees[:200] + rng.sample(all_trees[200:], limit - 200)
    for t in all_trees:
        n = t.count("A")
        for bits in itertools.product([True, False], repeat=n):
            it = iter(bits)
            names = iter("pqrs")
            toks = []
            for tok in t:
                if tok == "A":
                    v = next(it)
                    nm = next(names)
                    r = rng.random()
                    if r < 0.2:
                        # an atom that is itself a comparison with a range literal or a string containing dots: the parentheses of a
                        # range and the grouping parentheses around it must not be confused
                        toks.append({"v": v, "src": rng.choice(["(1..3) contains 2", "(lo..3) contains 3", "s2 == '..'", "(1..hi) contains 1", "lo <> hi", "hi != lo", "lo == 1", "lo < hi", "hi >= 3", "s2 contains '.'"]
                                                            if v else ["(1..3) contains 5", "(lo..3) contains 0", "s2 != '..'", "lo <> lo", "lo <> 1", "hi == lo", "hi < lo", "lo >= hi", "s2 contains 'x'"])})
                    elif r < 0.45:
                        # a variable whose Liquid truthiness is the chosen bit but whose Python truthiness may differ (0, "", [] are truthy)
                        val = rng.choice([0, "", [], 0.0, {}, "x", 1, [0], True] if v else [None, False])
                        toks.append({"v": V.enc(val) if not isinstance(val, bool) else val, "name": nm})
                    else:
                        toks.append({"v": v, "name": nm if rng.random() < 0.7 else None})
                else:
                    toks.append(tok)
            yield {"kind": "tree", "ctx": rng.choice(["if", "unless", "elsif", "ternary"]), "tokens": toks, "async": rng.random() < 0.3}


def gen_nestcase(rng) -> dict[str, Any]:
    pool = [1, 2, "a", "b", None, True, 1.0, "1"]
    names = ["s1", "s2", "s3", "w1", "w2", "w3", "w4"]
    vals = {n: {"t": "val", "v": V.enc(rng.choice(pool))} for n in names}
    k = [0]

    def case_spec(depth: int) -> dict[str, Any]:
        whens = []
        for _ in range(rng.randint(1, 3)):
            k[0] += 1
            w = {"value": rng.choice(names[3:] + names[:3]), "text": f"<{k[0]}>"}
            if depth < 2 and rng.random() < 0.6:
                w["inner"] = case_spec(depth + 1)
            whens.append(w)
        k[0] += 1
        return {"subject": rng.choice(names[:3]), "whens": whens, "else": f"<e{k[0]}>" if rng.random() < 0.5 else None}

    return {"kind": "nestcase", "vals": vals, "spec": case_spec(0), "async": rng.random() < 0.3}


CHAIN_CONDS: list[dict[str, Any]] = [{"t": "val", "v": V.enc(v)} for v in (True, False, None, 0, "", "a", [], 0.0)] + [{"t": "undef"}]
CHAIN_BODIES = ["", "", "B", "x y"]  # empty or visible (what a whitespace-only block prints is C10's subject, not this property's)


def chain_cases(rng, n: int):
    for _ in range(n):
        k = rng.randint(2, 4)
        conds = [rng.choice(CHAIN_CONDS) for _ in range(k)]
        yield {"kind": "chain", "head": rng.choice(["if", "if", "unless"]), "conds": conds, "bodies": [rng.choice(CHAIN_BODIES) if rng.random() < 0.6 else f"<{i}>" for i in range(k)],
               "else": rng.choice([None, "E", "", "<else>"]), "async": rng.random() < 0.5, "falsy_undef": rng.random() < 0.2}


def cases(ctx: core.Ctx):
    rng = ctx.rng("cases")
    idx = 0
    yield from chain_cases(rng, ctx.budget(2500, 160_000))
    for _ in range(ctx.budget(1500, 100_000)):
        yield gen_nestcase(rng)
    # truthiness
    for o in OPERANDS:
        for c in ("if", "unless", "elsif", "ternary"):
            for lit in (False, True):
                idx += 1
                if idx % ctx.nshards == ctx.shard:
                    yield {"kind": "truthy", "ctx": c, "a": o, "alit": lit}
                    if o["t"] == "undef":
                        yield {"kind": "truthy", "ctx": c, "a": o, "alit": lit, "falsy_undef": True, "async": lit}
    # operator grid (exhaustive)
    for op, a, b in itertools.product(OPS, OPERANDS, OPERANDS):
        idx += 1
        if idx % ctx.nshards != ctx.shard:
            continue
        if ctx.tier == "quick":
            # all contexts are covered across the grid; each cell runs in 2 of 5 contexts with both literal forms rotated
            cs = [CONTEXTS[idx % 4], "case" if op == "==" else CONTEXTS[(idx + 1) % 4]]
            forms = [(bool(idx & 1), bool(idx & 2))]
        else:
            cs = CONTEXTS[:4] + (["case"] if op == "==" else [])
            forms = [(False, False), (True, False), (False, True), (True, True)]
        for c in cs:
            for alit, blit in forms:
                yield {"kind": "cmp", "ctx": c, "op": op, "a": a, "b": b, "alit": alit, "blit": blit, "async": (idx % 7 == 0)}
                if "undef" in (a["t"], b["t"]):
                    yield {"kind": "cmp", "ctx": c, "op": op, "a": a, "b": b, "alit": alit, "blit": blit, "async": (idx % 3 == 0), "falsy_undef": True}
    ctx.extra["exhaustive"] = True
    ctx.extra["operand_lattice_size"] = len(OPERANDS)
    # depth 4 is not enumerable (trees(4) is ~1e10 candidate shapes and stalled every thorough shard): the thorough tier takes more depth-3 shapes instead
    depth = 3
    lim = 900 if ctx.tier == "quick" else 60000
    ctx.extra["tree_depth"] = depth
    for i, c in enumerate(tree_cases(depth, rng, lim)):
        if ctx.tier == "quick" or i % ctx.nshards == ctx.shard:
            yield c
