"""C06 Loop iteration limit bounds nested iteration.

Monitors: M1 (outcome, marker count in the output) + M2 hook on RenderContext.raise_for_loop_limit via the
documented context_class extension point (records every limit check with its arguments).
Oracle: the generator knows every length; prefix products decide must-raise / must-complete.
"""

from __future__ import annotations

import itertools
from typing import Any

from liquid import BoundTemplate, DictLoader, Environment, RenderContext

from harness import core, drv

PROP = "C06"
TECHNIQUE = "runtime monitor with a known-length oracle over enumerated nests of repeating constructs, hook on the limit check"
RULE = (
    "case = nest (depth 1..4) of repeating constructs {for, tablerow, include-for (partial), render-for (partial)} and transparent "
    "carriers {include, render, macro call, if, capture} with literal lengths 0..12, innermost body emits one marker; limit N chosen just "
    "below / at / above every prefix product (and random 1..200). Expected: some reached prefix product > N => LoopIterationLimitError, "
    "else the render completes with exactly prod(lengths) markers. Depth <= 2 over all kinds and lengths {0,1,2,3,5,12} is exhaustive "
    "(thorough: depth 3 too). Sibling cases render another complete nest (often of length zero) just before some level of the main nest: the "
    "outcome of the main nest must not change. Non-trivial = nest with >= 2 repeating constructs whose product differs from each single length."
    " Rounds 5-6 added enumerated families: ragged nests (inner length changes between outer iterations): 10 inner forms x 3 outer forms x 11 row shapes x boundary limits."
)
REQUIRED = [
    ("liquid/context.py", "RenderContext.raise_for_loop_limit"),
    ("liquid/context.py", "RenderContext.loop"),
    ("liquid/context.py", "RenderContext.copy"),
    ("liquid/builtin/tags/tablerow_tag.py", "TablerowNode.render_to_output"),
    ("liquid/builtin/tags/include_tag.py", "IncludeNode.render_to_output"),
    ("liquid/builtin/tags/render_tag.py", "RenderNode.render_to_output"),
    ("liquid/extra/tags/macro_tag.py", "CallNode.render_to_output"),
]
MIN_COUNTERS = {"limit_checks_observed": 500, "must_raise_cases": 50, "must_complete_cases": 50, "sibling_cases": 200, "sibling_zero_length_cases": 100}

REPEATING = ["for", "tablerow", "include_for", "render_for"]
CARRIERS = ["include", "render", "call", "if", "capture"]
HOOK: dict[str, Any] = {"n": 0, "max_len": 0}


class MonContext(RenderContext):
    __slots__ = ()

    def raise_for_loop_limit(self, length: int = 1) -> None:
        HOOK["n"] += 1
        return super().raise_for_loop_limit(length)


class MonTemplate(BoundTemplate):
    context_class = MonContext


class MonEnv(Environment):
    template_class = MonTemplate


def build(levels: list[list[Any]], sibling: dict[str, Any] | None = None) -> tuple[str, dict[str, str]]:
    """levels: [[kind, length], ...] outermost first. Returns (main source, partials).

    sibling = {"at": j, "levels": [...]}: another (complete, within-limit) nest rendered just before level j's construct, inside the
    bodies of levels[:j] - the state one repeating construct leaves behind must not leak into the next one.
    """
    partials: dict[str, str] = {}
    macros: list[str] = []
    return _build(levels, "", "x", partials, macros, sibling)


def _build(levels, pfx: str, marker: str, partials: dict[str, str], macros: list[str], sibling=None) -> tuple[str, dict[str, str]]:
    def body(i: int) -> str:
        if sibling is not None and sibling["at"] == i:
            pre, _ = _build(sibling["levels"], pfx + "s", "y", partials, [], None)
            return pre + body_(i)
        return body_(i)

    def body_(i: int) -> str:
        if i == len(levels):
            return marker
        kind, n = levels[i]
        inner = body(i + 1)
        v = f"{pfx}v{i}"
        rng_ = f"(1..{n})" if n > 0 else "(1..0)"
        if kind == "for":
            return f"{{% for {v} in {rng_} %}}{inner}{{% endfor %}}"
        if kind == "tablerow":
            return f"{{% tablerow {v} in {rng_} %}}{inner}{{% endtablerow %}}"
        if kind == "include_for":
            partials[f"{pfx}p{i}"] = inner
            return f"{{% assign {pfx}a{i} = {rng_} | concat: nothing %}}{{% include '{pfx}p{i}' for {pfx}a{i} %}}"
        if kind == "render_for":
            partials[f"{pfx}p{i}"] = inner
            return f"{{% assign {pfx}a{i} = {rng_} | concat: nothing %}}{{% render '{pfx}p{i}' for {pfx}a{i} %}}"
        if kind == "include":
            partials[f"{pfx}p{i}"] = inner
            return f"{{% include '{pfx}p{i}' %}}"
        if kind == "render":
            partials[f"{pfx}p{i}"] = inner
            return f"{{% render '{pfx}p{i}' %}}"
        if kind == "call":
            macros.append(f"{{% macro '{pfx}m{i}' %}}{inner}{{% endmacro %}}")
            return f"{{% call '{pfx}m{i}' %}}"
        if kind == "if":
            return f"{{% if true %}}{inner}{{% endif %}}"
        if kind == "capture":
            return f"{{% capture {pfx}c{i} %}}{inner}{{% endcapture %}}{{{{ {pfx}c{i} }}}}"
        raise ValueError(kind)

    main = body(0)
    # macros are looked up in the calling context's tag namespace: define each macro right where it is used is not
    # possible inside partials rendered with `render` (isolated), so macro carriers are only generated outside of them
    return "".join(macros) + main, partials


def expectation(levels: list[list[Any]], limit: int):
    prod = 1
    must_raise = False
    for kind, n in levels:
        if kind in REPEATING:
            prod *= n
            if prod > limit:
                must_raise = True
            if n == 0:
                break
    total = 1
    for kind, n in levels:
        if kind in REPEATING:
            total *= n
    return must_raise, total


def run(levels, limit: int, use_async: bool = False, sibling=None):
    src, partials = build(levels, sibling)
    env = drv.make_env({"extra": True, "limits": {"loop_iteration_limit": limit}}, loader=DictLoader(partials), base=MonEnv)
    HOOK["n"] = 0
    o = drv.parse_and_render(env, src, {"nothing": []}, use_async=use_async)
    return src, partials, o, HOOK["n"]


def failing(levels, limit) -> str | None:
    must_raise, total = expectation(levels, limit)
    _, _, o, _ = run(levels, limit)
    if must_raise:
        if o.ok:
            return "completed-over-limit"
        if o.err_class != "LoopIterationLimitError":
            return f"raised-{o.err_class}"
        return None
    if not o.ok:
        return f"raised-{o.err_class}-under-limit"
    if o.value.count("x") != total:
        return "wrong-marker-count"
    return None


RAGGED_INNER = {
    "for": "{% for c in row %}x{% endfor %}", "tablerow": "{% tablerow c in row %}x{% endtablerow %}", "include_for": "{% include 'cell' for row %}", "render_for": "{% render 'cell' for row %}",
    "for-in-include": "{% include 'inner' %}", "for-in-render": "{% render 'inner', row: row %}", "for-range": "{% for c in (1..row.size) %}x{% endfor %}", "for-limit": "{% for c in widest limit: row.size %}x{% endfor %}",
    "for-in-if": "{% if true %}{% for c in row %}x{% endfor %}{% endif %}", "for-in-macro": "{% call m row %}",
}
RAGGED_OUTER = {"for": ("{% for row in rows %}", "{% endfor %}"), "tablerow": ("{% tablerow row in rows %}", "{% endtablerow %}"), "for-for": ("{% for o in (1..2) %}{% for row in rows %}", "{% endfor %}{% endfor %}")}
RAGGED_PARTIALS = {"cell": "x", "inner": "{% for c in row %}x{% endfor %}"}


def judge_ragged(ctx: core.Ctx, case: dict[str, Any]) -> None:
    """The inner construct's length differs from one iteration of the outer one to the next: every entry is checked with the length it has then."""
    rows, limit = case["rows"], case["limit"]
    a, b = RAGGED_OUTER[case["outer"]]
    src = "{% macro m row %}{% for c in row %}x{% endfor %}{% endmacro %}" + a + RAGGED_INNER[case["inner"]] + b
    mult = 2 if case["outer"] == "for-for" else 1
    env = drv.make_env({"extra": True, "limits": {"loop_iteration_limit": limit}}, loader=DictLoader(dict(RAGGED_PARTIALS)), base=MonEnv)
    HOOK["n"] = 0
    o = drv.parse_and_render(env, src, {"rows": rows, "widest": list(range(max([len(r) for r in rows] + [0])))}, use_async=case.get("async", False))
    ctx.count("limit_checks_observed", HOOK["n"])
    ctx.count("ragged_cases")
    outer_len = len(rows) * mult
    must_raise = outer_len > limit or any(outer_len * len(r) > limit for r in rows) or (mult == 2 and 2 > limit)
    total = sum(len(r) for r in rows) * mult
    ctx.count("must_raise_cases" if must_raise else "must_complete_cases")
    ctx.evaluations += 1
    if must_raise and o.ok:
        ctx.violation(f"completed-over-limit:ragged:{case['outer']}->{case['inner']}", f"limit {limit}: {src!r:.200} over rows of lengths {[len(r) for r in rows]} completed with {o.value.count('x')} innermost executions although {outer_len} x {max(len(r) for r in rows)} exceeds the limit")
        return
    if must_raise and o.err_class != "LoopIterationLimitError":
        ctx.violation(f"raised-{o.err_class}:ragged", f"limit {limit}: {src!r:.200} raised {o.err_class} instead of LoopIterationLimitError")
        return
    if not must_raise and (not o.ok or o.value.count("x") != total):
        ctx.violation("under-limit-differs:ragged", f"limit {limit}: {src!r:.200} over rows of lengths {[len(r) for r in rows]} gave {o.brief()!r:.120}, expected {total} markers")
        return
    ctx.ok((src, [len(r) for r in rows], limit), nontrivial=True)


def ragged_cases():
    shapes = [[1, 12], [12, 1], [0, 5, 0], [1, 2, 3, 4], [4, 3, 2, 1], [2, 2, 9], [1, 1, 1, 7, 1], [3], [0], [6, 0, 6], [1, 5, 2, 8]]
    for lens in shapes:
        rows = [[0] * n for n in lens]
        for outer in RAGGED_OUTER:
            for inner in RAGGED_INNER:
                mult = 2 if outer == "for-for" else 1
                worst = len(lens) * mult * max(lens)
                for limit in sorted({max(worst - 1, 1), max(worst, 1), worst + 1, max(len(lens) * mult * min(lens), 1), max(len(lens) * mult, 1), 200}):
                    yield {"kind": "ragged", "rows": rows, "outer": outer, "inner": inner, "limit": limit, "async": (len(lens) + limit) % 4 == 0}


def judge(ctx: core.Ctx, case: dict[str, Any]) -> None:
    if case.get("kind") == "ragged":
        judge_ragged(ctx, case)
        return
    levels = case["levels"]
    limit = case["limit"]
    must_raise, total = expectation(levels, limit)
    sibling = case.get("sibling")
    src, partials, o, nchecks = run(levels, limit, case.get("async", False), sibling)
    if sibling:
        ctx.count("sibling_cases")
        if any(n == 0 for k, n in sibling["levels"] if k in REPEATING):
            ctx.count("sibling_zero_length_cases")
    ctx.count("limit_checks_observed", nchecks)
    ctx.count("must_raise_cases" if must_raise else "must_complete_cases")
    kinds = [k for k, _ in levels]
    bad = None
    if must_raise:
        if o.ok:
            n = o.value.count("x")
            bad = ("completed-over-limit", f"limit {limit}: nest {levels} completed with {n} innermost executions although a prefix product exceeds the limit")
        elif o.err_class != "LoopIterationLimitError":
            bad = (f"raised-{o.err_class}", f"limit {limit}: nest {levels} raised {o.err_class} instead of LoopIterationLimitError: {drv.safe_str(o.exc)[:80]}")
    else:
        if not o.ok:
            bad = (f"raised-{o.err_class}-under-limit", f"limit {limit}: nest {levels} (all prefix products <= limit) raised {o.err_class}: {drv.safe_str(o.exc)[:80]}")
        elif o.value.count("x") != total:
            bad = ("wrong-marker-count", f"nest {levels} produced {o.value.count('x')} markers, expected {total}")
    if bad is not None and sibling and failing(levels, limit) is None:
        # the nest alone behaves; the preceding sibling nest changes the outcome: state leaks from one construct into the next
        sk = "->".join(k for k, _ in sibling["levels"])
        zero = "zero-length-" if any(n == 0 for k, n in sibling["levels"] if k in REPEATING) else ""
        ctx.evaluations += 1
        ctx.violation(f"{bad[0]}:after-{zero}sibling:{sk}", bad[1] + f" when preceded by the sibling nest {sibling}", {"source": src, "partials": partials})
        return
    if bad is None:
        rep = sum(1 for k in kinds if k in REPEATING)
        ctx.observe("nest_shapes", "->".join(kinds))
        ctx.ok((levels, limit), nontrivial=rep >= 2)
        return
    # shrink to a two-construct mechanism: an outer repeating construct whose length is not carried into an inner one
    sig_pair = None
    reps = [i for i, (k, _) in enumerate(levels) if k in REPEATING]
    for a, b in itertools.combinations(range(len(levels)), 2):
        if levels[a][0] not in REPEATING and levels[b][0] not in REPEATING:
            continue
        pair = [[levels[a][0], 3 if levels[a][0] in REPEATING else 1], [levels[b][0], 3 if levels[b][0] in REPEATING else 1]]
        f = failing(pair, 8 if (pair[0][1] * pair[1][1]) > 8 else 2)
        if f == bad[0]:
            sig_pair = f"{pair[0][0]}->{pair[1][0]}"
            break
    if sig_pair is None and len(levels) >= 3:
        for a, b, c in itertools.combinations(range(len(levels)), 3):
            tri = [[levels[i][0], 3 if levels[i][0] in REPEATING else 1] for i in (a, b, c)]
            nrep = sum(1 for k, _ in tri if k in REPEATING)
            if nrep < 2:
                continue
            f = failing(tri, 3 ** nrep - 1)
            if f == bad[0]:
                sig_pair = "->".join(k for k, _ in tri)
                break
    ctx.evaluations += 1
    ctx.violation(f"{bad[0]}:{sig_pair or '->'.join(kinds)}", bad[1], {"source": src, "partials": partials})


def valid(levels) -> bool:
    # macro calls are resolved in the calling context's tag namespace; inside a `render` partial the macro is unknown
    # and both `render` and macro bodies may not use `include` (documented restriction)
    isolated = False
    for k, _ in levels:
        if isolated and k in ("call", "include", "include_for"):
            return False
        if k in ("render", "render_for", "call"):
            isolated = True
    return True


def limits_for(levels, rng) -> list[int]:
    out = set()
    prod = 1
    for k, n in levels:
        if k in REPEATING:
            prod *= n
            for d in (-1, 0, 1):
                if 1 <= prod + d <= 5000:
                    out.add(prod + d)
            if n == 0:
                break
    out.add(rng.randint(1, 200))
    return sorted(out)


def sibling_cases(ctx: core.Ctx, rng):
    # sibling nests: a complete nest (often of length zero) rendered just before some level of the main nest
    for _ in range(ctx.budget(2500, 40_000)):
        d = rng.choice([1, 2, 2, 3])
        levels = []
        for _i in range(d):
            k = rng.choice(REPEATING * 2 + CARRIERS)
            levels.append([k, rng.choice([1, 2, 3, 5, 12]) if k in REPEATING else 1])
        if not valid(levels) or not any(k in REPEATING for k, _ in levels):
            continue
        at = rng.randrange(d + 1)
        sl = []
        for _i in range(rng.choice([1, 1, 2])):
            k = rng.choice(REPEATING * 3 + ["if", "capture"])
            sl.append([k, rng.choice([0, 0, 1, 2, 3]) if k in REPEATING else 1])
        if not valid(levels[:at] + sl) or not any(k in REPEATING for k, _ in sl):
            continue
        for lim in limits_for(levels, rng):
            # the sibling itself must stay within the limit where it stands, else it would (rightly) raise first
            if expectation(levels[:at] + sl, lim)[0]:
                continue
            # the main nest's marker count is unaffected by the sibling ('y' markers)
            yield {"levels": levels, "limit": lim, "sibling": {"at": at, "levels": sl}, "async": rng.random() < 0.1}


def cases(ctx: core.Ctx):
    for gi, c in enumerate(ragged_cases()):
        if gi % ctx.nshards == ctx.shard:
            yield c
    yield from _cases(ctx)


def _cases(ctx: core.Ctx):
    rng = ctx.rng("cases")
    # first, so that the time cap of the thorough tier (spent mostly on the exhaustive enumeration) cannot starve them
    yield from sibling_cases(ctx, ctx.rng("siblings"))
    idx = 0
    LENS = [0, 1, 2, 3, 5, 12]
    maxd = 2 if ctx.tier == "quick" else 3
    for d in range(1, maxd + 1):
        for kinds in itertools.product(REPEATING + CARRIERS, repeat=d):
            if not any(k in REPEATING for k in kinds):
                continue
            rep_idx = [i for i, k in enumerate(kinds) if k in REPEATING]
            lens_space = LENS if d <= 2 else [0, 2, 3, 12]
            for lens in itertools.product(lens_space, repeat=len(rep_idx)):
                levels = [[k, 1] for k in kinds]
                for i, n in zip(rep_idx, lens):
                    levels[i][1] = n
                if not valid(levels):
                    continue
                idx += 1
                if idx % ctx.nshards != ctx.shard:
                    continue
                for lim in limits_for(levels, rng):
                    yield {"levels": levels, "limit": lim, "async": (idx % 9 == 0)}
    ctx.extra["exhaustive"] = True
    ctx.extra["exhaustive_depth"] = maxd
    for _ in range(ctx.budget(2500, 400_000)):
        d = rng.choice([3, 3, 4, 4])
        levels = []
        for _i in range(d):
            k = rng.choice(REPEATING * 2 + CARRIERS)
            levels.append([k, rng.randint(0, 12) if k in REPEATING else 1])
        if not valid(levels) or not any(k in REPEATING for k, _ in levels):
            continue
        for lim in limits_for(levels, rng):
            yield {"levels": levels, "limit": lim, "async": rng.random() < 0.1}
