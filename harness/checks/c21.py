"""C21 Tag analysis is total and raises no false alarms.

Monitor: M1 on analyze_tags_from_string (result or exception) and on strict from_string.
Oracle : totality; strict-parse success => no unclosed/unexpected/unknown; count-based must-report rules.
"""

from __future__ import annotations

import itertools
import re
from typing import Any

from harness import core, drv
from harness.gen import tpl

PROP = "C21"
TECHNIQUE = "runtime monitor with invariant oracle over exhaustively enumerated tag-token sequences and generated valid templates"
RULE = (
    "case = sequence of tag tokens over registered block / inner / end / inline / unknown tag names (each printed with a parseable "
    "expression), all sequences up to length 4 (thorough 5) plus sampled ones to length 8, plus generated valid templates, in the default "
    "and extra environments. Judged: analysis returns; strict parse ok => all three report maps empty; every unregistered non-inner non-end "
    "name is in unknown_tags; every block tag with more openers than end tags is in unclosed_tags. Non-trivial = sequence with >= 2 tags "
    "or a template that parses in strict mode, distinct by source."
    " Rounds 5-6 added enumerated families: raw / comment / doc with every hyphen combination around tag-like text; the end tag of an end tag."
    " Round 7 added: template_comments environments with markup inside {# #}."
)
REQUIRED = [
    ("liquid/analyze_tags.py", "TagAnalysis._audit_tags"),
    ("liquid/analyze_tags.py", "TagAnalysis._valid_inner_tag"),
    ("liquid/environment.py", "Environment.analyze_tags_from_string"),
]
MIN_COUNTERS = {"strict_parse_ok": 50, "analysis_returned": 200}

_envs: dict[bool, Any] = {}


def env(extra: bool):
    if extra not in _envs:
        from liquid import DictLoader

        _envs[extra] = drv.make_env({"extra": extra}, loader=DictLoader({"p": "x", "base": "{% block b %}{% endblock %}"}))
        # what is registered is read once, when the environment is made: the oracle must not follow the register if parsing or analysing
        # ever writes to it (the same environment serves every case, so such a write would make later cases blind)
        # (text, output statements and illegal tags are registered under the names of their token kinds: no markup can select them, so a
        # tag *named* content / output / illegal is as unknown as any other)
        _REGISTERED[extra] = frozenset(_envs[extra].tags) - {"content", "output", "illegal"}
        _REGISTERED_ENDS[extra] = frozenset(getattr(t, "end", "") or "" for t in _envs[extra].tags.values() if t.block)
        _BLOCK_TAGS[extra] = frozenset(t.name for t in _envs[extra].tags.values() if t.block and t.name not in ("comment", "doc", "content", "illegal", "output"))
    return _envs[extra]


_tc_envs: dict[bool, Any] = {}


def env_tc(extra: bool):
    """The same registers with shorthand template comments ({# ... #}) switched on: what is inside such a comment is not markup."""
    env(extra)
    if extra not in _tc_envs:
        from liquid import DictLoader

        _tc_envs[extra] = drv.make_env({"extra": extra, "template_comments": True}, loader=DictLoader({"p": "x", "base": "{% block b %}{% endblock %}"}))
    return _tc_envs[extra]


_REGISTERED: dict[bool, frozenset] = {}
_BLOCK_TAGS: dict[bool, frozenset] = {}
_REGISTERED_ENDS: dict[bool, frozenset] = {}


# token -> source text with an expression that parses
TOKENS = {
    "if": "{% if a %}", "elsif": "{% elsif b %}", "else": "{% else %}", "endif": "{% endif %}",
    "unless": "{% unless a %}", "endunless": "{% endunless %}",
    "for": "{% for i in xs %}", "endfor": "{% endfor %}", "break": "{% break %}", "continue": "{% continue %}",
    "case": "{% case a %}", "when": "{% when 1 %}", "endcase": "{% endcase %}",
    "capture": "{% capture v %}", "endcapture": "{% endcapture %}",
    "tablerow": "{% tablerow i in xs %}", "endtablerow": "{% endtablerow %}",
    "ifchanged": "{% ifchanged %}", "endifchanged": "{% endifchanged %}",
    "assign": "{% assign v = 1 %}", "echo": "{% echo a %}", "increment": "{% increment c %}", "cycle": "{% cycle 1, 2 %}",
    "comment": "{% comment %}", "endcomment": "{% endcomment %}", "#": "{% # note %}", "commentx": "{% comment TODO: remove this %}",
    # end tags of names that are not block tags
    "endassign": "{% endassign %}", "endelse": "{% endelse %}", "endbreak": "{% endbreak %}", "endwhen": "{% endwhen %}", "endecho": "{% endecho %}",
    "nosuch": "{% nosuch x %}", "endnosuch": "{% endnosuch %}", "foo": "{% foo %}", "end": "{% end %}",
    "with": "{% with v: 1 %}", "endwith": "{% endwith %}", "macro": "{% macro 'm' x %}", "endmacro": "{% endmacro %}", "call": "{% call 'm' 1 %}",
    "block": "{% block b %}", "endblock": "{% endblock %}", "translate": "{% translate %}", "plural": "{% plural %}", "endtranslate": "{% endtranslate %}",
    "text": "t", "out": "{{ a }}",
    "endendif": "{% endendif %}", "endendfor": "{% endendfor %}", "endendcase": "{% endendcase %}",
}
HAND_PSEUDO = ["{% illegal %}", "{% content %}", "{% output %}", "{% if a %}{% output x %}{% endif %}", "{{ a }}{% content %}t"]
CORE = ["if", "elsif", "else", "endif", "for", "endfor", "break", "case", "when", "endcase", "unless", "endunless", "nosuch", "endnosuch", "assign", "text", "commentx", "endcomment", "endassign"]
ALL = [k for k in TOKENS]
EXTRA_ONLY = {"with", "endwith", "macro", "endmacro", "call", "block", "endblock", "translate", "plural", "endtranslate"}
TAG_RE = re.compile(r"\{%-?\s*(#|\w*)")


def source(seq: list[str]) -> str:
    return "".join(TOKENS[t] for t in seq)


_TAG_RE = __import__("re").compile(r"\{%-?\s*(\w+|#)?.*?-?%\}", __import__("re").S)


def strip_extraneous(src: str) -> str:
    """Source without the regions the if/unless parsers skip: from an else/elsif that follows an else up to the first matching end tag."""
    toks = [(m.start(), m.end(), m.group(1) or "") for m in _TAG_RE.finditer(src)]
    removed: list[tuple[int, int]] = []
    stack: list[list] = []
    for s0, _e0, name in toks:
        top = stack[-1] if stack else None
        if top is not None and top[2] is not None:
            if name == "end" + top[0]:
                removed.append((top[2], s0))
                stack.pop()
            continue
        if name.startswith("end"):
            if top is not None and top[0] == name[3:]:
                stack.pop()
        elif name in ("if", "unless", "for", "case", "capture", "tablerow", "comment", "raw", "ifchanged", "liquid", "block", "macro", "with", "translate"):
            stack.append([name, False, None])
        elif name == "else" and top is not None and top[0] in ("if", "unless"):
            if top[1]:
                top[2] = s0
            else:
                top[1] = True
        elif name == "elsif" and top is not None and top[0] in ("if", "unless") and top[1]:
            top[2] = s0
    out, pos = [], 0
    for a, b in removed:
        out.append(src[pos:a])
        pos = b
    out.append(src[pos:])
    return "".join(out)


def judge(ctx: core.Ctx, case: dict[str, Any]) -> None:
    extra = case.get("extra", False)
    e = env_tc(extra) if case.get("tc") else env(extra)
    src = case["source"] if "source" in case else source(case["seq"])
    if not drv.lexer_accepts(e, src):
        ctx.count("lexer_rejected_skipped")
        return
    a = drv.call(e.analyze_tags_from_string, src)
    if not a.ok:
        ctx.evaluations += 1
        ctx.violation(f"analysis-raises-{a.err_class}@{core.liquid_frame(a.exc)}", f"analyze_tags_from_string({src!r:.200}) raised {a.err_class}: {a.exc}")
        return
    ctx.count("analysis_returned")
    res = a.value
    p = drv.parse(e, src)
    if p.ok:
        ctx.count("strict_parse_ok")
        for name, m in (("unclosed", res.unclosed_tags), ("unexpected", res.unexpected_tags), ("unknown", res.unknown_tags)):
            if m:
                tag = sorted(m)[0]
                small = shrink_seq(case, extra, lambda r, name=name, tag=tag: tag in getattr(r, name + "_tags"))
                where = ""
                if tag in ("break", "continue"):
                    # distinguish a stray interrupt (parses, fails at render time) from one inside a loop construct
                    stack: list[str] = []
                    idx = m[tag][0].index
                    from liquid.token import TOKEN_TAG as _TT

                    for tok in e.tokenizer()(src):
                        if tok.kind != _TT:
                            continue
                        if tok.start_index >= idx:
                            break
                        if tok.value.startswith("end") and stack:
                            stack.pop()
                        elif tok.value in e.tags and e.tags[tok.value].block:
                            stack.append(tok.value)
                    where = "@inside-loop" if any(s in ("for", "tablerow") for s in stack) else "@outside-loop"
                ctx.evaluations += 1
                reduced = strip_extraneous(src)
                if reduced != src:
                    # mechanism: if/unless parse with a tag-specific lax mode that skips everything from a second else / an elsif after
                    # else up to the closing end tag; tag analysis still looks inside the skipped region
                    a2, p2 = drv.call(e.analyze_tags_from_string, reduced), drv.parse(e, reduced)
                    if a2.ok and p2.ok and not (a2.value.unclosed_tags or a2.value.unexpected_tags or a2.value.unknown_tags):
                        ctx.violation("false-alarm:tags-inside-extraneous-else-or-elsif-block-skipped-by-parser", f"{small!r:.200} parses in strict mode (the parser skips the extraneous block) but tag analysis reports {name} {tag!r} inside it", {"source": src})
                        return
                ctx.violation(f"false-alarm:{name}:{tag}{where}",f"{small!r:.200} parses in strict mode but tag analysis reports {name} {tag!r}", {"source": src, "report": {k: len(v) for k, v in m.items()}})
                return
    # must-report rules, judged on the token sequence at the template-lexer level
    names = tag_names(e, src)
    registered = _REGISTERED[extra]
    if set(e.tags) != set(registered):
        ctx.count("tag_register_differs_from_pristine")  # observed, not judged: only its effect on the reports is a violation
    inner = {"else", "elsif", "when", "break", "continue", "plural"}
    for n in set(names):
        if n and n not in registered and n not in inner and not n.startswith("end") and n not in res.unknown_tags:
            ctx.evaluations += 1
            ctx.violation("missed-unknown-tag", f"unknown tag {n!r} in {src!r:.200} is not reported in unknown_tags")
            return
    # a name that starts with "end" closes something only if what follows "end" is a block tag - a registered one, or a custom one that the
    # source itself opens; "end" + (the end tag of a registered block), e.g. endendif, closes nothing and is as unknown as any other name
    all_blocks = {t for t in registered if "end" + t in _REGISTERED_ENDS[extra]}
    for n in set(names):
        rest = n[3:] if n.startswith("end") else ""
        if rest.startswith("end") and rest[3:] in all_blocks and n not in registered and n not in res.unknown_tags:
            ctx.evaluations += 1
            ctx.violation("missed-unknown-tag:end-of-an-end-tag", f"{n!r} in {src!r:.200} closes nothing ({rest!r} is itself an end tag) and is not reported in unknown_tags; reported: unknown {sorted(res.unknown_tags)}, unclosed {sorted(res.unclosed_tags)}")
            return
    block_tags = _BLOCK_TAGS[extra]
    for b in block_tags:
        opens = names.count(b)
        closes = names.count("end" + b)
        if opens > closes and b not in res.unclosed_tags:
            ctx.evaluations += 1
            ctx.violation(f"missed-unclosed:{b}", f"{src!r:.200} has {opens} {b} tags and {closes} end{b} tags but {b} is not reported unclosed")
            return
    ctx.ok((src, extra), nontrivial=p.ok or len(names) >= 2)


def tag_names(e, src: str) -> list[str]:
    from liquid.token import TOKEN_TAG

    return [t.value for t in e.tokenizer()(src) if t.kind == TOKEN_TAG]


def shrink_seq(case, extra, pred) -> str:
    if "seq" not in case:
        return case["source"]
    seq = list(case["seq"])
    e = env(extra)

    def ok(s):
        src = source(s)
        p = drv.parse(e, src)
        a = drv.call(e.analyze_tags_from_string, src)
        return p.ok and a.ok and pred(a.value)

    changed = True
    while changed and len(seq) > 1:
        changed = False
        for i in range(len(seq)):
            cand = seq[:i] + seq[i + 1 :]
            if ok(cand):
                seq = cand
                changed = True
                break
        if not changed:
            for i, j in itertools.combinations(range(len(seq)), 2):
                cand = [t for k, t in enumerate(seq) if k not in (i, j)]
                if cand and ok(cand):
                    seq = cand
                    changed = True
                    break
    return source(seq)


def gen_valid(rng, extra: bool) -> dict[str, Any]:
    cfg = tpl.GenCfg(extra=extra, partial_names=["p"], max_nodes=12)
    g = tpl.Gen(rng, cfg)
    nodes = g.template(1, 5)
    return {"source": tpl.print_nodes(nodes, tpl.Style(wc=0.1), rng), "extra": extra}


HAND = HAND_PSEUDO + [
    "{% if a %}{% endif %}{% endendif %}", "{% endendif %}", "{% if a %}{% endendif %}{% endif %}", "{% for i in xs %}{% endfor %}{% endendfor %}{% if a %}{% endif %}", "{% endendif %}{% if a %}x{% endif %}",
    "{% for i in xs %}{{ i }}{% else %}none{% endfor %}", "{% case a %}{% when 1 %}x{% else %}y{% endcase %}", "{% endif %}", "{% endfor %}{% if a %}{% endif %}",
    "{% if a %}{% for i in xs %}{% else %}{% endfor %}{% else %}{% endif %}", "{% tablerow i in xs %}{% endtablerow %}", "{% unless a %}{% else %}{% endunless %}",
    "{% liquid\nif a\necho 1\nendif\n%}", "{% raw %}{% if %}{% endraw %}", "{% comment %}{% if %}{% endcomment %}", "{% doc %}x{% enddoc %}",
]
HAND_EXTRA = [
    "{% extends 'base' %}{% block b %}x{% endblock %}", "{% block b %}x{% endblock b %}", "{% macro 'm' x %}{{ x }}{% endmacro %}{% call 'm' 1 %}",
    "{% translate count: n %}one{% plural %}many{% endtranslate %}", "{% with v: 1 %}{{ v }}{% endwith %}", "{% for i in xs %}{% block b %}{% endblock %}{% else %}{% endfor %}",
]


# blocks whose text the analysis must not look into (raw, comment, doc), with every whitespace-control combination on both of their tags,
# padded and unpadded, around text that looks like tags
OPAQUE = [("raw", "endraw"), ("comment", "endcomment"), ("doc", "enddoc")]
OPAQUE_INNER = ["{% if a %}", "{% else %}", "{% frob %}", "{% endif %}", "{% for i in xs %}", "{% endfor %}{% endcase %}", "{% if a %}x{% else %}", "{% block b %}", "{% when 1 %}",
                "{% break %}", "{% if", "%}", "{% liquid\n if a\n%}", "text only", "Usage: {% if product %}...\n {% endunless %}", "{%- elsif x -%}", "{% endblock %}{% endmacro %}"]


def opaque_cases():
    i = 0
    for (o, c), inner in itertools.product(OPAQUE, OPAQUE_INNER):
        for f in itertools.product(("", "-"), repeat=4):
            for pad in (" ", ""):
                i += 1
                src = "{%" + f[0] + pad + o + pad + f[1] + "%}" + inner + "{%" + f[2] + pad + c + pad + f[3] + "%}"
                if i % 3 == 0:
                    src = "{% if a %} " + src + " {% endif %}"
                yield {"source": src, "extra": bool(i % 2)}


TC_INNER = ["{% if x %}", "{% endif %}", "{% endfor %}", "{% frobnicate %}", "{% if ", "{% raw %}", "{% endraw %}", "{% comment %}", "{% endcomment %}", "{{ x", "{% for a in b %}{% endif %}", "{% else %}", "{% break %}",
            "{% elsif y %}", "{%- endcase -%}", "{% macro m %}", "{% block b %}", "{% liquid\nif x\n%}", "%}", "{%", "x", ""]


def template_comment_cases():
    """Environments with template_comments on: markup inside {# ... #} is text of the comment to the parser, so to the audit too."""
    i = 0
    for inner in TC_INNER:
        for a, b in (("{# ", " #}"), ("{#- ", " -#}"), ("{#", "#}")):
            for shape in ("Chello", "{% if a %}C{% endif %}", "C{% for i in xs %}C{% endfor %}C", "{% if a %}x{% else %}C{% endif %}", "{% comment %}C{% endcomment %}", "{% raw %}C{% endraw %}C"):
                i += 1
                yield {"source": shape.replace("C", a + inner + b), "extra": bool(i % 2), "tc": True}


def cases(ctx: core.Ctx):
    rng = ctx.rng("cases")
    for gi, c in enumerate(itertools.chain(opaque_cases(), template_comment_cases())):
        if gi % ctx.nshards == ctx.shard:
            yield c
    for s in HAND:
        yield {"source": s, "extra": False}
        yield {"source": s, "extra": True}
    for s in HAND_EXTRA:
        yield {"source": s, "extra": True}
    L = 4 if ctx.tier == "quick" else 5
    idx = 0
    for n in range(1, L + 1):
        for seq in itertools.product(CORE, repeat=n):
            idx += 1
            if idx % ctx.nshards != ctx.shard:
                continue
            yield {"seq": list(seq), "extra": bool(idx & 1)}
    ctx.extra["exhaustive"] = True
    ctx.extra["exhaustive_sequence_length"] = L
    ctx.extra["alphabet"] = len(CORE)
    for i in range(ctx.budget(12000, 1_200_000)):
        extra = rng.random() < 0.5
        if i % 4 == 0:
            yield gen_valid(rng, extra)
        else:
            pool = ALL if extra else [t for t in ALL if t not in EXTRA_ONLY]
            yield {"seq": [rng.choice(pool) for _ in range(rng.randint(2, 8))], "extra": extra}
