"""C03 Lax and warn modes suppress errors without changing correct output.

Monitors: M1 boundary recorder in three modes; M9 warnings recorder; error() hook counts via the
documented extension points (Environment subclass -> template_class -> context_class).
"""

from __future__ import annotations

from typing import Any

from liquid import BoundTemplate, DictLoader, Environment, RenderContext
from liquid.exceptions import LiquidWarning

from harness import core, drv
from harness.gen import malformed, tpl
from harness.gen import values as V

PROP = "C03"
TECHNIQUE = "differential runtime monitor (strict vs warn vs lax) with warnings recorder and error()-hook conservation"
RULE = (
    "case = source (token-mutated generated template, random tag/expression fragments, markup soup, or a valid generated "
    "template) + data + config. Sources the template lexer rejects are counted and skipped. Judged per case: lax parse+render "
    "raise no LiquidError; warn likewise; strict error => warn recorded >= 1 LiquidWarning; #error() hook calls in warn == "
    "#warnings; #error() calls in lax == #warnings in warn; strict clean => lax/warn output identical and 0 warnings. "
    "Non-trivial = lexer-accepted and (strict raised, or output non-empty)."
    " Rounds 5-6 added enumerated families: lived-in environment twin per configuration; nests around the nesting limit; resource limits and endless partials in tolerant environments."
)
REQUIRED = [
    ("liquid/environment.py", "Environment.error"),
    ("liquid/parser.py", "Parser.parse_block"),
    ("liquid/tag.py", "Tag.get_node"),
    ("liquid/template.py", "BoundTemplate.render_with_context"),
]
MIN_COUNTERS = {"strict_raised": 20, "strict_clean": 20, "warnings_recorded": 20}

PARTIALS = {
    "p": "[{{ p }}|{{ v }}]",
    "bad": "{% if %}x{% endif %}{{ v | nosuch }}",
    "brk": "{% break %}after",
    # partials that never stop calling themselves: what ends them is an error like any other in a tolerant environment
    "selfr": "r{% render 'selfr' %}", "selfi": "i{% include 'selfi' %}", "two": "t{% render 'two' %}{% render 'two' %}", "twoi": "u{% include 'twoi' %}{% include 'twoi' %}|",
    "pingr": "p{% render 'pongr' %}", "pongr": "q{% render 'pingr' %}{% include 'p' %}",
}

HOOK = {"n": 0}


class MonContext(RenderContext):
    __slots__ = ()

    def error(self, exc):
        HOOK["n"] += 1
        return super().error(exc)


class MonTemplate(BoundTemplate):
    context_class = MonContext


class MonEnv(Environment):
    template_class = MonTemplate

    def error(self, exc, msg=None, token=None):
        HOOK["n"] += 1
        return super().error(exc, msg, token)


_LIVED_IN: dict[str, Any] = {}


def lived_in_env(cfg: dict[str, Any]):
    """One long-lived environment per configuration: the one an application would hold, with everything earlier cases left in it."""
    key = repr(sorted(cfg.items(), key=repr))
    if key not in _LIVED_IN:
        _LIVED_IN[key] = drv.make_env(cfg, loader=DictLoader(dict(PARTIALS)), base=MonEnv)
    return _LIVED_IN[key]


def run_mode(case: dict[str, Any], mode: str, data: dict[str, Any], lived_in: bool = False):
    cfg = dict(case.get("env") or {})
    cfg["mode"] = mode
    env = lived_in_env(cfg) if lived_in else drv.make_env(cfg, loader=DictLoader(dict(PARTIALS)), base=MonEnv)
    HOOK["n"] = 0
    with drv.Warnings() as w:
        o = drv.parse(env, case["source"])
        stage = "parse"
        if o.ok:
            stage = "render"
            o = drv.render_async(o.value, data) if case.get("async") else drv.render(o.value, data)
        nwarn = sum(1 for x in w.log if issubclass(x.category, LiquidWarning))
    return env, o, stage, nwarn, HOOK["n"]


def through_error_hook(exc: BaseException) -> bool:
    """Was the exception (or one it was raised from) raised while Environment.error / RenderContext.error was running?"""
    seen = set()
    cur: BaseException | None = exc
    while cur is not None and id(cur) not in seen:
        seen.add(id(cur))
        tb = cur.__traceback__
        while tb is not None:
            code = tb.tb_frame.f_code
            if code.co_name == "error" and code.co_filename.endswith(("liquid/environment.py", "liquid/context.py")) and tb.tb_next is not None:
                # a deeper frame exists below error(): error() did not simply re-raise its argument
                nxt = tb.tb_next.tb_frame.f_code
                if not nxt.co_filename.endswith(("liquid/environment.py", "liquid/context.py")) or nxt.co_name != "error":
                    return True
            tb = tb.tb_next
        cur = cur.__cause__ or cur.__context__
    return False


def construct_of(src: str) -> str:
    """Coarse mechanism id for a finding: first tag name in the (shrunk) source."""
    import re

    m = re.search(r"\{%-?\s*(#|\w*)", src)
    if m:
        return m.group(1) or "<noname>"
    if "{{" in src:
        return "output"
    return "text"


def shrink_source(case, pred) -> str:
    """ddmin over markup tokens: smallest source for which pred(source) still holds."""
    toks = malformed.split_tokens(case["source"])
    n = 2
    budget = 150
    while len(toks) >= 2 and budget > 0:
        chunk = max(1, len(toks) // n)
        reduced = False
        for i in range(0, len(toks), chunk):
            cand = toks[:i] + toks[i + chunk :]
            budget -= 1
            if cand and pred("".join(cand)):
                toks = cand
                n = max(n - 1, 2)
                reduced = True
                break
            if budget <= 0:
                break
        if not reduced:
            if chunk == 1:
                break
            n = min(len(toks), n * 2)
    return "".join(toks)


def judge(ctx: core.Ctx, case: dict[str, Any]) -> None:
    data = V.dec(case["data"])
    probe_env = drv.make_env(dict(case.get("env") or {}))
    if not drv.lexer_accepts(probe_env, case["source"]):
        ctx.count("lexer_rejected_skipped")
        return
    _, o_s, st_s, w_s, _ = run_mode(case, "strict", data)
    _, o_w, st_w, w_w, h_w = run_mode(case, "warn", data)
    _, o_l, st_l, w_l, h_l = run_mode(case, "lax", data)
    ctx.count("warnings_recorded", w_w)
    if not case.get("async"):
        # the same three runs in environments that have already parsed and rendered every earlier case: a tolerant mode that suppresses an
        # error must not leave anything behind that changes what a later template does (outcome and number of warnings stay what a fresh
        # environment gives)
        for name, fresh, fresh_w in (("strict", o_s, w_s), ("warn", o_w, w_w), ("lax", o_l, w_l)):
            _, o_h, _, w_h, _ = run_mode(case, name, data, lived_in=True)
            ctx.count("lived_in_environment_runs")
            if o_h.key() != fresh.key() or w_h != fresh_w:
                ctx.evaluations += 1
                ctx.violation(f"lived-in-environment-differs:{name}", f"{name} mode, environment that served earlier templates: {o_h.brief()!r:.120} with {w_h} warnings; fresh environment: {fresh.brief()!r:.120} with {fresh_w} warnings; source {case['source']!r:.200}")
                return
    if not o_s.ok and not o_s.is_liquid_error:
        ctx.count("non_liquid_error_forwarded_to_C02")
        return  # strict mode itself lets a non-Liquid exception out: C02's subject; nothing to compare
    for name, o, st in (("warn", o_w, st_w), ("lax", o_l, st_l)):
        if not o.ok and not o.is_liquid_error:
            # Attribution: strict mode is clean on this very input (so the foreign exception can only come from the mode), or the
            # exception was raised inside the error-reporting path itself (Environment.error / RenderContext.error and below).
            # Anything else is an ordinary escaping exception that strict mode merely did not reach: C02's subject.
            if not (o_s.ok or through_error_hook(o.exc)):
                ctx.count("non_liquid_error_forwarded_to_C02")
                return
            ctx.evaluations += 1
            root = core.root_cause(o.exc)
            ctx.violation(
                f"{name}-crashes-{st}:{o.err_class}@{core.liquid_frame(root)}",
                f"{name} mode let {o.err_class} ({drv.safe_str(o.exc)[:80]}) escape at {st} where strict mode gives {o_s.brief()!r:.120}: {case['source']!r:.200}",
                {"tb": core.short_tb(o.exc)},
            )
            return
    strict_clean = o_s.ok
    ctx.count("strict_clean" if strict_clean else "strict_raised")
    if not strict_clean:
        ctx.observe("strict_error_classes", o_s.err_class)

    def v(sig_kind: str, what: str, pred) -> None:
        small = shrink_source(case, pred) if pred else case["source"]
        sig = f"{sig_kind}:{construct_of(small)}"
        ctx.evaluations += 1
        ctx.violation(sig, what + f" [shrunk source: {small!r}]", {"shrunk": small, "strict": o_s.brief(), "warn": o_w.brief(), "lax": o_l.brief()})

    def lax_raises(src: str) -> bool:
        c = dict(case, source=src)
        if not drv.lexer_accepts(probe_env, src):
            return False
        _, o, _, _, _ = run_mode(c, "lax", data)
        return (not o.ok) and o.is_liquid_error and o.err_class == o_l.err_class

    def warn_raises(src: str) -> bool:
        c = dict(case, source=src)
        if not drv.lexer_accepts(probe_env, src):
            return False
        _, o, _, _, _ = run_mode(c, "warn", data)
        return (not o.ok) and o.is_liquid_error and o.err_class == o_w.err_class

    if not o_l.ok:
        if isinstance(core.root_cause(o_l.exc), RecursionError):
            # one mechanism (also C09's finding): an expression nested deeper than the interpreter's stack; the parser's catch-all re-labels
            # the RecursionError as a LiquidError, which no tolerance mode suppresses
            ctx.evaluations += 1
            ctx.violation(f"lax-raises-{st_l}:python-stack-exhausted-by-nested-expression", f"lax mode raised {o_l.err_class} at {st_l} (cause: RecursionError) for a source of {len(case['source'])} characters: {case['source']!r:.120}")
            return
        v(f"lax-raises-{st_l}:{o_l.err_class}", f"lax mode raised {o_l.err_class} at {st_l}: {drv.safe_str(o_l.exc)[:100]}", lax_raises)
        return
    if not o_w.ok:
        v(f"warn-raises-{st_w}:{o_w.err_class}", f"warn mode raised {o_w.err_class} at {st_w}: {drv.safe_str(o_w.exc)[:100]}", warn_raises)
        return
    if w_l or w_s:
        v("warnings-outside-warn-mode", f"LiquidWarning emitted in strict ({w_s}) or lax ({w_l}) mode", None)
        return
    if h_w != w_w:
        v("warn-conservation", f"warn mode: {h_w} error() hook calls but {w_w} warnings recorded", None)
        return
    if h_l != w_w:
        v("lax-warn-suppression-count-differs", f"lax suppressed {h_l} errors but warn reported {w_w} warnings", None)
        return
    if strict_clean:
        if o_l.value != o_s.value or o_w.value != o_s.value:
            def differs(src: str) -> bool:
                c = dict(case, source=src)
                if not drv.lexer_accepts(probe_env, src):
                    return False
                _, a, _, _, _ = run_mode(c, "strict", data)
                _, b, _, _, _ = run_mode(c, "lax", data)
                _, d, _, _, _ = run_mode(c, "warn", data)
                return a.ok and b.ok and d.ok and (a.value != b.value or a.value != d.value)

            v("clean-output-differs", f"strict-clean template renders differently: strict={o_s.value!r:.80} warn={o_w.value!r:.80} lax={o_l.value!r:.80}", differs)
            return
        if w_w:
            def warns(src: str) -> bool:
                c = dict(case, source=src)
                if not drv.lexer_accepts(probe_env, src):
                    return False
                _, a, _, _, _ = run_mode(c, "strict", data)
                _, d, _, nw, _ = run_mode(c, "warn", data)
                return a.ok and nw > 0

            v("warning-for-clean-template", f"strict mode is clean but warn mode emitted {w_w} warnings", warns)
            return
    else:
        if w_w == 0:
            def silent(src: str) -> bool:
                c = dict(case, source=src)
                if not drv.lexer_accepts(probe_env, src):
                    return False
                _, a, _, _, _ = run_mode(c, "strict", data)
                _, d, _, nw, _ = run_mode(c, "warn", data)
                return (not a.ok) and a.is_liquid_error and a.err_class == o_s.err_class and d.ok and nw == 0

            small = shrink_source(case, silent)
            ctx.evaluations += 1
            ctx.violation(
                f"suppressed-without-warning:{o_s.err_class}:{core.liquid_frame(o_s.exc)}",
                f"strict raises {o_s.err_class} ({drv.safe_str(o_s.exc)[:80]}) but warn mode suppresses it without a warning [shrunk source: {small!r}]",
                {"shrunk": small},
            )
            return
    ctx.ok((case["source"], case["data"], case.get("env")), nontrivial=(not strict_clean) or bool(o_s.value))


def gen_case(rng) -> dict[str, Any]:
    flags = {}
    for f in ("ternary_expressions", "logical_not_operator", "logical_parentheses"):
        if rng.random() < 0.5:
            flags[f] = True
    extra = rng.random() < 0.5
    cfg = tpl.GenCfg(extra=extra, ternary=flags.get("ternary_expressions", False), logical_not=flags.get("logical_not_operator", False),
                     parens=flags.get("logical_parentheses", False), partial_names=["p", "bad", "brk"], max_nodes=10, wild=0.15)
    r = rng.random()
    g = tpl.Gen(rng, cfg)
    valid = tpl.print_nodes(g.template(1, 5), tpl.Style(wc=0.1), rng)
    if rng.random() < 0.04:
        # non-syntax Liquid errors raised while parsing: block nesting limit, inheritance errors
        if rng.random() < 0.5:
            src = deep_nest(rng, rng.choice([5, 28, 29, 30, 31, 32, 40]))
        else:
            src = rng.choice(INHERIT) + rng.choice(["", valid])
            extra = True
        data = tpl.make_data(rng, hostile=0.0, drop=0.2)
        data["a"] = True
        return {"source": src, "data": V.enc(data), "env": {"extra": extra, "flags": flags, "undefined": "default"}, "async": rng.random() < 0.25}
    if r < 0.35:
        src = valid
    elif r < 0.75:
        src = malformed.mutate(rng, valid, 3)
    elif r < 0.92:
        src = malformed.random_tag_source(rng)
    else:
        src = malformed.soup(rng, 14)
    data = tpl.make_data(rng, hostile=0.1, drop=0.2)
    data["pname"] = rng.choice(["p", "bad", "nope", 5])
    env = {"extra": extra, "flags": flags, "undefined": rng.choice(["default", "default", "strict"]), "strict_filters": rng.random() < 0.8}
    return {"source": src, "data": V.enc(data), "env": env, "async": rng.random() < 0.25}


def deep_nest(rng, depth: int) -> str:
    """depth nested block tags (block_nesting_limit is 30 by default): a non-syntax error raised while parsing."""
    openers = {
        "if": "{% if a %}", "unless": "{% unless z %}", "for": "{% for i in (1..1) %}", "case": "{% case 1 %}{% when 1 %}", "capture": "{% capture c %}",
        "tablerow": "{% tablerow i in (1..1) %}", "ifchanged": "{% ifchanged %}",
    }
    names = [rng.choice(list(openers)) for _ in range(depth)]
    if rng.random() < 0.3:
        # through a liquid tag
        lines = []
        for n in names:
            lines.append(openers[n].replace("{% ", "").replace(" %}", "\n").replace("\n{%", "\n").strip())
        body = "\n".join(x for l in lines for x in l.split("\n") if x) + "\necho 'x'\n" + "\n".join("end" + n for n in reversed(names))
        return "a{% liquid\n" + body + "\n%}b"
    return "a" + "".join(openers[n] for n in names) + "x" + "".join("{% end" + n + " %}" for n in reversed(names)) + "b"


INHERIT = [
    "{% block a %}x{% endblock b %}y", "{% block a %}{% block b %}x{% endblock a %}{% endblock b %}", "{% extends 'p' %}{% block a %}x{% endblock nope %}",
    "{% block a required %}{% endblock %}z", "{% extends 'nope' %}x", "{% extends 'p' %}{% extends 'p' %}", "{% block a %}1{% endblock %}{% block a %}2{% endblock %}",
    "{% macro 'm' %}{% block a %}x{% endblock b %}{% endmacro %}{% call 'm' %}",
]

DEEP = lambda n, inner="x": "{% if true %}" * n + inner + "{% endif %}" * n  # noqa: E731
HAND = [
    # nesting at and beyond the limit, then just below it again (what an over-nested template leaves behind must not count against the next)
    DEEP(31), DEEP(30), DEEP(35), DEEP(30), DEEP(29), "{% liquid\n" + "if true\n" * 31 + "echo 'x'\n" + "endif\n" * 31 + "%}", DEEP(30), DEEP(28, "{% liquid\nif true\nif true\necho 'y'\nendif\nendif\n%}"),
    "{% if %}a{% endif %}b", "{% nosuch %}x", "{% else %}x", "{% break %}{% continue %}x", "{% for x in %}a{% endfor %}b", "{% if a %}x",
    "{% endif %}", "{{ a | nosuch }}", "{{ a b }}", "{% assign %}", "{% for i in (1..3) %}{% if i > %}x{% endif %}{{ i }}{% endfor %}",
    "{% case %}{% when 1 %}a{% endcase %}", "{% case x %}junk{% when %}a{% endcase %}", "{% unless a %}x{% elsif %}y{% endunless %}",
    "{% if a %}x{% elsif %}y{% endif %}", "{% include 'nope' %}after", "{% case a %}{% when 1, xs[\"b\"] c %}one{% when 2 %}two{% endcase %}", "{% case a %}{% when 1 2 %}x{% endcase %}", "{% render 'bad' %}after", "{% include 'brk' %}z", "{{ a['b'] c }}",
    "{{ a[1] b }}", "{{ a. }}", "{% for i in xs limit: 1,, offset: 2 %}{{ i }}{% endfor %}", "{{ a | f: 1,, 2 }}", "{% cycle %}", "{% liquid\nif\necho 1\n%}",
]


# resource limits in a tolerant environment: whichever statement, block or partial crosses the limit, and wherever in the template it stands,
# the error is suppressed (reported in warn mode) like any other
LIMITED = [
    ({"output_stream_limit": 5}, ["hello, world", "{{ 'abcdefgh' }}tail", "ab{% if true %}cdefgh{% endif %}xyz", "abc{% include 'p' %}def", "{% for i in (1..4) %}ab{% endfor %}z", "ab{% capture c %}cdefgh{% endcapture %}{{ c }}",
                                   "abcd\nefgh{{ a }}", "{% render 'p' %}abcdefgh", "é日本語😀", "{% raw %}abcdefgh{% endraw %}"]),
    ({"loop_iteration_limit": 3}, ["a{% for i in (1..5) %}{{ i }}{% endfor %}z", "{% for i in xs %}{% for j in xs %}x{% endfor %}{% endfor %}z", "{% tablerow i in (1..9) %}{{ i }}{% endtablerow %}z"]),
    ({"local_namespace_limit": 60}, ["a{% assign v = 'xxxxxxxxxxxxxxxxxxxxxxxxxxxxxxxxxxxxxxxxxxxxxxxxxxxxxxxxxxxxxxxxxxxxxxxxxxxxxxxxxxxxxxxx' %}[{{ v | size }}]z", "{% capture v %}{% for i in (1..50) %}xyz{% endfor %}{% endcapture %}[{{ v | size }}]"]),
    ({"context_depth_limit": 6}, ["a{% render 'selfr' %}z", "a{% include 'selfi' %}z", "a{% render 'two' %}z", "a{% include 'twoi' %}z", "a{% render 'pingr' %}z", "{% for i in (1..2) %}{% render 'two' %}{% endfor %}z",
                                  "{% if true %}{% if true %}{% if true %}{% if true %}{% if true %}{% if true %}{% if true %}{% if true %}x{% endif %}{% endif %}{% endif %}{% endif %}{% endif %}{% endif %}{% endif %}{% endif %}z"]),
]


def cases(ctx: core.Ctx):
    for limits, sources in LIMITED:
        for s in sources:
            for is_async in (False, True):
                yield {"source": s, "data": V.enc({"a": 1, "xs": [1, 2, 3]}), "env": {"extra": True, "limits": limits}, "async": is_async}
    for s in HAND + INHERIT:
        yield {"source": s, "data": V.enc({"a": 1, "xs": [1, 2, 3]}), "env": {"extra": True}}
    r0 = ctx.rng("deep")
    for d in (29, 30, 31, 32):
        yield {"source": deep_nest(r0, d), "data": V.enc({"a": 1}), "env": {"extra": False}}
    rng = ctx.rng("cases")
    for _ in range(ctx.budget(12000, 1_000_000)):
        yield gen_case(rng)
