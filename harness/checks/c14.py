"""C14 Variables resolve to their innermost binding.

Monitor: M1 (rendered output of probes) + recording mappings passed as render arguments / matter / globals
(which namespace answered a root lookup, as evidence).  Oracle: reference model R-scope and an independent
path resolver.
"""

from __future__ import annotations

import itertools
import json

from typing import Any

from liquid import DictLoader

from harness import core, drv
from harness.gen import values as V

PROP = "C14"
TECHNIQUE = "reference-model runtime monitor (R-scope interpreter + independent path resolver) over generated binding programs"
RULE = (
    "scope programs: random nestings (depth <= 3) of assign, capture, for, tablerow, with, include (keyword args, bound value with/without "
    "alias, partial assigning names), increment, decrement and probes {{ name }} over the names {a,b,c,now} (a probe answered by the built-in now is matched by shape, so its place in the lookup order - after every data layer, before the counters - is judged), with render arguments, front "
    "matter, template globals and environment globals populated independently per name; path cases: dotted, bracketed, quoted, negative-index "
    "and nested-variable paths of length 1..4 with size/first/last over nested data under string_first_and_last / string_sequences flags. "
    "Non-trivial = program with >= 2 binding layers for a probed name, or a path of length >= 2; distinct by source+data."
    " Rounds 5-6 added enumerated families: blocks abandoned by an error in tolerant modes (1080 programs); render as an isolated scope, nested up to four deep; keyword-spelled property names."
)
REQUIRED = [
    ("liquid/context.py", "RenderContext.get"),
    ("liquid/context.py", "RenderContext.get_item"),
    ("liquid/context.py", "RenderContext.extend"),
    ("liquid/context.py", "RenderContext.assign"),
    ("liquid/context.py", "RenderContext.increment"),
    ("liquid/template.py", "BoundTemplate.make_globals"),
    ("liquid/environment.py", "Environment.make_globals"),
    ("liquid/builtin/tags/include_tag.py", "IncludeNode.render_to_output"),
    ("liquid/utils/chain_map.py", "ReadOnlyChainMap.__getitem__"),
]

MIN_COUNTERS = {"programs_with_an_abandoned_node_in_a_tolerant_environment": 200, "programs_with_overridden_blocks": 100, "macro_calls_judged": 100, "builtin_now_probes": 20, "templates_from_a_caching_loader_with_history": 100}
NAMES = ["a", "b", "c", "now"]

# ------------------------------------------------------------------ program -> source


def pv(v: str) -> str:
    """Argument value: '@name' is a variable reference (evaluated in the scope of the tag, before anything is bound), else a string literal."""
    return v[1:] if v.startswith("@") else f"'{v}'"


def src_of(ops: list, partials: dict[str, str]) -> str:
    out = []
    for op in ops:
        k = op[0]
        if k == "probe":
            out.append(f"[{op[1]}={{{{ {op[1]} }}}}]")
        elif k == "assign":
            out.append(f"{{% assign {op[1]} = '{op[2]}' %}}")
        elif k == "capture":
            out.append(f"{{% capture {op[1]} %}}{op[2]}{{% endcapture %}}")
        elif k in ("for", "tablerow"):
            out.append(f"{{% {k} {op[1]} in {op[2]} %}}" + src_of(op[3], partials) + f"{{% end{k} %}}")
        elif k == "with":
            args = ", ".join(f"{n}: {pv(v)}" for n, v in op[1].items())
            out.append(f"{{% with {args} %}}" + src_of(op[2], partials) + "{% endwith %}")
        elif k == "include":
            name = op[1]
            partials[name] = src_of(op[4], partials)
            e = f"'{name}'"
            if op[2] is not None:
                e += f" with {op[2][0]}" + (f" as {op[2][1]}" if op[2][1] else "")
            if op[3]:
                e += ", " + ", ".join(f"{n}: {pv(v)}" for n, v in op[3].items())
            out.append("{% include " + e + " %}")
        elif k in ("increment", "decrement"):
            out.append(f"{{% {k} {op[1]} %}}")
        elif k == "if":
            out.append("{% if true %}" + src_of(op[1], partials) + "{% endif %}")
        elif k == "fail":
            out.append({"filter": "{{ 1 | divided_by: 0 }}", "include": "{% include 'no-such-partial' %}", "strict": "{{ xs | sort: 1, 2, 3 }}"}[op[1]])
        elif k == "oblock":
            out.append("{% block " + op[1] + " %}BASE-DEFAULT{% endblock %}")
            partials.setdefault("__child_blocks", "")
            partials["__child_blocks"] += "{% block " + op[1] + " %}" + src_of(op[2], partials) + "{% endblock %}"
        elif k == "render":
            partials[op[1]] = src_of(op[3], partials)
            out.append("{% render '" + op[1] + "'" + ("".join(f", {n}: {pv(v)}" for n, v in op[2].items())) + " %}")
        elif k == "macrocall":
            out.append("{% macro " + op[1] + " " + ", ".join(op[2]) + " %}" + src_of(op[4], partials) + "{% endmacro %}")
            out.append("{% call " + op[1] + (" " + ", ".join(f"{n}: {pv(v)}" for n, v in op[3].items()) if op[3] else "") + " %}")
        else:
            raise ValueError(k)
    return "".join(out)


# ------------------------------------------------------------------ R-scope

UNSPEC = object()
NOW_MARK = "\x01NOW\x01"
NOW_RE = r"\d{4}-\d\d-\d\d \d\d:\d\d:\d\d(?:\.\d+)?"


class _Now:
    def __str__(self) -> str:
        return NOW_MARK


NOW = _Now()


class ModelFail(Exception):
    """A render error inside a tolerant environment: whatever the enclosing top-level node wrote so far stays, the rest of it is skipped."""

    def __init__(self, partial: str = ""):
        super().__init__(partial)
        self.partial = partial


class RScope:
    def __init__(self, args, matter, tglobals, eglobals):
        self.args, self.matter, self.tg, self.eg = args, matter, tglobals, eglobals
        self.locals: dict[str, Any] = {}
        self.counters: dict[str, int] = {}
        self.stack: list[dict[str, Any]] = []
        self.unspec = False
        self.saw_builtin = False
        self.margs: dict[str, Any] = {}  # parameters of the macro being run: they sit where render arguments sit (below the body's own assigns)

    def lookup(self, name: str) -> Any:
        for ns in reversed(self.stack):
            if name in ns:
                return ns[name]
        for ns in (self.locals, self.margs, self.args, self.matter, self.tg, self.eg):
            if name in ns:
                return ns[name]
        if name in ("now", "today"):
            self.saw_builtin = True  # the current time: its text is matched by shape, its *position* in the lookup order is judged
            return NOW
        if name in self.counters:
            if self.margs:
                self.unspec = True  # whether a macro body sees the caller's increment / decrement counters is not settled by the property
            return self.counters[name]
        return ""

    def run_top(self, ops: list) -> str:
        """A template's (or an included partial's) top-level nodes: in a tolerant environment an error ends the node it happened in, and the next one
        runs with every block scope of the abandoned node gone."""
        out = []
        for op in ops:
            depth = len(self.stack)
            try:
                out.append(self.run([op]))
            except ModelFail as f:
                out.append(f.partial)
                del self.stack[depth:]
        return "".join(out)

    def run(self, ops: list) -> str:
        out: list[str] = []
        try:
            return self._run(ops, out)
        except ModelFail as f:
            raise ModelFail("".join(out) + f.partial) from None

    def _run(self, ops: list, out: list) -> str:
        for op in ops:
            k = op[0]
            if k == "fail":
                raise ModelFail("")
            if k == "probe":
                out.append(f"[{op[1]}={fmt(self.lookup(op[1]))}]")
            elif k == "assign":
                self.locals[op[1]] = op[2]
            elif k == "capture":
                self.locals[op[1]] = op[2]
            elif k == "for":
                items = ITERS[op[2]]
                for it in items:
                    self.stack.append({op[1]: it, "forloop": "<forloop>"})
                    try:
                        out.append(self.run(op[3]))
                    finally:
                        self.stack.pop()
            elif k == "tablerow":
                items = ITERS[op[2]]
                out.append('<tr class="row1">\n')
                n = len(items)
                for i, it in enumerate(items):
                    self.stack.append({op[1]: it, "tablerowloop": "<tablerowloop>"})
                    out.append(f'<td class="col{i + 1}">')
                    try:
                        out.append(self.run(op[3]))
                    finally:
                        self.stack.pop()
                    out.append("</td>")
                out.append("</tr>\n")
            elif k == "with":
                # every argument is evaluated in the enclosing scope; none of them sees a name bound by the same tag
                self.stack.append({n: (self.lookup(v[1:]) if v.startswith("@") else v) for n, v in op[1].items()})
                try:
                    out.append(self.run(op[2]))
                finally:
                    self.stack.pop()
            elif k == "include":
                ns: dict[str, Any] = {n: (self.lookup(v[1:]) if v.startswith("@") else v) for n, v in (op[3] or {}).items()}
                # keyword arguments are evaluated before the bound variable is looked up; both live in one pushed namespace
                self.stack.append(ns)
                if op[2] is not None:
                    var, alias = op[2]
                    ns[alias or op[1]] = self.lookup(var)
                ns["partial"] = True
                try:
                    out.append(self.run_top(op[4]))  # a partial's own top-level nodes are where its errors stop
                finally:
                    self.stack.pop()
            elif k == "increment":
                v = self.counters.get(op[1], 0)
                self.counters[op[1]] = v + 1
                out.append(str(v))
            elif k == "decrement":
                v = self.counters.get(op[1], 0) - 1
                self.counters[op[1]] = v
                out.append(str(v))
            elif k == "if":
                out.append(self.run(op[1]))
            elif k == "oblock":
                out.append(self.run(op[2]))
            elif k == "render":
                # an isolated scope: its keyword arguments (evaluated in the caller's scope), then the global layers; nothing of the caller's
                # locals, block scopes or of the arguments of a render further out
                frame = {n: (self.lookup(v[1:]) if v.startswith("@") else v) for n, v in op[2].items()}
                saved = (self.stack, self.locals, self.margs, self.counters)
                self.stack, self.locals, self.margs, self.counters = [], {}, frame, {}
                try:
                    out.append(self.run_top(op[3]))
                finally:
                    self.stack, self.locals, self.margs, self.counters = saved
            elif k == "macrocall":
                frame = {n: (self.lookup(v[1:]) if v.startswith("@") else v) for n, v in op[3].items()}
                for n in op[2]:
                    frame.setdefault(n, "")  # an omitted parameter is undefined inside the body, whatever the name means outside
                frame.update(args="", kwargs="")
                saved = (self.stack, self.locals, self.margs)
                self.stack, self.locals, self.margs = [], {}, frame  # the body sees its parameters and global data, none of the caller's locals
                try:
                    out.append(self.run(op[4]))
                finally:
                    self.stack, self.locals, self.margs = saved
        return "".join(out)


def fmt(v: Any) -> str:
    if v is None:
        return ""
    if v is True:
        return "true"
    if v is False:
        return "false"
    return str(v)


ITERS = {"(1..2)": [1, 2], "xs": ["X1", "X2"], "(1..1)": [1]}

# ------------------------------------------------------------------ path resolver


def resolve(data: dict[str, Any], segs: list, flags: dict[str, bool]):
    """Independent resolver: returns value or MISSING."""
    MISSING = resolve.MISSING
    cur: Any = data
    for i, s in enumerate(segs):
        if isinstance(s, list):  # nested path
            s = resolve(data, s, flags)
            if s is MISSING:
                return MISSING
        if i == 0:
            if not isinstance(s, str) or s not in data:
                return MISSING
            cur = data[s]
            continue
        if s == "size":
            if isinstance(cur, dict) and "size" in cur:
                cur = cur["size"]
            elif isinstance(cur, (list, tuple, dict, str)):
                cur = len(cur)
            else:
                return MISSING
        elif s in ("first", "last"):
            if isinstance(cur, dict) and s in cur:
                cur = cur[s]
            elif isinstance(cur, dict):
                if s == "first" and cur:
                    k0 = next(iter(cur))
                    cur = (k0, cur[k0])
                else:
                    return MISSING
            elif isinstance(cur, str):
                if flags.get("string_first_and_last") and cur:
                    cur = cur[0] if s == "first" else cur[-1]
                else:
                    return MISSING
            elif isinstance(cur, (list, tuple)):  # a (key, value) pair produced by hash.first is a sequence too
                if not cur:
                    return MISSING
                cur = cur[0] if s == "first" else cur[-1]
            else:
                return MISSING
        elif isinstance(s, bool):
            return MISSING
        elif isinstance(s, int):
            if isinstance(cur, (list, tuple)):
                if -len(cur) <= s < len(cur):
                    cur = cur[s]
                else:
                    return MISSING
            elif isinstance(cur, str) and flags.get("string_sequences"):
                if -len(cur) <= s < len(cur):
                    cur = cur[s]
                else:
                    return MISSING
            elif isinstance(cur, dict) and s in cur:
                cur = cur[s]
            else:
                return MISSING
        elif isinstance(s, str):
            if isinstance(cur, dict) and s in cur:
                cur = cur[s]
            else:
                return MISSING
        else:
            return MISSING
    return cur


resolve.MISSING = object()  # type: ignore[attr-defined]


def path_src(segs: list) -> str:
    out = ""
    for i, s in enumerate(segs):
        if isinstance(s, list):
            out += "[" + path_src(s) + "]"
        elif i == 0:
            out += s if s.isidentifier() else f"['{s}']"
        elif isinstance(s, int):
            out += f"[{s}]"
        elif s.isidentifier():
            out += "." + s
        else:
            out += f"['{s}']"
    return out


def render_value(v: Any) -> Any:
    """Expected text of {{ value }} for scalars; UNSPEC for compound values (their rendering is not this property's subject)."""
    if isinstance(v, (list, dict, tuple)):
        return UNSPEC
    if isinstance(v, float):
        return UNSPEC
    return fmt(v)


# ------------------------------------------------------------------ judge


class Rec(dict):
    """Recording mapping: counts which namespace answered root lookups."""

    def __init__(self, d, label, log):
        super().__init__(d)
        self._label, self._log = label, log

    def __getitem__(self, k):
        v = super().__getitem__(k)
        self._log[self._label] = self._log.get(self._label, 0) + 1
        return v


def judge(ctx: core.Ctx, case: dict[str, Any]) -> None:
    if case["kind"] == "scope":
        partials: dict[str, str] = {}
        src = src_of(case["ops"], partials)
        log: dict[str, int] = {}
        eg = Rec(case["eglobals"], "env_globals", log)
        if "__child_blocks" in partials:
            ctx.count("programs_with_overridden_blocks")
            partials["__base"] = src
            src = "{% extends '__base' %}" + partials.pop("__child_blocks")
        if case.get("loader_history"):
            # the template comes from a caching loader that was first asked for the same name with other template globals: the second
            # request's globals (possibly none at all) are the ones in effect, the earlier ones are gone
            from liquid import CachingDictLoader

            env = drv.make_env({"globals": eg, "extra": True}, loader=CachingDictLoader(dict(partials, main=src)))
            stale = {n: f"STALE_{n}" for n in NAMES}
            first = drv.call_async(env.get_template_async, "main", globals=stale) if case.get("async") else drv.call(env.get_template, "main", globals=stale)
            if first.ok and case["loader_history"] == "rendered":
                drv.render(first.value, dict(case["args"]))
            kw = {"globals": Rec(case["tglobals"], "template_globals", log)} if (case["tglobals"] or case["loader_history"] == "explicit-empty") else {}
            o = drv.call_async(env.get_template_async, "main", **kw) if case.get("async") else drv.call(env.get_template, "main", **kw)
            ctx.count("templates_from_a_caching_loader_with_history")
        else:
            env = drv.make_env({"globals": eg, "extra": True, **({"mode": case["tolerant"]} if case.get("tolerant") else {})}, loader=DictLoader(partials))
            o = drv.call(env.from_string, src, globals=Rec(case["tglobals"], "template_globals", log), matter=Rec(case["matter"], "matter", log))
        args = dict(case["args"])
        args.setdefault("xs", ["X1", "X2"])
        if o.ok:
            o = drv.render_async(o.value, args) if case.get("async") else drv.render(o.value, args)
        if '"macrocall"' in json.dumps(case["ops"]):
            ctx.count("macro_calls_judged")
        m = RScope(case["args"], case["matter"], case["tglobals"], case["eglobals"])
        exp = m.run_top(case["ops"]) if case.get("tolerant") else m.run(case["ops"])
        if case.get("tolerant"):
            ctx.count("programs_with_an_abandoned_node_in_a_tolerant_environment")
        for k2, v2 in log.items():
            ctx.count(f"answered_by:{k2}", v2)
        if m.unspec:
            ctx.unspecified("counter-read-inside-a-macro-body")
            return
        if not o.ok:
            ctx.evaluations += 1
            ctx.violation(f"scope:raises-{o.err_class}", f"{src!r:.300} raised {o.err_class}: {drv.safe_str(o.exc)[:80]}")
            return
        if m.saw_builtin and NOW_MARK in exp:
            import re as _re

            ctx.count("builtin_now_probes")
            same = _re.fullmatch(_re.escape(exp).replace(_re.escape(NOW_MARK), NOW_RE), o.value, _re.DOTALL) is not None
        else:
            same = o.value == exp
        if not same:
            ctx.evaluations += 1
            ctx.violation("scope:" + classify_scope(case, o.value, exp), f"{src!r:.400} (partials {partials!r:.200}) args={case['args']} matter={case['matter']} tglobals={case['tglobals']} eglobals={case['eglobals']} rendered {o.value!r}, R-scope expects {exp!r}", {"source": src, "partials": partials})
            return
        ctx.ok((src, case["args"], case["matter"], case["tglobals"], case["eglobals"]), nontrivial=True)
        return
    # path case
    data = V.dec(case["data"])
    flags = case.get("flags", {})
    env = drv.make_env({"flags": flags})
    src = "{{ " + path_src(case["segs"]) + " }}"
    o = drv.parse_and_render(env, src, data, use_async=case.get("async", False))
    val = resolve(data, case["segs"], flags)
    exp2 = "" if val is resolve.MISSING else render_value(val)
    if exp2 is UNSPEC:
        # how a compound value or a float is printed is not this property's subject, but *which* value the path selects is: the same
        # environment prints the resolver's value when it is handed over directly, and the two texts must agree
        o2 = drv.parse_and_render(env, "{{ v }}", {"v": val})
        if not o2.ok:
            ctx.unspecified("compound-value-rendering")
            return
        ctx.count("compound_values_compared_through_direct_render")
        exp2 = o2.value
    if not o.ok:
        ctx.evaluations += 1
        ctx.violation(f"path:raises-{o.err_class}", f"{src!r} raised {o.err_class}: {drv.safe_str(o.exc)[:80]}")
        return
    if o.value != exp2:
        ctx.evaluations += 1
        last = case["segs"][-1]
        kind = "special-" + last if last in ("size", "first", "last") else ("nested" if any(isinstance(s, list) for s in case["segs"]) else "index" if isinstance(last, int) else "key")
        ctx.violation(f"path:{kind}", f"{src!r} over {data!r:.200} (flags {flags}) rendered {o.value!r}, resolver expects {exp2!r}")
        return
    ctx.ok((src, case["data"], flags), nontrivial=len(case["segs"]) >= 2)


def classify_scope(case, got: str, exp: str) -> str:
    kinds = set()

    def walk(ops):
        for op in ops:
            kinds.add(op[0])
            for x in op[1:]:
                if isinstance(x, list) and x and isinstance(x[0], list):
                    walk(x)

    walk(case["ops"])
    binders = sorted(k for k in kinds if k in ("for", "tablerow", "with", "include", "capture", "assign", "increment", "decrement"))
    layers = [n for n in ("args", "matter", "tglobals", "eglobals") if case[n]]
    return "binding:" + "+".join(binders) + "|layers:" + "+".join(layers)


# ------------------------------------------------------------------ generators


def gen_ops(rng, depth: int, pid: list[int], blocks: bool = False) -> list:
    ops: list = []
    for _ in range(rng.randint(1, 4)):
        r = rng.random()
        name = rng.choice(NAMES[:3] if rng.random() < 0.9 else NAMES)
        if blocks and r < 0.12:
            # a block of a base template that a child template overrides: the overriding body stands where the block stands, inside
            # whatever loops / with blocks the base placed it in, and reads names with the same innermost-binding order
            pid[0] += 1
            ops.append(["oblock", f"blk{pid[0]}", [["probe", n] for n in rng.sample(NAMES[:3], rng.randint(1, 3))]])
        elif r < 0.35:
            ops.append(["probe", name])
        elif r < 0.47:
            ops.append(["assign", name, f"L{rng.randint(1, 9)}"])
        elif r < 0.53:
            ops.append(["capture", name, f"C{rng.randint(1, 9)}"])
        elif r < 0.58:
            ops.append([rng.choice(["increment", "decrement"]), rng.choice(["a", "b", "cnt"])])
        elif depth < 3:
            r2 = rng.random()
            if r2 < 0.3:
                ops.append([rng.choice(["for", "for", "tablerow"]), name if name != "now" else "a", rng.choice(list(ITERS)), gen_ops(rng, depth + 1, pid, blocks)])
            elif r2 < 0.55:
                bound = {n: (f"W{rng.randint(1, 9)}" if rng.random() < 0.6 else "@" + rng.choice(NAMES[:3])) for n in rng.sample(NAMES[:3], rng.randint(1, 3))}
                ops.append(["with", bound, gen_ops(rng, depth + 1, pid, blocks)])
            elif r2 < 0.9:
                pid[0] += 1
                pname = f"p{pid[0]}"
                bind = None
                if rng.random() < 0.5:
                    bind = [rng.choice(NAMES[:3]), rng.choice([None, "a", "b", "c"])]
                kw = {n: (f"K{rng.randint(1, 9)}" if rng.random() < 0.6 else "@" + rng.choice(NAMES[:3])) for n in rng.sample(NAMES[:3], rng.randint(0, 3))}
                ops.append(["include", pname, bind, kw, gen_ops(rng, depth + 1, pid)])
            elif r2 < 0.95 or depth > 1:
                ops.append(["if", gen_ops(rng, depth + 1, pid, blocks)])
            else:
                # a macro defined and called on the spot: its parameters are block variables of its body (an omitted one is undefined, it
                # does not fall through to an outer binding of the same name), and the body does not see the caller's locals
                pid[0] += 1
                params = rng.sample(NAMES[:3], rng.randint(1, 3))
                passed = {n: (f"M{rng.randint(1, 9)}" if rng.random() < 0.6 else "@" + rng.choice(NAMES[:3])) for n in params if rng.random() < 0.5}
                body = [op for op in gen_ops(rng, 3, pid) if op[0] in ("probe", "assign", "capture")] + [["probe", n] for n in NAMES[:3]]
                ops.append(["macrocall", f"m{pid[0]}", params, passed, body])
        else:
            ops.append(["probe", name])
    return ops


def gen_scope(rng) -> dict[str, Any]:
    def layer(tag: str, p: float) -> dict[str, str]:
        return {n: f"{tag}_{n}" for n in NAMES if rng.random() < p}

    ops = gen_ops(rng, 0, [0], blocks=rng.random() < 0.2) + [["probe", "a"], ["probe", "b"], ["probe", "c"]]
    if rng.random() < 0.12:
        return {"kind": "scope", "ops": ops, "args": layer("ARG", 0.3), "matter": {}, "tglobals": layer("TG", 0.4) if rng.random() < 0.6 else {}, "eglobals": layer("EG", 0.3) if rng.random() < 0.5 else {},
                "async": rng.random() < 0.3, "loader_history": rng.choice(["loaded", "rendered", "explicit-empty"])}
    return {"kind": "scope", "ops": ops, "args": layer("ARG", 0.4), "matter": layer("MAT", 0.4), "tglobals": layer("TG", 0.4), "eglobals": layer("EG", 0.4), "async": rng.random() < 0.15}


PATH_DATA = {
    "d": {"a": {"b": [1, 2, {"c": "deep"}], "size": "keysize"}, "list": ["p", "q", "r"], "x y": "spaced", "first": "keyfirst", "s": "hello", "e": [], "n": None, "0": "zero-key", "t": True, "size": "topsize"},
    "xs": [10, 20, 30], "s": "hello", "k": "list", "i": 1, "neg": -1, "neg4": -4, "key": "x y", "h": {"z": 1, "y": 2, "last": "keylast", "size": 0}, "es": "", "f": False,
}


def gen_path(rng) -> dict[str, Any]:
    def seg_after(cur_kind: str):
        return rng.choice(SEGS)

    root = rng.choice(["d", "d", "d", "xs", "s", "h", "es", "nope", "f"])
    segs: list = [root]
    for _ in range(rng.randint(0, 3)):
        segs.append(seg_after(""))
    flags = {}
    if rng.random() < 0.4:
        flags["string_first_and_last"] = True
    if rng.random() < 0.4:
        flags["string_sequences"] = True
    return {"kind": "path", "segs": segs, "data": V.enc(PATH_DATA), "flags": flags, "async": rng.random() < 0.15}


# (indexes on both sides of both ends of a three-item sequence: -3 is its first item, -4 .. -7 are missing, not wrapped around)
SEGS = ["a", "b", "c", "list", "x y", "size", "first", "last", "s", "e", "n", "z", "nope", 0, 1, 2, 3, -1, -2, -3, -4, -5, -6, -7, 5, ["k"], ["i"], ["neg"], ["neg4"], ["key"], ["d", "s"], ["nope"], "0", "t"]


def enum_paths(ctx: core.Ctx):
    """Every path of one segment below every root, and of two segments below the hashes, sync and async, with both string flags."""
    k = 0
    for root in ["d", "xs", "s", "h", "es", "nope", "f"]:
        for s1 in SEGS:
            tails: list = [[]]
            if root in ("d", "h"):
                tails += [[s2] for s2 in ("size", "first", "last", 0, -1, -3, -4, -6, 3, "b", ["i"], ["neg4"], "nope")]
            for tail in tails:
                for is_async in (False, True):
                    for flags in ({}, {"string_first_and_last": True, "string_sequences": True}):
                        k += 1
                        if k % ctx.nshards != ctx.shard:
                            continue
                        yield {"kind": "path", "segs": [root, s1] + tail, "data": V.enc(PATH_DATA), "flags": flags, "async": is_async}


def inject_fail(rng, ops: list, kinds=("filter", "include", "strict")) -> bool:
    """Put one failing statement somewhere inside a block of the program (not in a macro body, whose call is judged separately)."""
    spots = []

    def walk(o):
        for op in o:
            body = {"for": 3, "tablerow": 3, "with": 2, "include": 4, "if": 1}.get(op[0])
            if body is not None:
                spots.append(op[body])
                walk(op[body])

    walk(ops)
    if not spots:
        return False
    b = rng.choice(spots)
    b.insert(rng.randrange(len(b) + 1), ["fail", rng.choice(kinds)])
    return True


def abandoned_blocks():
    """Every binder abandoned by an error in a tolerant environment, alone and nested, followed by reads, writes and a new loop over the
    same name: block-scoped names vanish after their block however the block ended."""
    tail = [["probe", "a"], ["probe", "b"], ["probe", "forloop"], ["assign", "a", "L7"], ["probe", "a"], ["capture", "b", "C7"], ["probe", "b"], ["for", "a", "(1..1)", [["probe", "a"]]], ["probe", "a"]]
    f = ["fail", "filter"]
    binders = {
        "for": lambda body: ["for", "a", "xs", body],
        "tablerow": lambda body: ["tablerow", "a", "xs", body],
        "with": lambda body: ["with", {"a": "W1", "b": "@c"}, body],
        "include": lambda body: ["include", "p1", ["c", "a"], {"b": "K1"}, body],
        "if": lambda body: ["if", body],
    }
    for fk in ("filter", "include", "strict"):
        f = ["fail", fk]
        for n1, b1 in binders.items():
            for pre in ([], [["assign", "a", "L1"]]):
                for where in ("first", "last"):
                    body = [f, ["probe", "a"]] if where == "first" else [["probe", "a"], f]
                    yield pre + [b1(body)] + tail
            for n2, b2 in binders.items():
                if n2 == "include" and n1 == "include":
                    continue
                # the error happens in the inner block; the inner and the outer block are both abandoned (an included partial stops it)
                yield [b1([["probe", "a"], b2([["probe", "b"], f]), ["probe", "a"]])] + tail


def nested_render_programs():
    """render inside render inside render (up to four deep), each with its own keyword arguments, around assigns and loops of the same names:
    the innermost body sees its own arguments and the global layers, nothing of any scope in between."""
    probes = [["probe", n] for n in ("a", "b", "c")]
    kws = [{}, {"a": "R1"}, {"b": "@a"}, {"a": "R2", "c": "@b"}]
    pid = 0
    for depth in (1, 2, 3, 4):
        for combo in itertools.product(range(len(kws)), repeat=depth):
            if depth == 4 and sum(combo) % 3:
                continue
            body = list(probes)
            for level, ki in enumerate(reversed(combo)):
                pid += 1
                pre = [["assign", "a", f"L{level}"]] if (level + ki) % 2 else []
                body = pre + [["probe", "a"], ["render", f"r{pid}", dict(kws[ki]), body], ["probe", "b"]]
            for wrap in ("none", "for", "with"):
                ops = body
                if wrap == "for":
                    ops = [["for", "c", "xs", body]]
                elif wrap == "with":
                    ops = [["with", {"b": "W1", "c": "@a"}, body]]
                yield ops + probes


# property names that are also words of the expression grammar: after a dot (and as a quoted key) they are names like any other
WORD_KEYS = ["limit", "offset", "for", "if", "contains", "empty", "with", "in", "and", "or", "not", "true", "false", "nil", "null", "blank", "continue", "reversed", "cols", "as", "required", "else"]


def word_key_paths(ctx: core.Ctx):
    data = {"d": {w: "V-" + w for w in WORD_KEYS}, "xs": [{w: i for i, w in enumerate(WORD_KEYS)}]}
    data["d"]["inner"] = dict(data["d"])
    k = 0
    for w in WORD_KEYS:
        for segs in (["d", w], ["d", "inner", w], ["xs", 0, w], ["d", [w + "_name"]], ["xs", "first", w], ["d", w, "size"]):
            k += 1
            if k % ctx.nshards != ctx.shard:
                continue
            d2 = dict(data, **{w + "_name": w})
            yield {"kind": "path", "segs": segs, "data": V.enc(d2), "flags": {}, "async": k % 3 == 0}


def cases(ctx: core.Ctx):
    rng = ctx.rng("cases")
    yield from word_key_paths(ctx)
    layer_sets = [{"args": {"a": "ARG_a", "c": "ARG_c"}, "matter": {"b": "MAT_b"}, "tglobals": {"a": "TG_a"}, "eglobals": {"b": "EG_b", "c": "EG_c"}}, {"args": {}, "matter": {}, "tglobals": {}, "eglobals": {"a": "EG_a"}},
                  {"args": {"b": "ARG_b"}, "matter": {"a": "MAT_a", "c": "MAT_c"}, "tglobals": {}, "eglobals": {}}]
    for gi, ops in enumerate(nested_render_programs()):
        if gi % ctx.nshards == ctx.shard:
            yield {"kind": "scope", "ops": ops, **layer_sets[gi % 3], "async": gi % 4 == 0}
    yield from enum_paths(ctx)
    layers = {"args": {"a": "ARG_a", "c": "ARG_c"}, "matter": {"b": "MAT_b"}, "tglobals": {"a": "TG_a", "forloop": "TG_forloop"}, "eglobals": {"b": "EG_b"}}
    for gi, ops in enumerate(abandoned_blocks()):
        if gi % ctx.nshards != ctx.shard:
            continue
        for mode in ("lax", "warn"):
            yield {"kind": "scope", "ops": ops, **(layers if gi % 2 else {k: {} for k in layers}), "async": gi % 5 == 0, "tolerant": mode}
    for i in range(ctx.budget(14000, 600_000)):
        yield gen_scope(rng) if i % 2 else gen_path(rng)
    for i in range(ctx.budget(1500, 100_000)):
        c = gen_scope(rng)
        if c.get("loader_history") or '"macrocall"' in json.dumps(c["ops"]) or not inject_fail(rng, c["ops"]):
            continue
        c["tolerant"] = rng.choice(["lax", "warn"])
        yield c
