"""C13 Loops visit exactly the documented items.

Monitor: M1 (rendered output listing every visited item and helper value).
Oracle : reference model R-loop (harness/models/loop.py), three-valued.
"""

from __future__ import annotations

import itertools
import re
from typing import Any

from harness import core, drv
from harness.gen import values as V
from harness.models import loop as M

PROP = "C13"
TECHNIQUE = "reference-model runtime monitor (R-loop) over an enumerated grid of collections x limit x offset x reversed x cols"
RULE = (
    "grid: collection kind (list, dict, range literal, range variable bounds, string with string_sequences off/on, non-iterable) x "
    "length 0..n (quick n=4, thorough n=8) x limit in {none, -3..len+3, 2^63, 10^30} x offset in {none, -3..len+3, huge, continue} x "
    "reversed x form (literal / variable / numeric string) for for-loops with else, break and continue, and tablerow with every cols "
    "in {none, 1..len+2}; plus sequences of 2-3 loops sharing offset:continue and nests to depth 3 with parentloop. The body prints "
    "the item and every helper, so one render exposes the whole iteration. Non-trivial = >= 1 item visited or else block rendered."
    " Rounds 5-6 added enumerated families: tablerow structure monitor (markup rows / cells against the helpers, every cols value incl. <= 0 and non-numeric, break / continue at every position); the loop after a loop abandoned by an error."
    " Round 7 added: caller loops around rendered partials with a stray break / continue."
)
REQUIRED = [
    ("liquid/builtin/expressions/loop.py", "LoopExpression._slice"),
    ("liquid/builtin/expressions/loop.py", "LoopExpression._to_iter"),
    ("liquid/builtin/tags/for_tag.py", "ForNode.render_to_output"),
    ("liquid/builtin/tags/for_tag.py", "ForLoop.step"),
    ("liquid/builtin/tags/tablerow_tag.py", "TableRow.step"),
    ("liquid/builtin/tags/tablerow_tag.py", "TablerowNode.render_to_output"),
    ("liquid/context.py", "RenderContext.stopindex"),
]

_envs: dict[bool, Any] = {}


def env(ss: bool):
    if ss not in _envs:
        _envs[ss] = drv.make_env({"flags": {"string_sequences": ss}})
    return _envs[ss]


def collect_data(loops: list[dict[str, Any]], data: dict[str, Any]) -> None:
    for lp in loops:
        for k in ("limit", "offset", "cols"):
            sp = lp.get(k)
            if isinstance(sp, dict) and sp["form"] in ("var", "strvar"):
                data[sp["name"]] = sp["v"] if sp["form"] == "var" else str(sp["v"])
        collect_data(lp.get("body", []), data)


def classify(lp_list: list[dict[str, Any]]) -> str:
    """Mechanism id of a (shrunk) failing case."""
    lp = lp_list[0]
    parts = [lp["tag"]]
    for k in ("limit", "offset", "cols"):
        sp = lp.get(k)
        if sp == "continue":
            parts.append("offset-continue")
        elif isinstance(sp, dict):
            v = int(sp["v"])
            cls = "neg" if v < 0 else "zero" if v == 0 else "huge" if v > 10**6 else "pos"
            parts.append(f"{k}-{cls}")
    if lp.get("reversed"):
        parts.append("reversed")
    if lp.get("break_at"):
        parts.append("break")
    if lp.get("continue_at"):
        parts.append("continue")
    if lp.get("body"):
        parts.append("nested")
    if len(lp_list) > 1:
        parts.append("sequence")
    return "+".join(parts)


def run(case: dict[str, Any]):
    loops = case["loops"]
    data = V.dec(case["data"])
    collect_data(loops, data)
    src = "".join(M.loop_src(lp) for lp in loops)
    m = M.LoopModel(data, case.get("ss", False))
    exp = m.render(loops)
    o = drv.parse_and_render(env(case.get("ss", False)), src, data, use_async=case.get("async", False))
    return src, exp, m.unspecified, o


_tolerant_envs: dict[str, Any] = {}
FAILS = {"filter": "{{ 1 | divided_by: 0 }}", "partial": "{% include 'no-such-partial' %}", "arity": "{{ 'a' | upcase: 1, 2 }}"}


def abandoned_loop_cases():
    """A loop (or a nest of loops) left by an error in a tolerant environment, then another loop: its helpers describe that loop alone -
    no parent loop, indexes from 1, the length of its own collection."""
    probe = "[{% for k in (1..2) %}{{ forloop.parentloop.index }}{{ forloop.parentloop.length }}|{{ forloop.index }}/{{ forloop.length }}{% if forloop.first %}f{% endif %}{% if forloop.last %}l{% endif %};{% endfor %}]"
    probe_exp = "[|1/2f;|2/2l;]"
    tprobe = "[{% tablerow k in (1..2) cols: 2 %}{{ tablerowloop.index }}{{ forloop.index }}{% endtablerow %}]"
    tprobe_exp = '[<tr class="row1">\n<td class="col1">1</td><td class="col2">2</td></tr>\n]'
    nests = {
        "for": ("{% for i in (1..3) %}", "{% endfor %}", lambda n: "1" * 0), "for-for": ("{% for i in (1..2) %}{% for j in (1..3) %}", "{% endfor %}{% endfor %}", None),
        "tablerow": ("{% tablerow i in (1..3) %}", "{% endtablerow %}", None), "for-tablerow": ("{% for i in (1..2) %}{% tablerow j in (1..2) %}", "{% endtablerow %}{% endfor %}", None),
        "for-if-for": ("{% for i in (1..2) %}{% if true %}{% for j in (1..2) %}", "{% endfor %}{% endif %}{% endfor %}", None), "for-capture": ("{% for i in (1..2) %}{% capture c %}", "{% endcapture %}{% endfor %}", None),
    }
    for nname, (a, b, _) in nests.items():
        for fname, f in FAILS.items():
            for mode in ("lax", "warn"):
                for is_async in (False, True):
                    # (what the abandoned node wrote before the error is not judged here: only what follows it)
                    yield {"kind": "abandoned", "source": "<" + a + f + b + ">" + probe + tprobe, "after": ">" + probe_exp + tprobe_exp, "mode": mode, "async": is_async, "mech": nname}
                    yield {"kind": "abandoned", "source": "{% for o in (1..2) %}" + a + f + b + "{% endfor %}" + probe, "after": probe_exp, "mode": mode, "async": is_async, "mech": "for-" + nname}


def judge_abandoned(ctx: core.Ctx, case: dict[str, Any]) -> None:
    mode = case["mode"]
    if mode not in _tolerant_envs:
        _tolerant_envs[mode] = drv.make_env({"mode": mode})
    with drv.Warnings():
        o = drv.parse_and_render(_tolerant_envs[mode], case["source"], {}, use_async=case.get("async", False))
    ctx.count("loops_after_an_abandoned_loop")
    ctx.evaluations += 1
    if not o.ok:
        ctx.violation(f"abandoned-loop:raises-{o.err_class}", f"{case['source']!r:.200} ({mode}) raised {o.err_class}")
        return
    if not o.value.endswith(case["after"]):
        ctx.violation(f"abandoned-loop:helpers-of-the-next-loop:{case['mech']}", f"{case['source']!r:.300} ({mode}) rendered {o.value!r:.200}; the loop after the abandoned one should print {case['after']!r}")
        return
    ctx.ok((case["source"], mode), nontrivial=True)


_TR = re.compile(r'<tr class="row(\d+)">|</tr>|<td class="col(\d+)">|</td>|r(\d+)c(\d+)i(\d+);')


def tablerow_structure_cases():
    """tablerow over 0..6 items with every cols value (also zero, negative, not a number), with a break or a continue at every position: the
    markup and the helpers describe the same table."""
    for n in range(0, 7):
        for cols in [None] + list(range(-2, n + 3)) + ["'2'", "'x'", "nosuch"]:
            for stop_kind, at in [(None, None)] + [(k, a) for k in ("break", "continue") for a in range(1, n + 1)]:
                head = f"(1..{n})" if n else "nothing"
                arg = "" if cols is None else f" cols: {cols}"
                stop = "" if stop_kind is None else "{% if tablerowloop.index == " + str(at) + " %}{% " + stop_kind + " %}{% endif %}"
                src = "{% tablerow i in " + head + arg + " %}r{{ tablerowloop.row }}c{{ tablerowloop.col }}i{{ tablerowloop.index }};" + stop + "{% endtablerow %}"
                yield {"kind": "tablerow-structure", "source": src, "n": n, "cols": cols, "stop": stop_kind, "at": at}


def judge_tablerow_structure(ctx: core.Ctx, case: dict[str, Any]) -> None:
    o = drv.parse_and_render(env(False), case["source"], {"nothing": []}, use_async=case["n"] % 2 == 1)
    ctx.count("tablerow_structures")
    ctx.evaluations += 1
    if not o.ok:
        if o.is_liquid_error:
            ctx.count("tablerow_structure_liquid_error")
            return
        ctx.violation(f"tablerow-structure:raises-{o.err_class}", f"{case['source']!r} raised {o.err_class}")
        return
    rows: list[list[tuple[int, int, int, int]]] = []  # per <tr>: (td col, helper row, helper col, helper index)
    row_no: list[int] = []
    cur_td = None
    for m in _TR.finditer(o.value):
        if m.group(1):
            rows.append([])
            row_no.append(int(m.group(1)))
        elif m.group(2):
            cur_td = int(m.group(2))
        elif m.group(3):
            if not rows or cur_td is None:
                ctx.violation("tablerow-structure:cell-outside-a-row", f"{case['source']!r} rendered {o.value!r:.200}")
                return
            rows[-1].append((cur_td, int(m.group(3)), int(m.group(4)), int(m.group(5))))
    cells = [c for r in rows for c in r]
    n, at, stop = case["n"], case["at"], case["stop"]
    visited = n if stop != "break" else at
    why = None
    if [c[3] for c in cells] != list(range(1, visited + 1)):
        why = f"cells carry the indexes {[c[3] for c in cells]}, the visited items are 1..{visited}"
    elif row_no != list(range(1, len(row_no) + 1)):
        why = f"rows are numbered {row_no}"
    elif cells and any(not r for r in rows):
        why = f"a row without any cell: rows hold {[len(r) for r in rows]} cells"
    else:
        for ri, r in enumerate(rows):
            for ci, (td, hrow, hcol, _idx) in enumerate(r):
                if td != ci + 1 or hcol != td:
                    why = why or f"cell {ci + 1} of row {ri + 1} is marked col{td} and its helper says col {hcol}"
                if hrow != row_no[ri]:
                    why = why or f"a cell inside row{row_no[ri]} has tablerowloop.row == {hrow}"
        c = case["cols"]
        if why is None and isinstance(c, int) and c >= 1 and stop != "break":
            want = [c] * (n // c) + ([n % c] if n % c else [])
            if [len(r) for r in rows if r] != want:
                why = f"rows hold {[len(r) for r in rows]} cells, {n} items in rows of {c} make {want}"
    if why:
        mech = ("cols-not-positive" if not (isinstance(case["cols"], int) and case["cols"] >= 1) and case["cols"] is not None else "cols") + ("+" + stop if stop else "")
        ctx.violation(f"tablerow-structure:{mech}", f"{case['source']!r} rendered {o.value!r:.240}: {why}")
        return
    ctx.ok((case["source"],), nontrivial=n > 0)


# ---- an interrupt that is not inside any loop of a rendered partial -------------------------------------------------------------------------
# `render` isolates the partial: a break / continue at its top level has no loop to act on.  It is an error there (strict) or ignored
# (tolerant); it never shortens the *caller's* loop, which still visits every item of its collection, with helpers that say so.
INTERRUPT_PARTIALS = {
    "brk": "{% break %}", "cnt": "{% continue %}", "brk_if": "{% if true %}{% break %}{% endif %}", "cnt_case": "{% case 1 %}{% when 1 %}{% continue %}{% endcase %}",
    "brk_after_own_loop": "{% for q in (1..2) %}{% break %}{% endfor %}{% break %}", "own_loop_only": "{% for q in (1..3) %}{% if q == 2 %}{% break %}{% endif %}{% endfor %}",
    "brk_nested_render": "{% render 'brk' %}", "brk_in_for_render": "{% for q in (1..2) %}{% render 'brk' %}{% endfor %}",
}
_interrupt_envs: dict[str, Any] = {}


def interrupt_partial_cases():
    callers = {
        "for": ("{% for i in (1..4) %}<{{ i }}/{{ forloop.length }}>{% render 'P' %}{% endfor %}", [f"<{i}/4>" for i in range(1, 5)]),
        "for-var": ("{% assign xs = 'a,b,c' | split: ',' %}{% for i in xs %}<{{ i }}/{{ forloop.length }}>{% render 'P' %}{% endfor %}", ["<a/3>", "<b/3>", "<c/3>"]),
        "tablerow": ("{% tablerow i in (1..3) cols: 2 %}<{{ i }}/{{ tablerowloop.length }}>{% render 'P' %}{% endtablerow %}", ["<1/3>", "<2/3>", "<3/3>"]),
        "for-for": ("{% for o in (1..2) %}{% for i in (1..2) %}<{{ o }}{{ i }}/{{ forloop.length }}>{% render 'P' %}{% endfor %}{% endfor %}", ["<11/2>", "<12/2>", "<21/2>", "<22/2>"]),
        "render-for": ("{% for i in (1..3) %}<{{ i }}/3>{% render 'P' for (1..2) as z %}{% endfor %}", ["<1/3>", "<2/3>", "<3/3>"]),
        "for-if": ("{% for i in (1..3) %}{% if true %}<{{ i }}/3>{% render 'P' %}{% endif %}{% endfor %}", ["<1/3>", "<2/3>", "<3/3>"]),
    }
    for cname, (src, visits) in callers.items():
        for pname in INTERRUPT_PARTIALS:
            for mode in ("strict", "lax", "warn"):
                for is_async in (False, True):
                    yield {"kind": "interrupt-partial", "source": src.replace("'P'", f"'{pname}'") + "[end]", "visits": visits, "mode": mode, "async": is_async, "mech": f"{cname}:{pname}"}


def judge_interrupt_partial(ctx: core.Ctx, case: dict[str, Any]) -> None:
    mode = case["mode"]
    if mode not in _interrupt_envs:
        from liquid import DictLoader

        _interrupt_envs[mode] = drv.make_env({"mode": mode}, loader=DictLoader(dict(INTERRUPT_PARTIALS)))
    with drv.Warnings():
        o = drv.parse_and_render(_interrupt_envs[mode], case["source"], {}, use_async=case.get("async", False))
    ctx.count("caller_loops_around_a_partial_with_a_stray_interrupt")
    ctx.evaluations += 1
    if not o.ok:
        if o.is_liquid_error and mode == "strict":
            ctx.ok((case["source"], mode, "refused"), nontrivial=True)
            return
        ctx.violation(f"interrupt-in-partial:raises-{o.err_class}:{mode}", f"{case['source']!r:.300} ({mode}) raised {o.err_class}")
        return
    seen = re.findall(r"<[^<>/ ]*/\d>", o.value)
    if seen != case["visits"] or not o.value.endswith("[end]"):
        ctx.violation(f"interrupt-in-partial:caller-loop-visits-differ:{case['mech'].split(':')[0]}:{'async' if case.get('async') else 'sync'}",
                      f"{case['source']!r:.300} ({mode}, partial {INTERRUPT_PARTIALS[case['mech'].split(':')[1]]!r}) visited {seen}, its collection has {case['visits']}; output {o.value!r:.200}")
        return
    ctx.ok((case["source"], mode), nontrivial=True)


def judge(ctx: core.Ctx, case: dict[str, Any]) -> None:
    if case.get("kind") == "interrupt-partial":
        judge_interrupt_partial(ctx, case)
        return
    if case.get("kind") == "tablerow-structure":
        judge_tablerow_structure(ctx, case)
        return
    if case.get("kind") == "abandoned":
        judge_abandoned(ctx, case)
        return
    src, exp, unspec, o = run(case)
    if unspec:
        ctx.unspecified("continue-after-out-of-range-offset")
        return
    if not o.ok:
        if not o.is_liquid_error:
            ctx.count("non_liquid_error_forwarded_to_C02")
        ctx.evaluations += 1
        ctx.violation(f"raises-{o.err_class}:{classify(case['loops'])}", f"{src!r:.200} raised {o.err_class}: {drv.safe_str(o.exc)[:80]}; model expects {exp!r:.120}")
        return
    if o.value != exp:
        ctx.evaluations += 1
        ctx.violation(f"items-differ:{classify(case['loops'])}", f"{src!r:.300} rendered {o.value!r:.300}, R-loop expects {exp!r:.300}", {"source": src, "got": o.value, "expected": exp})
        return
    ctx.ok((case["loops"], case["data"], case.get("ss")), nontrivial=bool(exp))


# ------------------------------------------------------------------------ generators

FORMS = ["lit", "var", "strvar", "strlit"]


def mk_spec(v: int, form: str, name: str) -> dict[str, Any]:
    if form in ("var", "strvar"):
        return {"form": form, "v": v, "name": name}
    if form == "strlit":
        return {"form": "strlit", "v": v}
    return {"form": "lit", "v": v}


def collections(n: int):
    for ln in range(n + 1):
        yield "list", {"form": "var", "name": "xs"}, {"xs": list(range(10, 10 + ln))}, False, False
        yield "range-lit", {"form": "range", "a": 1, "b": ln}, {}, False, False
    for ln in range(0, n + 1, 2):
        yield "dict", {"form": "var", "name": "h"}, {"h": {f"k{i}": i for i in range(ln)}}, True, False
        yield "range-var", {"form": "range", "a": "lo", "b": "hi"}, {"lo": 2, "hi": 1 + ln}, False, False
        yield "str", {"form": "var", "name": "s"}, {"s": "abcdefgh"[:ln]}, False, False
        yield "str-seq", {"form": "var", "name": "s"}, {"s": "abcdefgh"[:ln]}, False, True
    # range bounds that are not numbers: each counts as 0 on its own; numeric strings and floats are converted
    yield "range-undef-lo", {"form": "range", "a": "nolo", "b": "hi"}, {"hi": 3}, False, False
    yield "range-undef-hi", {"form": "range", "a": "lo", "b": "nohi"}, {"lo": 2}, False, False
    yield "range-neg-undef-hi", {"form": "range", "a": "lo", "b": "nohi"}, {"lo": -2}, False, False
    yield "range-nil-lo", {"form": "range", "a": "lo", "b": "hi"}, {"lo": None, "hi": 2}, False, False
    yield "range-str-bounds", {"form": "range", "a": "lo", "b": "hi"}, {"lo": "2", "hi": "4"}, False, False
    yield "range-word-lo", {"form": "range", "a": "lo", "b": "hi"}, {"lo": "x", "hi": 2}, False, False
    yield "range-float-hi", {"form": "range", "a": "lo", "b": "hi"}, {"lo": 1, "hi": 3.0}, False, False
    yield "nil", {"form": "var", "name": "z"}, {"z": None}, False, False
    yield "int", {"form": "var", "name": "z"}, {"z": 7}, False, False
    yield "undefined", {"form": "var", "name": "nope"}, {}, False, False
    yield "tuple-items", {"form": "var", "name": "xs"}, {"xs": ["a", "b", "c"]}, False, False


def grid(n: int, rng, sample: float):
    HUGE = [2**63, 10**30]
    for kind, coll, data, pairs, ss in collections(n):
        ln = len(M.items_of(_value(coll, data), ss))
        lims = [None] + list(range(-3, ln + 4)) + HUGE
        offs = [None] + list(range(-3, ln + 4)) + HUGE
        for lim, off, rev in itertools.product(lims, offs, (False, True)):
            if sample < 1 and rng.random() > sample:
                continue
            form = rng.choice(FORMS)
            lp = {"tag": "for", "var": "i", "coll": coll, "pairs": pairs, "reversed": rev, "else": True}
            if lim is not None:
                lp["limit"] = mk_spec(lim, form if abs(lim) < 10**12 or form in ("lit", "var") else "var", "lim")
            if off is not None:
                lp["offset"] = mk_spec(off, rng.choice(FORMS) if abs(off) < 10**12 else rng.choice(["lit", "var"]), "off")
            r = rng.random()
            if r < 0.15 and ln:
                lp["break_at"] = rng.randint(1, max(1, ln))
            elif r < 0.3 and ln:
                lp["continue_at"] = rng.randint(1, max(1, ln))
            elif r < 0.42:
                # a body without output, the loop alone inside another block: the else block is all the output there is
                lp["quiet"] = rng.choice(["", " ", "{% assign zz = i %}", "{% continue %}", "\n  {% assign zz = forloop.index %}\n"])
                lp["wrap"] = rng.choice([None, "if", "unless", "case", "for1", "else", "capture"])
            yield {"loops": [lp], "data": V.enc(data), "ss": ss, "async": rng.random() < 0.1}
        # tablerow: every cols value
        for cols, lim, off in itertools.product([None] + list(range(1, ln + 3)) + [0, -1, -3], [None, 0, 1, ln, ln + 2, -1], [None, 0, 1, ln + 1, -2]):
            if sample < 1 and rng.random() > sample * 2:
                continue
            lp = {"tag": "tablerow", "var": "i", "coll": coll, "pairs": pairs}
            if cols is not None:
                lp["cols"] = mk_spec(cols, rng.choice(["lit", "var", "strvar"]), "nc")
            if lim is not None:
                lp["limit"] = mk_spec(lim, rng.choice(FORMS), "lim")
            if off is not None:
                lp["offset"] = mk_spec(off, rng.choice(FORMS), "off")
            yield {"loops": [lp], "data": V.enc(data), "ss": ss, "async": rng.random() < 0.1}


def _value(coll, data):
    if coll["form"] == "var":
        return data.get(coll["name"])
    a = M.range_bound(data.get(coll["a"]) if isinstance(coll["a"], str) else coll["a"])
    b = M.range_bound(data.get(coll["b"]) if isinstance(coll["b"], str) else coll["b"])
    return range(a, b + 1) if a <= b else range(0)


def gen_sequence(rng) -> dict[str, Any]:
    ln = rng.randint(0, 8)
    data = {"xs": list(range(10, 10 + ln))}
    coll = {"form": "var", "name": "xs"} if rng.random() < 0.7 else {"form": "range", "a": 1, "b": ln}
    loops = []
    for j in range(rng.randint(2, 3)):
        lp = {"tag": rng.choice(["for", "for", "tablerow"]), "var": "i", "coll": coll, "else": True}
        if rng.random() < 0.7:
            lp["limit"] = mk_spec(rng.randint(-1, ln + 1), rng.choice(FORMS), f"lim{j}")
        r = rng.random()
        if j and r < 0.7:
            lp["offset"] = "continue"
        elif r < 0.85:
            lp["offset"] = mk_spec(rng.randint(-1, ln + 2), rng.choice(FORMS), f"off{j}")
        if lp["tag"] == "for":
            lp["reversed"] = rng.random() < 0.3
            if rng.random() < 0.2:
                lp["break_at"] = rng.randint(1, 3)
        elif rng.random() < 0.5:
            lp["cols"] = mk_spec(rng.randint(1, 3), "lit", "nc")
        loops.append(lp)
    return {"loops": loops, "data": V.enc(data), "ss": False, "async": rng.random() < 0.1}


def gen_nest(rng) -> dict[str, Any]:
    data = {"xs": [1, 2, 3][: rng.randint(0, 3)], "ys": ["a", "b"][: rng.randint(0, 2)], "h": {"k": 1, "j": 2}}

    def mk(depth: int, used: list[str]) -> dict[str, Any]:
        var = ["i", "j", "k"][depth]
        cname = rng.choice(["xs", "ys", "h"])
        lp = {"tag": rng.choice(["for", "for", "tablerow"]), "var": var, "coll": {"form": "var", "name": cname}, "pairs": cname == "h", "else": rng.random() < 0.5}
        if rng.random() < 0.4:
            lp["limit"] = mk_spec(rng.randint(0, 3), "lit", "l")
        if rng.random() < 0.3:
            lp["offset"] = mk_spec(rng.randint(0, 2), "lit", "o")
        if lp["tag"] == "for":
            lp["reversed"] = rng.random() < 0.3
            r = rng.random()
            if r < 0.15:
                lp["break_at"] = rng.randint(1, 2)
            elif r < 0.3:
                lp["continue_at"] = rng.randint(1, 2)
        elif rng.random() < 0.6:
            lp["cols"] = mk_spec(rng.randint(1, 3), "lit", "c")
        if depth < 2 and rng.random() < 0.8:
            lp["body"] = [mk(depth + 1, used) for _ in range(rng.randint(1, 2))]
        return lp

    return {"loops": [mk(0, [])], "data": V.enc(data), "ss": False, "async": rng.random() < 0.1}


def cases(ctx: core.Ctx):
    for gi, c in enumerate(itertools.chain(abandoned_loop_cases(), tablerow_structure_cases(), interrupt_partial_cases())):
        if gi % ctx.nshards == ctx.shard:
            yield c
    rng = ctx.rng("cases")
    n = 4 if ctx.tier == "quick" else 8
    sample = 0.35 if ctx.tier == "quick" else 1.0
    allg = grid(n, rng, sample)
    for idx, c in enumerate(allg):
        if idx % ctx.nshards == ctx.shard:
            yield c
    if sample >= 1:
        ctx.extra["exhaustive"] = True
    ctx.extra["grid_max_length"] = n
    for i in range(ctx.budget(3000, 300_000)):
        yield gen_sequence(rng) if i % 2 else gen_nest(rng)
