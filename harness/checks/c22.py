"""C22 Template loaders never read outside their search paths.

Monitors: M1 boundary recorder on get_template / get_template_async / get_source (returned text, template path,
exception class) and M6, a sys.addaudithook recorder of every `open` issued while a request is in flight (any thread,
because the async loaders read in an executor).  Oracle: every file of a fresh sandbox tree carries a unique marker as
its whole content; markers of files lexically below a search root are IN, everything else is OUT.
"""

from __future__ import annotations

import importlib
import os
import shutil
import sys
import tempfile
import threading
from typing import Any

from liquid import CachingFileSystemLoader, Environment, FileSystemLoader, PackageLoader
from liquid.exceptions import TemplateNotFoundError

from harness import core, drv

PROP = "C22"
TECHNIQUE = "sandbox-tree runtime monitor: content markers at the loader boundary + audit-hook log of every open() during a request"
RULE = (
    "case = (loader config, template name). Configs: FileSystemLoader / CachingFileSystemLoader over two roots with ext unset/.liquid and "
    "reject_symlinks off/on, PackageLoader over a temp package (package_path 'templates' or two paths); each name is requested through "
    "get_template, get_template_async (twice each for caching loaders, so the second is a cache hit) and get_source. Names: products of up "
    "to 3 components from {'', '.', '..', real file and directory names inside and outside the roots, symlinks leaving the roots, NUL and "
    "control characters, unicode, lone surrogates, over-long components} joined by '/', '//' or '\\\\', with optional absolute prefixes "
    "pointing at decoy files outside and at files inside the roots. Judged: returned text is the marker of a file reachable below a root "
    "(with reject_symlinks: whose realpath is below the root's realpath); every open() during the request that lands in the sandbox obeys "
    "the same rule; a failure is TemplateNotFoundError. Non-trivial = name contains a separator, '..', an absolute prefix, a symlink or a "
    "special character; distinct by (config, name)."
    " Rounds 5-6 added enumerated families: links into sibling directories whose names extend a root's name; a served file replaced by a link leaving the root, same loader asked again."
    " Round 7 added: every enumerated name respelled with backslashes."
)
REQUIRED = [
    ("liquid/builtin/loaders/file_system_loader.py", "FileSystemLoader.resolve_path"),
    ("liquid/builtin/loaders/file_system_loader.py", "FileSystemLoader.get_source"),
    ("liquid/builtin/loaders/file_system_loader.py", "FileSystemLoader.get_source_async"),
    ("liquid/builtin/loaders/package_loader.py", "PackageLoader._resolve_path"),
    ("liquid/builtin/loaders/package_loader.py", "PackageLoader.get_source_async"),
    ("liquid/builtin/loaders/mixins.py", "CachingLoaderMixin.load"),
]
MIN_COUNTERS = {"loads_ok": 200, "not_found": 1000, "audit_open_events_in_sandbox": 200, "symlink_loads_rejected": 5, "symlink_loads_followed": 5}
ASSUMPTIONS = [
    "POSIX file system semantics (the sandbox tree lives on tmpfs or the temp dir)",
    "with reject_symlinks off, following a link that sits inside a search directory is permitted by the property; only the names are judged then",
]

# ------------------------------------------------------------------ M6 audit hook

_AUDIT = {"on": False, "log": []}
_AUDIT_LOCK = threading.Lock()
_installed = False


def _hook(event: str, args: tuple) -> None:
    if event == "open" and _AUDIT["on"]:
        p = args[0]
        if isinstance(p, bytes):
            p = os.fsdecode(p)
        if isinstance(p, str):
            with _AUDIT_LOCK:
                _AUDIT["log"].append(p)


def install_audit() -> None:
    global _installed
    if not _installed:
        sys.addaudithook(_hook)
        _installed = True


# ------------------------------------------------------------------ sandbox

SB: dict[str, Any] = {}


def _w(path: str, marker: str) -> None:
    os.makedirs(os.path.dirname(path), exist_ok=True)
    with open(path, "w", encoding="utf-8") as fd:
        fd.write(marker)


def build_sandbox() -> None:
    base = tempfile.mkdtemp(prefix="verif-c22-", dir=core.scratch_base())
    T = os.path.realpath(base)
    files = {
        "root1/a.liquid": "F01", "root1/sub/b.liquid": "F02", "root1/sub/deep/c.txt": "F03", "root1/noext": "F04", "root1/both": "F05", "root1/both.liquid": "F06",
        "root1/é.liquid": "F07", "root1/sp ace.liquid": "F08", "root1/.hidden.liquid": "F09",
        "root2/a.liquid": "F10", "root2/d.liquid": "F11", "root2/sub/e.liquid": "F12",
        "outside/secret.liquid": "F20", "outside/a.liquid": "F21", "outside/secret": "F22", "outside/sub/b.liquid": "F23",
        "secret.liquid": "F24", "root1x/a.liquid": "F25", "root1x/z.liquid": "F26", "root2.bak/s.liquid": "F27", "root1-old/sub/o.liquid": "F28",
        "pkgs/vpkg22/__init__.py": "", "pkgs/vpkg22/templates/a.liquid": "F30", "pkgs/vpkg22/templates/sub/b.liquid": "F31", "pkgs/vpkg22/templates/noext": "F32",
        "pkgs/vpkg22/templates/c.txt": "F33", "pkgs/vpkg22/more/m.liquid": "F34", "pkgs/vpkg22/secret.liquid": "F35", "pkgs/vpkg22/private/p.liquid": "F36",
        "pkgs/secret.liquid": "F37",
    }
    for rel, marker in files.items():
        _w(os.path.join(T, rel), marker)
    links = {
        "root1/link_out.liquid": "../outside/secret.liquid", "root1/linkdir": "../outside", "root1/link_in.liquid": "sub/b.liquid", "root1/link_r2.liquid": "../root2/d.liquid",
        "root1/sub/up": "../..", "root1/abs_out.liquid": os.path.join(T, "outside/secret.liquid"), "root1/dangling.liquid": "nowhere.liquid", "root1/loop.liquid": "loop.liquid",
        # links into sibling directories whose names merely *start with* the search directory's name
        "root1/link_x.liquid": "../root1x/z.liquid", "root1/linkdir_x": "../root1x", "root2/link_sib.liquid": "../root2.bak/s.liquid", "root1/sub/linkdir_old": "../../root1-old/sub",
        "root1/abs_link_x.liquid": os.path.join(T, "root1x/z.liquid"),
    }
    for rel, target in links.items():
        os.symlink(target, os.path.join(T, rel))
    sys.path.insert(0, os.path.join(T, "pkgs"))
    importlib.invalidate_caches()
    marker_path = {m: os.path.join(T, rel) for rel, m in files.items() if m}
    SB.update(T=T, base=base, marker_path=marker_path)


def setup(ctx: core.Ctx) -> None:
    install_audit()
    "x".encode("utf-8").decode("utf-8")
    build_sandbox()
    import atexit

    atexit.register(cleanup)


def cleanup() -> None:
    if SB.get("base"):
        shutil.rmtree(SB["base"], ignore_errors=True)
        try:
            sys.path.remove(os.path.join(SB["T"], "pkgs"))
        except ValueError:
            pass
        SB.clear()


def finish(ctx: core.Ctx) -> None:
    cleanup()


CONFIGS: dict[str, dict[str, Any]] = {}
for _cls in ("fs", "cfs"):
    for _ext in (None, ".liquid"):
        for _rs in (False, True):
            CONFIGS[f"{_cls}:ext={_ext}:reject_symlinks={_rs}"] = {"cls": _cls, "ext": _ext, "rs": _rs, "roots": ["root1", "root2"]}
CONFIGS["pkg:templates"] = {"cls": "pkg", "paths": "templates"}
CONFIGS["pkg:templates+more"] = {"cls": "pkg", "paths": ["templates", "more"]}


def make_loader(cfg: dict[str, Any]):
    T = SB["T"]
    if cfg["cls"] == "pkg":
        return PackageLoader("vpkg22", package_path=cfg["paths"])
    roots = [os.path.join(T, r) for r in cfg["roots"]]
    if cfg["cls"] == "fs":
        return FileSystemLoader(roots, ext=cfg["ext"], reject_symlinks=cfg["rs"])
    return CachingFileSystemLoader(roots, ext=cfg["ext"], reject_symlinks=cfg["rs"], capacity=3)


def roots_of(cfg: dict[str, Any]) -> list[str]:
    T = SB["T"]
    if cfg["cls"] == "pkg":
        paths = [cfg["paths"]] if isinstance(cfg["paths"], str) else cfg["paths"]
        return [os.path.join(T, "pkgs", "vpkg22", p) for p in paths]
    return [os.path.join(T, r) for r in cfg["roots"]]


def below(path: str, root: str) -> bool:
    return path == root or path.startswith(root.rstrip("/") + "/")


def allowed_path(cfg: dict[str, Any], path: str) -> tuple[bool, str]:
    """Is reading `path` (as handed to open / reported as template path) within the property for this config?"""
    p = os.path.normpath(path) if os.path.isabs(path) else os.path.normpath(os.path.join(os.getcwd(), path))
    roots = roots_of(cfg)
    if not any(below(p, r) for r in roots):
        return False, "outside-root"
    if cfg.get("rs"):
        try:
            real = os.path.realpath(p)
        except (OSError, ValueError):
            return True, ""
        if not any(below(real, os.path.realpath(r)) for r in roots):
            return False, "symlink-leaves-root"
    return True, ""


def name_class(name: str) -> str:
    T = SB["T"]
    n = name.replace(T, "<T>")
    if "\x00" in n:
        return "nul"
    if any(0xD800 <= ord(c) <= 0xDFFF for c in n):
        return "surrogate"
    if len(n) > 250:
        return "over-long"
    if n.startswith("<T>") or n.startswith("/"):
        return "absolute"
    if ".." in n.split("/"):
        return "dotdot"
    if n in ("", ".", "/") or n.endswith("/") or n.endswith("/."):
        return "empty-or-dot"
    if any(ord(c) < 32 for c in n):
        return "control"
    if "link" in n or "/up" in n or "abs_out" in n or "dangling" in n or "loop" in n:
        return "symlink"
    if "\\" in n:
        return "backslash"
    return "plain"


def judge_swap(ctx: core.Ctx, case: dict[str, Any]) -> None:
    """History on one loader: a name is served while it is an ordinary file inside the root; the file is then replaced by a link that leaves
    the root (or a directory on the way is); the same loader is asked again. Whatever it remembered, it does not follow the link out."""
    cfg = CONFIGS[case["config"]]
    T = SB["T"]
    root = os.path.join(T, "root1")
    victim = os.path.join(root, case["victim"])
    backup = victim + ".verif-backup"
    loader = make_loader(cfg)
    env = Environment(loader=loader)
    name = case["name"]
    get = (lambda: drv.call_async(env.get_template_async, name)) if case.get("async") else (lambda: drv.call(env.get_template, name))
    first = get()
    os.rename(victim, backup)
    try:
        os.symlink(case["target"].replace("<T>", T), victim)
        second = get()
        via_tag = drv.call(env.from_string("{% include '" + name + "' %}").render) if "'" not in name else None
    finally:
        try:
            os.unlink(victim)
        except OSError:
            pass
        os.rename(backup, victim)
    ctx.count("swap_histories")
    ctx.evaluations += 1
    outside = {m for m, p in SB["marker_path"].items() if not any(below(p, r) for r in roots_of(cfg))}
    for what, o in (("second request", second), ("include tag", via_tag)):
        if o is None or not o.ok:
            continue
        text = o.value if isinstance(o.value, str) else str(getattr(o.value, "source", ""))
        hit = [m for m in outside if m in text]
        if hit and cfg.get("rs"):
            ctx.violation(f"{cfg['cls']}:symlink:followed-after-the-name-was-served-as-a-file", f"{case['config']}: {name!r} was served while an ordinary file, then replaced by a link to {case['target']!r}; the {what} on the same loader returned the content of the outside file {hit}")
            return
    ctx.ok((case["config"], name, case["target"], case.get("async")), nontrivial=first.ok)


def swap_cases():
    for cfgname, cfg in CONFIGS.items():
        if cfg["cls"] not in ("fs", "cfs"):
            continue
        for victim, name, target in (("a.liquid", "a.liquid", "../outside/secret.liquid"), ("a.liquid", "a.liquid", "<T>/outside/secret.liquid"), ("sub/b.liquid", "sub/b.liquid", "../../outside/sub/b.liquid"),
                                     ("sub", "sub/b.liquid", "../outside/sub"), ("a.liquid", "a", "../outside/a.liquid"), ("sub", "sub/b", "<T>/outside/sub")):
            if (name in ("a", "sub/b")) != bool(cfg["ext"]):
                continue
            for is_async in (False, True):
                yield {"kind": "swap", "config": cfgname, "victim": victim, "name": name, "target": target, "async": is_async}


def judge(ctx: core.Ctx, case: dict[str, Any]) -> None:
    if case.get("kind") == "swap":
        judge_swap(ctx, case)
        return
    cfgname = case["config"]
    cfg = CONFIGS[cfgname]
    T = SB["T"]
    name = case["name"].replace("<T>", T)
    if case.get("surrogate"):
        name = name.replace("<S>", "\ud800")
    loader = make_loader(cfg)
    env = Environment(loader=loader)
    reqs = [("get_template", False), ("get_template_async", True), ("get_source", False), ("get_source_async", True)]
    if cfg["cls"] == "cfs":
        reqs = [("get_template", False), ("get_template", False), ("get_template_async", True), ("get_template_async", True), ("get_template", False)]
    ncls = name_class(name)
    twin = None
    if cfg["cls"] == "cfs":
        # a warm cache: ordinary templates were served before the name under test arrives, and what the cached loader then answers is what
        # the same loader without a cache answers (a name that resolves to nothing stays unresolved however similar it is to a cached one)
        for wn in WARM_NAMES:
            drv.call(env.get_template, wn) if len(wn) % 2 else drv.call_async(env.get_template_async, wn)
        tl = make_loader(dict(cfg, cls="fs"))
        twin = drv.call(Environment(loader=tl).get_template, name)
    for api, is_async in reqs:
        with _AUDIT_LOCK:
            _AUDIT["log"] = []
        _AUDIT["on"] = True
        try:
            if api == "get_template":
                o = drv.call(env.get_template, name)
            elif api == "get_template_async":
                o = drv.call_async(env.get_template_async, name)
            elif api == "get_source":
                o = drv.call(loader.get_source, env, name)
            else:
                o = drv.call_async(loader.get_source_async, env, name)
        finally:
            _AUDIT["on"] = False
        with _AUDIT_LOCK:
            opened = list(_AUDIT["log"])
        ctx.evaluations += 1
        if twin is not None and (twin.ok != o.ok or (twin.ok and drv.call(twin.value.render).value != drv.call(o.value.render).value)):
            ctx.violation(f"{cfg['cls']}:{ncls}:warm-cache-answers-differently", f"{cfgname} {api}({case['name']!r}) after {WARM_NAMES} were served gives {o.brief()!r:.120}; the same loader without a cache gives {twin.brief()!r:.120}")
            return
        if twin is not None:
            ctx.count("warm_cache_requests_compared_with_uncached_twin")
        # (1) opens inside the sandbox obey the rule
        for p in opened:
            ap = os.path.normpath(p) if os.path.isabs(p) else os.path.normpath(os.path.join(os.getcwd(), p))
            if not below(ap, T):
                ctx.count("audit_open_events_elsewhere")
                continue
            ctx.count("audit_open_events_in_sandbox")
            ok, why = allowed_path(cfg, ap)
            if not ok:
                ctx.violation(f"{cfg['cls']}:{ncls}:opened-{why}", f"{cfgname} {api}({case['name']!r}) opened {ap.replace(T, '<T>')!r} ({why})")
                return
        # (2) outcome
        if o.ok:
            text = o.value.text if api.startswith("get_source") else drv.call(o.value.render).value
            path = str(o.value.name if api.startswith("get_source") else o.value.path)
            ctx.count("loads_ok")
            ctx.observe("loaded_markers", f"{cfg['cls']}:{text}")
            mp = SB["marker_path"].get(text)
            if mp is None:
                ctx.violation(f"{cfg['cls']}:{ncls}:returned-unknown-text", f"{cfgname} {api}({case['name']!r}) returned text {text!r:.80} which is no sandbox file's content")
                return
            ok, why = allowed_path(cfg, path)
            if ok:
                # the reported path is below a root; the text must be what that path holds
                try:
                    with open(path, encoding="utf-8") as fd:
                        same = fd.read() == text
                except OSError:
                    same = False
                if not same:
                    ok, why = False, "text-is-not-the-content-of-the-reported-path"
            if not ok:
                ctx.violation(f"{cfg['cls']}:{ncls}:returned-{why}", f"{cfgname} {api}({case['name']!r}) returned the content of {mp.replace(T, '<T>')!r} via path {path.replace(T, '<T>')!r} ({why})")
                return
            if os.path.realpath(path) != os.path.normpath(path) and not any(below(os.path.realpath(path), os.path.realpath(r)) for r in roots_of(cfg)):
                ctx.count("symlink_loads_followed")  # reject_symlinks off: allowed, counted
            ctx.observe("ok_name_classes", f"{cfg['cls']}:{ncls}")
        else:
            if o.err_class != "TemplateNotFoundError" or not isinstance(o.exc, TemplateNotFoundError):
                ctx.violation(f"{cfg['cls']}:{ncls}:raises-{o.err_class}", f"{cfgname} {api}({case['name']!r}) raised {o.err_class}: {drv.safe_str(o.exc)[:120]} instead of TemplateNotFoundError")
                return
            ctx.count("not_found")
            if ncls == "symlink" and cfg.get("rs"):
                ctx.count("symlink_loads_rejected")
            ctx.observe("not_found_name_classes", f"{cfg['cls']}:{ncls}")
    nontrivial = ncls != "plain" or "/" in name
    h = core.stable_hash([cfgname, case["name"], case.get("surrogate", False)])
    if nontrivial and h not in ctx.nontrivial_hashes:
        ctx.nontrivial_hashes.add(h)
        if len(ctx.samples) < ctx.max_samples and len(ctx.nontrivial_hashes) in (1, 7, 40, 300, 2000, 9000):
            ctx.samples.append(case)


WARM_NAMES = ["a.liquid", "sub/b.liquid", "a", "sub/b", "both"]

COMPONENTS = [
    "", ".", "..", "a.liquid", "a", "sub", "b.liquid", "b", "deep", "c.txt", "c", "noext", "both", "é", "sp ace", ".hidden", "d", "e", "outside", "secret.liquid", "secret",
    "root1", "root2", "root1x", "z", "linkdir", "link_out.liquid", "link_out", "link_in", "link_r2", "up", "abs_out", "dangling", "loop", "templates", "more", "m", "private", "p",
    "vpkg22", "pkgs", "link_x", "linkdir_x", "link_sib", "linkdir_old", "o", "...", "~", "a.liquid.", "a.", ".liquid", "\x00", "a\x00", "a.liquid\x00.txt", "\n", "a\n", "\x7f", "<S>", "a<S>", "x" * 300, "nope", "*", "a.LIQUID",
]
SEPS = ["/", "/", "/", "//", "\\", "/./", "\uff0f", "\u2215", "\u2044"]  # the last three only look like a slash (NFKC folds U+FF0F into one)
# "/<T>/..." expands to a name with two leading slashes, which POSIX pathlib keeps as the separate root "//"
PREFIXES = ["\u2025/", "\uff0e\uff0e/", "\uff0e\uff0e\uff0f", "\u2024\u2024/", "\uff0f<T>/outside/", "\u2025\uff0foutside\uff0f", ".\u2024/", "", "", "", "", "/", "//", "<T>/outside/", "<T>/root1/", "<T>/", "<T>/pkgs/vpkg22/", "./", "../", "~/", "/<T>/outside/", "//<T>/outside/", "/<T>/root1/", "/<T>/pkgs/vpkg22/", "/<T>/"]


def gen_name(rng) -> str:
    n = rng.choice([1, 1, 2, 2, 2, 3, 3, 4])
    parts = [rng.choice(COMPONENTS) for _ in range(n)]
    name = parts[0]
    for p in parts[1:]:
        name += rng.choice(SEPS) + p
    name = rng.choice(PREFIXES) + name
    if rng.random() < 0.05:
        name += rng.choice(["/", "/.", ".liquid", " "])
    return name


BASIC = ["\u2025/outside/secret.liquid", "\uff0e\uff0e/outside/secret.liquid", "\uff0e\uff0e\uff0foutside\uff0fsecret.liquid", "\uff0f<T>/outside/secret.liquid", "sub/\u2025/\u2025/outside/secret.liquid",
         "\uff41.liquid", "ａ", "sub\uff0fb.liquid", "sub/../a.liquid", "nope/../a.liquid", "./a.liquid", "sub/./b.liquid", "sub//b.liquid", "a.liquid/", "sub/../sub/b.liquid", "nope/../sub/b", "./both", "sub/deep/../../a",
         "a.liquid", "a", "sub/b.liquid", "sub/b", "sub/deep/c.txt", "noext", "both", "d", "d.liquid", "link_in.liquid", "link_out.liquid", "linkdir/secret.liquid", "link_r2.liquid",
         "link_x.liquid", "link_x", "linkdir_x/z.liquid", "linkdir_x/z", "linkdir_x/a", "link_sib.liquid", "link_sib", "sub/linkdir_old/o.liquid", "sub/linkdir_old/o", "abs_link_x.liquid", "abs_link_x",
         "sub/up/outside/secret.liquid", "abs_out.liquid", "../outside/secret.liquid", "<T>/outside/secret.liquid", "<T>/root1/a.liquid", "<T>/pkgs/vpkg22/secret.liquid",
         "/<T>/outside/secret.liquid", "//<T>/outside/secret.liquid", "/<T>/pkgs/vpkg22/secret.liquid", "/<T>/root1/a.liquid", "/<T>/outside/secret",
         "../secret.liquid", "../secret", "m", "c.txt", "sub/../a.liquid", "", ".", "/", "x" * 300, "sub/" + "y" * 5000, "\x00", "<S>", "dangling.liquid", "loop.liquid", "é", "sp ace"]


# every enumerated name again with its separators spelled as backslashes (all of them, and only the first): on POSIX a backslash is an
# ordinary character of a file name, so a loader that "normalises" it after its traversal guard has run turns these into the names above
BACKSLASHED = sorted({n.replace("/", "\\") for n in BASIC if "/" in n.strip("/")} | {n.replace("/", "\\", 1) for n in BASIC if n.count("/") > 1 and not n.startswith("/")}
                     | {"..\\secret.liquid", "..\\secret", "sub\\..\\..\\secret.liquid", "..\\..\\outside\\secret.liquid", "..\\more\\m.liquid", "..\\private\\p.liquid", "..\\private\\p",
                        "sub\\b.liquid", "sub\\b", "sub\\..\\a.liquid", "..\\root2\\d.liquid", "..\\root1x\\z.liquid", "\\..\\secret.liquid", ".\\..\\secret.liquid", "..\\/secret.liquid", "../..\\secret.liquid"})


def cases(ctx: core.Ctx):
    rng = ctx.rng("cases")
    cfgs = list(CONFIGS)
    if ctx.shard == 0:
        yield from swap_cases()
        for c in cfgs:
            for n in BASIC + BACKSLASHED:
                yield {"config": c, "name": n, "surrogate": "<S>" in n}
        # exhaustive: all 1- and 2-component names (single '/' separator, no prefix and the absolute prefixes) for every config
        if ctx.tier == "thorough":
            for c in cfgs:
                for pre in ("", "/", "<T>/outside/", "/<T>/outside/"):
                    for a in COMPONENTS:
                        yield {"config": c, "name": pre + a, "surrogate": "<S>" in a}
                        for b in COMPONENTS:
                            yield {"config": c, "name": pre + a + "/" + b, "surrogate": "<S>" in a + b}
    for _ in range(ctx.budget(4000, 600_000)):
        n = gen_name(rng)
        yield {"config": rng.choice(cfgs), "name": n, "surrogate": "<S>" in n}
