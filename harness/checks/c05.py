"""C05 Autoescape keeps render data from injecting HTML.

Monitors: M1 (final output under autoescape=True), M2 recorders wrapped around every callable of the
environment's filter registry (documented extension point): the first filter that turns scan-clean inputs
into an unsafe Markup value is named in the finding.  Oracle: output scan + byte-for-byte passthrough of
values marked safe + differential autoescape off/on on data without special characters.
"""

from __future__ import annotations

import re
from typing import Any

from liquid import DictLoader
from markupsafe import Markup

from harness import core, drv
from harness.gen import values as V

PROP = "C05"
TECHNIQUE = "runtime output-scan invariant + per-filter Markup postcondition recorder + differential autoescape off/on"
RULE = (
    "case = template whose literal text and string literals come from an HTML-safe alphabet, over output, echo, assign, capture, cycle, for, "
    "if, case, liquid, include, render and translate, with filter chains (length <= 4; chains <= 2 over the listed filters are enumerated in "
    "the thorough tier) of the built-in string/array filters except safe, newline_to_br, script_tag, stylesheet_tag; data strings over "
    "<>&'\" and entity fragments (&lt, &amp;, &#, percent- and base64-encoded specials), lists and hashes of them. Judged: no raw < > \" ' in "
    "the output and every & starts an escape sequence; Markup / __html__ data is output byte for byte; data without special characters renders "
    "identically with autoescape off and on; twin cases: the same text marked safe (Markup) goes through a filter chain first (in an earlier render of the "
    "same environment, or assigned earlier in the same template) and the plain text through the same chain afterwards - the plain output must still be inert. Non-trivial = data contains >= 1 special character and the output is non-empty."
    " Rounds 5-6 added enumerated families: what missing values print under debug / default / strict-default undefined types with keys taken from hostile data."
)
REQUIRED = [
    ("liquid/stringify.py", "to_liquid_string"),
    ("liquid/builtin/expressions/primitive.py", "StringLiteral.evaluate"),
    ("liquid/builtin/tags/capture_tag.py", "CaptureNode._assign"),
    ("liquid/builtin/filters/string.py", "escape_once"),
    ("liquid/builtin/filters/array.py", "join"),
]
MIN_COUNTERS = {"filter_results_scanned": 2000, "outputs_scanned": 1000, "twin_preludes_rendered": 100, "implicit_environment_cases": 50}

AMP_OK = re.compile(r"&(amp|lt|gt|quot|apos|#\d+|#x[0-9a-f]+);", re.IGNORECASE)
# filters that cut, remove or substitute parts of their input text
SURGERY = {"remove", "remove_first", "remove_last", "replace", "replace_first", "replace_last", "slice", "split", "truncate", "truncatewords", "first", "last"}


def scan(s: str) -> str | None:
    """Return the first offending fragment, or None if the text is HTML-inert."""
    for ch in "<>\"'":
        i = s.find(ch)
        if i >= 0:
            return f"raw {ch!r}"
    i = 0
    while True:
        i = s.find("&", i)
        if i < 0:
            return None
        if not AMP_OK.match(s, i):
            return "bare-ampersand"
        i += 1


def scan_alone(src: str, data: dict[str, Any]):
    """Scan result of the source rendered in a brand-new environment (no history)."""
    e = drv.make_env({"autoescape": True, "extra": True}, loader=DictLoader(dict(PARTIALS)))
    r = drv.parse_and_render(e, src, data)
    return scan(r.value) if r.ok else "error"


REC: dict[str, Any] = {"first_bad": None, "n": 0}


def wrap_filter(name: str, fn):
    def rec(*a, **k):
        r = fn(*a, **k)
        REC["n"] += 1
        if REC["first_bad"] is None and isinstance(r, Markup):
            bad = scan(str(r))
            if bad:
                ins = [x for x in a if isinstance(x, Markup)]
                REC["first_bad"] = (name, bad, "markup-input" if ins else "plain-input")
        return r

    for attr in ("with_context", "with_environment", "validate", "filter_async"):
        if hasattr(fn, attr):
            try:
                setattr(rec, attr, getattr(fn, attr))
            except AttributeError:
                pass
    rec.__wrapped_name__ = name
    return rec


_envs: dict[bool, Any] = {}
PARTIALS = {"p": "[{{ v }}|{{ item | upcase }}]", "q": "{% assign w = v | append: s %}{{ w }}"}


def env(auto: bool):
    if auto not in _envs:
        e = drv.make_env({"autoescape": auto, "extra": True}, loader=DictLoader(dict(PARTIALS)))
        for name in list(e.filters):
            fn = e.filters[name]
            if hasattr(fn, "filter_async") and not callable(getattr(fn, "__call__", None)):
                continue
            if type(fn).__name__ in ("function",) or hasattr(fn, "__wrapped__"):
                e.filters[name] = wrap_filter(name, fn)
        _envs[auto] = e
    return _envs[auto]


class Html:
    def __init__(self, s):
        self.s = s

    def __html__(self):
        return self.s

    def __str__(self):
        return self.s


class Catalog:
    """A message catalogue whose translations contain no HTML-special characters but were written carelessly: stray percent signs,
    unsupported format characters, placeholders used twice.  Whatever the tag makes of them, message *variables* stay escaped."""

    VARIANTS = [lambda m: m, lambda m: "100% " + m, lambda m: m + " 5 %", lambda m: m + " / " + m, lambda m: "%d " + m, lambda m: m.replace(")s", ")d")]

    def __init__(self, variant: int):
        self.f = self.VARIANTS[variant % len(self.VARIANTS)]

    def gettext(self, message):
        return self.f(message)

    def ngettext(self, singular, plural, n):
        return self.f(singular if n == 1 else plural)

    def pgettext(self, message_context, message):
        return self.f(message)

    def npgettext(self, message_context, singular, plural, n):
        return self.f(singular if n == 1 else plural)


def has_special(v: Any) -> bool:
    if isinstance(v, str):
        return any(c in v for c in "<>&'\"%") or "Jm" in v or "PGI" in v
    if isinstance(v, list):
        return any(has_special(x) for x in v)
    if isinstance(v, dict):
        return any(has_special(x) or has_special(k) for k, x in v.items())
    return False


_uenvs: dict[str, Any] = {}
# what a missing value prints (nothing, or a debugging hint that quotes the path that failed - data included) is text like any other
MISSING_USES = ["{{ h[s] }}", "{{ nosuch[s] }}", "{{ h[s].x }}", "{{ h[s][t] }}", "{% assign v = h[s] %}{% echo v %}", "{{ h[s] | default: h[t] }}", "{% for x in h[s] %}x{% else %}{{ h[s] }}{% endfor %}", "{% cycle h[s], 1 %}",
                "{{ h[s] | append: t }}", "{% capture c %}{{ h[s] }}{% endcapture %}{{ c }}", "{% if h[s] %}y{% else %}{{ h[s] }}{% endif %}", "{{ xs[s] }}", "{{ s[t] }}", "{% call nosuchmacro %}", "{% render 'p', v: h[s] %}",
                "{{ h[s] | join: t }}", "{% liquid\necho h[s]\n%}", "{{ h[s] if true else 1 }}"]


def judge_undefined(ctx: core.Ctx, case: dict[str, Any]) -> None:
    u = case["undefined"]
    if u not in _uenvs:
        _uenvs[u] = drv.make_env({"autoescape": True, "extra": True, "undefined": u, "flags": {"ternary_expressions": True}}, loader=DictLoader(dict(PARTIALS)))
    data = V.dec(case["data"])
    o = drv.parse_and_render(_uenvs[u], case["source"], data, use_async=case.get("async", False))
    ctx.count("missing_value_renders")
    if not o.ok:
        ctx.count("missing_value_render_raised")
        return
    bad = scan(o.value)
    ctx.evaluations += 1
    if bad:
        ctx.violation(f"{'bare-ampersand' if bad == 'bare-ampersand' else 'raw-special'}:text-of-a-missing-value:{u}", f"autoescape on, undefined={u}: {case['source']!r} with {data!r:.120} rendered {o.value!r:.160}")
        return
    ctx.ok((case["source"], case["data"], u), nontrivial=has_special(data))


def judge(ctx: core.Ctx, case: dict[str, Any]) -> None:
    if case.get("kind") == "undefined-type":
        judge_undefined(ctx, case)
        return
    data = V.dec(case["data"])
    src = case["source"]
    if case.get("kind") == "passthrough":
        marked = case["marked"]
        d = dict(data)
        d["m"] = Markup(marked) if case.get("as") == "markup" else Html(marked)
        o = drv.parse_and_render(env(True), src, d)
        exp = "[" + marked + "]"  # every passthrough route prints the marked value exactly once between the brackets
        if not o.ok or o.value != exp:
            ctx.evaluations += 1
            ctx.violation(f"safe-value-altered:{case.get('as')}", f"value marked safe {marked!r} rendered as {o.brief()} (expected {exp!r})")
            return
        ctx.ok((src, marked, case.get("as")), nontrivial=True)
        return
    if case.get("kind") == "twin":
        # history: the same text first goes through the filters marked safe (Markup), in an earlier render of the same environment
        # or earlier in the same template (result assigned, not output); the plain twin rendered afterwards must still be escaped
        d0 = dict(data)
        d0["ms"] = Markup(data["s"]) if isinstance(data.get("s"), str) else data.get("s")
        d0["mt"] = Markup(data["t"]) if isinstance(data.get("t"), str) else data.get("t")
        pre = drv.parse_and_render(env(True), case["prelude"], d0)
        ctx.count("twin_preludes_rendered" if pre.ok else "twin_prelude_failed")
        data = d0
    if case.get("catalog") is not None:
        data = dict(data, translations=Catalog(case["catalog"]))
        ctx.count("renders_with_a_message_catalogue")
    REC.update(first_bad=None, n=0)
    o = drv.parse_and_render(env(True), src, data, use_async=case.get("async", False))
    ctx.count("filter_results_scanned", REC["n"])
    if not o.ok:
        if not o.is_liquid_error:
            ctx.count("non_liquid_error_forwarded_to_C02")
        else:
            ctx.count("liquid_error_skipped")
        return
    ctx.count("outputs_scanned")
    bad = scan(o.value)
    if case.get("implicit") and o.ok and not bad:
        # the package-level API: liquid.Template(source, autoescape=True) uses a memoised implicit environment; another template made
        # with autoescape off in between must not change how this one escapes (the explicit environment's output is the reference)
        import liquid

        t = drv.call(liquid.Template, src, autoescape=True, extra=True)
        drv.call(liquid.Template, "{{ x }}", autoescape=False, extra=True)
        ctx.count("implicit_environment_cases")
        oi = drv.render(t.value, data) if t.ok else t
        if oi.ok and oi.value != o.value and scan(oi.value):
            ctx.evaluations += 1
            ctx.violation("raw-special:implicit-environment-shared-with-autoescape-off", f"liquid.Template({src!r:.200}, autoescape=True), rendered after a template with autoescape=False was made, gives {oi.value!r:.200}; an explicit Environment(autoescape=True) gives {o.value!r:.200}")
            return
    if bad:
        fb = REC["first_bad"]
        from harness import shrink

        def still(s2: str) -> bool:
            if case.get("kind") == "twin":
                drv.parse_and_render(env(True), case["prelude"], data)
            r = drv.parse_and_render(env(True), s2, data)
            return r.ok and scan(r.value) == bad

        small = shrink.shrink_source(src, still, budget=120)
        REC.update(first_bad=None, n=0)
        o3 = drv.parse_and_render(env(True), small, data)
        fb = REC["first_bad"] or fb
        used = set(re.findall(r"\|\s*(\w+)", small))
        surgery = sorted(used & SURGERY)
        if bad == "bare-ampersand" and surgery:
            sig = "bare-ampersand:escape-sequence-cut-by-text-filter-on-markup"
        else:
            mech = f"{fb[0]}({fb[2]})" if fb else "output-path:" + "+".join(sorted(used)[:3])
            sig = f"{'bare-ampersand' if bad == 'bare-ampersand' else 'raw-special'}:{mech}"
            if case.get("kind") == "twin" and scan_alone(small, data) is None:
                sig = f"history-dependent-escaping:{'+'.join(sorted(used)[:3])}"
        ctx.evaluations += 1
        ctx.violation(sig, f"autoescape on: {small!r:.300} with data {data!r:.200} rendered {o3.value if o3.ok else o3.err_class!r:.200} ({bad}; first unsafe Markup produced by {fb})", {"source": src, "shrunk": small})
        return
    o2 = drv.parse_and_render(env(False), src, data)
    if case.get("differential") and o2.ok and not has_special(data) and scan(o2.value) is None and "&" not in o2.value:
        # neither the data nor the output contains a special character: enabling autoescape must not change the output
        # (with special characters in the data, filters such as size or url_encode legitimately see the escaped text)
        if o2.value != o.value:
            from harness import shrink

            def differs(s2: str) -> bool:
                a = drv.parse_and_render(env(False), s2, data)
                b = drv.parse_and_render(env(True), s2, data)
                return a.ok and b.ok and scan(a.value) is None and "&" not in a.value and "Markup(" not in b.value and a.value != b.value

            small = shrink.shrink_source(src, differs, budget=120)
            used = sorted(set(re.findall(r"\|\s*(\w+)", small)))
            a = drv.parse_and_render(env(False), small, data)
            b = drv.parse_and_render(env(True), small, data)
            ctx.evaluations += 1
            ctx.violation("autoescape-changes-plain-output:" + "+".join(used[:3]), f"output without special characters changes when autoescape is enabled: {small!r:.200} with {data!r:.120} renders {a.brief()} without and {b.brief()} with autoescape")
            return
    ctx.ok((src, case["data"]), nontrivial=bool(o.value) and has_special(data))


# ------------------------------------------------------------------------ generators

SAFE_LITS = ["", "a", "b", "x y", "amp;", "lt", "#", ";", "1", ",", "-", "ab", "t;", "q", "&"[:0]]
HOSTILE = ["<b>", "</script>", "a&b", "&", "&amp;", "&lt;", "&lt", "&#", "&#60;", "'", '"', "<", ">", "x<y>z", "%3Cb%3E", "%26", "%22", "PGI+", "Jmx0Ow==", "Jg==", "PA==",
           "a'b\"c", "&amp;lt;", "<<>>", "&amp", "&#x3C;", "plain", "", "&&", "<a href='x'>", "1 < 2 & 3 > 2"]
FILTERS0 = ["upcase", "downcase", "capitalize", "strip", "lstrip", "rstrip", "escape", "escape_once", "strip_html", "strip_newlines", "url_encode", "url_decode",
            "base64_encode", "base64_decode", "base64_url_safe_encode", "base64_url_safe_decode", "squish", "size", "first", "last", "reverse", "sort", "sort_natural",
            "uniq", "compact", "join", "json", "escapejs", "gettext", "sum", "sort_numeric"]
FILTERS1 = ["append", "prepend", "remove", "remove_first", "remove_last", "split", "join", "default", "truncate", "truncatewords", "slice", "concat", "map", "where", "t", "date",
            "find", "find_index", "has", "reject", "index", "pgettext", "ngettext", "npgettext", "plus", "times"]
FILTERS2 = ["replace", "replace_first", "replace_last", "slice", "truncate"]
VARS = ["s", "t", "xs", "h.k", "os", "cap"]


def lit(rng) -> str:
    return "'" + rng.choice(SAFE_LITS) + "'"


def arg(rng, f: str) -> str:
    if f in ("truncate", "truncatewords"):
        return str(rng.choice([1, 2, 3, 5]))
    if f == "slice":
        return str(rng.choice([0, 1, 2, -1, -2, 3]))
    if f in ("map", "where", "reject"):
        return "'k'"
    if f in ("find", "find_index", "has"):
        return "'k', " + rng.choice(["s", "t", "'a'"])
    if f == "index":
        return str(rng.choice([0, 1, -1]))
    if f == "pgettext":
        return rng.choice(["'c'", "s"])
    if f == "ngettext":
        return rng.choice(["t", "s", "'many'"]) + ", " + rng.choice(["1", "2"])
    if f == "npgettext":
        return rng.choice(["'c'", "t"]) + ", " + rng.choice(["t", "s", "'many'"]) + ", " + rng.choice(["1", "2"])
    if f in ("plus", "times"):
        return rng.choice(["1", "s"])
    if f == "concat":
        return "xs"
    if rng.random() < 0.4:
        return rng.choice(["s", "t"])
    return lit(rng)


def chain(rng, n: int) -> str:
    out = []
    for _ in range(n):
        r = rng.random()
        if r < 0.5:
            out.append(rng.choice(FILTERS0))
        elif r < 0.85:
            f = rng.choice(FILTERS1)
            out.append(f"{f}: {arg(rng, f)}")
        else:
            f = rng.choice(FILTERS2)
            out.append(f"{f}: {arg(rng, f)}, {arg(rng, f)}")
    return "".join(" | " + f for f in out)


def expr(rng) -> str:
    return rng.choice(VARS) + chain(rng, rng.choice([0, 1, 1, 2, 2, 3, 4]))


STR_F0 = ["upcase", "downcase", "capitalize", "strip", "lstrip", "rstrip", "escape", "escape_once", "strip_html", "strip_newlines", "url_encode", "url_decode", "squish", "size"]
STR_F1 = ["append", "prepend", "remove", "remove_first", "remove_last", "default", "truncate", "truncatewords", "slice"]


def gen_scalar_source(rng) -> str:
    """String-to-string filter chains over scalar variables only (used for the autoescape off/on differential)."""
    parts = ["{% capture cap %}{{ " + rng.choice(["s", "t"]) + " }}{% endcapture %}"]
    for _ in range(rng.randint(1, 4)):
        e = rng.choice(["s", "t", "cap"])
        for _ in range(rng.choice([0, 1, 2, 3])):
            if rng.random() < 0.6:
                e += " | " + rng.choice(STR_F0)
            else:
                f = rng.choice(STR_F1)
                e += f" | {f}: {arg(rng, f)}"
        parts.append(rng.choice(["{{ " + e + " }}", "{% echo " + e + " %}", "{% assign v1 = " + e + " %}{{ v1 }}", "{% if s %}{{ " + e + " }}{% endif %}"]))
        parts.append(rng.choice(["", " ", "x", "\n"]))
    return "".join(parts)


def gen_source(rng) -> str:
    parts = []
    parts.append("{% capture cap %}" + "{{ " + rng.choice(["s", "t", "xs | join: ', '"]) + " }}" + "{% endcapture %}")
    for _ in range(rng.randint(1, 4)):
        r = rng.random()
        e = expr(rng)
        if r < 0.3:
            parts.append("{{ " + e + " }}")
        elif r < 0.4:
            parts.append("{% echo " + e + " %}")
        elif r < 0.5:
            parts.append("{% assign v1 = " + e + " %}{{ v1 }}{{ v1 | append: t }}")
        elif r < 0.6:
            parts.append("{% capture c2 %}a {{ " + e + " }} b{% endcapture %}{{ c2" + chain(rng, rng.choice([0, 1, 2])) + " }}")
        elif r < 0.66:
            parts.append("{% cycle s, t, 'lit' %}{% cycle s, t, 'lit' %}")
        elif r < 0.74:
            parts.append("{% for i in xs %}{{ i" + chain(rng, rng.choice([0, 1])) + " }},{% endfor %}")
        elif r < 0.8:
            parts.append("{% if s contains 'a' %}{{ " + e + " }}{% else %}{{ t }}{% endif %}")
        elif r < 0.85:
            parts.append("{% case s %}{% when t %}{{ s }}{% else %}{{ " + e + " }}{% endcase %}")
        elif r < 0.9:
            parts.append("{% liquid\n assign lv = " + e + "\n echo lv\n%}")
        elif r < 0.94:
            parts.append("{% include 'p', v: " + rng.choice(VARS) + ", item: t %}{% render 'q', v: cap, s: s %}")
        elif r < 0.97:
            # message text with stray percent signs and unsupported format characters: whatever the tag does with them
            # (format, fall back, raise), the message variables must not reach the output raw
            body = rng.choice(["Hello {{ you }}", "Hello {{ you }}", "100% {{ you }}", "{{ you }} %", "%d {{ you }} %s", "50%% {{ you }}", "%(you)d {{ you }}", "{{ you }}{{ you }} 5 %"])
            extra_arg = rng.choice(["", "", ", count: 2", ", context: t"])
            plural = rng.choice(["", "", "{% plural %}{{ you }}s 100%"])
            parts.append("{% translate you: " + rng.choice(["s", "t", "cap", "h.k"]) + extra_arg + " %}" + body + plural + "{% endtranslate %}")
        else:
            parts.append("{{ s if t else cap }}{{ " + e + " || append: t }}")
        parts.append(rng.choice(["", " ", "x", "\n", " - "]))
    return "".join(parts)


def gen_data(rng, hostile: bool) -> dict[str, Any]:
    pool = HOSTILE if hostile else ["plain", "abc", "x y", "", "12", "a.b"]
    return {
        "s": rng.choice(pool), "t": rng.choice(pool), "xs": [rng.choice(pool) for _ in range(rng.randint(0, 3))],
        "h": {"k": rng.choice(pool)}, "os": [{"k": rng.choice(pool)} for _ in range(rng.randint(0, 2))],
    }


PASS_ROUTES = [
    "{{ m }}", "{{m}}", "{% echo m %}", "{% assign v = m %}{{ v }}", "{% capture c %}{{ m }}{% endcapture %}{{ c }}",
    "{% capture c %}{{ m }}{% endcapture %}{% capture d %}{{ c }}{% endcapture %}{{ d }}", "{% capture c %}{{ m }}{% endcapture %}{% assign v = c %}{% echo v %}",
    "{% for i in (1..1) %}{{ m }}{% endfor %}", "{% if true %}{{ m }}{% endif %}", "{% cycle m, m %}", "{% liquid\n echo m\n%}", "{{ m | default: 'x' }}",
    "{% ifchanged %}{{ m }}{% endifchanged %}", "{% case 1 %}{% when 1 %}{{ m }}{% endcase %}", "{% capture c %}{% if true %}{{ m }}{% endif %}{% endcapture %}{{ c }}",
    "{% unless false %}{{ m }}{% endunless %}", "{% with w: m %}{{ w }}{% endwith %}", "{% macro 'f' x %}{{ x }}{% endmacro %}{% call 'f' m %}",
]


def cases(ctx: core.Ctx):
    k = 0
    for u in ("debug", "default", "strict_default"):
        for src in MISSING_USES:
            for sv in HOSTILE[:14]:
                k += 1
                if k % ctx.nshards != ctx.shard or (ctx.tier == "quick" and k % 2):
                    continue
                yield {"kind": "undefined-type", "undefined": u, "source": src, "data": V.enc({"s": sv, "t": HOSTILE[(k * 7) % len(HOSTILE)], "h": {"a": 1}, "xs": [1]}), "async": k % 5 == 0}
    rng = ctx.rng("cases")
    # values marked safe stay byte-for-byte what they are on every route from the data to the output (special characters of every
    # kind on their own: a value whose only special character is a quote is as safe as one full of tags)
    for marked in ["<b>x</b>", "a & b", "&amp;", "<i class='c'>\"q\"</i>", "", 'say "hi"', "it's", '"', "'", "<", ">", "&", "a > b", "&#39;", "plain"]:
        for how in ("markup", "html"):
            for route in PASS_ROUTES:
                if "default" in route and marked == "":
                    continue  # the default filter replaces an empty value by design
                yield {"kind": "passthrough", "source": "[" + route + "]", "marked": marked, "as": how, "data": V.enc({})}
    if ctx.tier == "thorough":
        import itertools

        idx = 0
        for f1, f2 in itertools.product(FILTERS0 + FILTERS1 + FILTERS2, repeat=2):
            for var in ("s", "cap"):
                idx += 1
                if idx % ctx.nshards != ctx.shard:
                    continue
                a1 = f": {arg(rng, f1)}" + (f", {arg(rng, f1)}" if f1 in FILTERS2 else "") if f1 not in FILTERS0 else ""
                a2 = f": {arg(rng, f2)}" + (f", {arg(rng, f2)}" if f2 in FILTERS2 else "") if f2 not in FILTERS0 else ""
                src = "{% capture cap %}{{ s }}{% endcapture %}{{ " + var + " | " + f1 + a1 + " | " + f2 + a2 + " }}"
                for hs in HOSTILE[:12]:
                    yield {"source": src, "data": V.enc({"s": hs, "t": "&lt;", "xs": [hs, "<"], "h": {"k": hs}, "os": [{"k": hs}]})}
        ctx.extra["filter_pairs_enumerated"] = True
    for i in range(ctx.budget(14000, 1_000_000)):
        if i % 7 == 3:
            # equal-but-distinct twins: Markup(text) goes through a filter chain, then the plain text through the same chain
            c = chain(rng, rng.choice([1, 1, 2, 3]))
            v = rng.choice(["s", "t"])
            plain = rng.choice(["{{ " + v + c + " }}", "{% echo " + v + c + " %}", "{% assign v1 = " + v + c + " %}{{ v1 }}", "{% cycle " + v + ", t %}"])
            pre = "{% assign junk = m" + v + c + " %}{{ m" + v + c + " }}"
            if rng.random() < 0.5:
                yield {"kind": "twin", "prelude": pre, "source": plain, "data": V.enc(gen_data(rng, hostile=True))}
            else:
                yield {"kind": "twin", "prelude": "", "source": "{% assign junk = m" + v + c + " %}" + plain, "data": V.enc(gen_data(rng, hostile=True))}
            continue
        if i % 5 == 0:
            yield {"source": gen_scalar_source(rng), "data": V.enc(gen_data(rng, hostile=False)), "differential": True}
        else:
            c = {"source": gen_source(rng), "data": V.enc(gen_data(rng, hostile=True)), "async": rng.random() < 0.1}
            if i % 23 == 1 and "include" not in c["source"] and "render" not in c["source"]:
                c["implicit"] = True
            elif "translate" in c["source"] and rng.random() < 0.6:
                c["catalog"] = rng.randrange(len(Catalog.VARIANTS))
            yield c
