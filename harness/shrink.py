"""Witness shrinking by delta debugging on source text (markup tokens, then words)."""

from __future__ import annotations

import re
from typing import Callable

from harness.gen.malformed import split_tokens


def _ddmin(items: list[str], pred: Callable[[list[str]], bool], budget: list[int]) -> list[str]:
    n = 2
    while len(items) >= 2 and budget[0] > 0:
        chunk = max(1, len(items) // n)
        reduced = False
        for i in range(0, len(items), chunk):
            cand = items[:i] + items[i + chunk :]
            budget[0] -= 1
            if cand and pred(cand):
                items = cand
                n = max(n - 1, 2)
                reduced = True
                break
            if budget[0] <= 0:
                break
        if not reduced:
            if chunk == 1:
                break
            n = min(len(items), n * 2)
    return items


_WORDS = re.compile(r"(\s+)")


def shrink_source(source: str, pred: Callable[[str], bool], budget: int = 250) -> str:
    """Smallest source (by ddmin over markup tokens, then words inside tokens) with pred(source)."""
    b = [budget]
    try:
        toks = split_tokens(source)
        toks = _ddmin(toks, lambda c: pred("".join(c)), b)
        # phase 1b: balanced pairs (an opening and a closing tag can only go together)
        changed = True
        while changed and len(toks) <= 14 and b[0] > 0:
            changed = False
            for i in range(len(toks)):
                for j in range(i + 1, len(toks)):
                    cand = toks[:i] + toks[i + 1 : j] + toks[j + 1 :]
                    b[0] -= 1
                    if cand and pred("".join(cand)):
                        toks = cand
                        changed = True
                        break
                    if b[0] <= 0:
                        break
                if changed or b[0] <= 0:
                    break
        # second phase: words inside each remaining markup token
        for i, t in enumerate(list(toks)):
            if b[0] <= 0:
                break
            if not (t.startswith("{%") or t.startswith("{{")):
                # plain text: try dropping it / shortening it
                if len(toks) > 1:
                    cand = toks[:i] + [""] + toks[i + 1 :]
                    b[0] -= 1
                    if pred("".join(cand)):
                        toks = cand
                continue
            words = [w for w in _WORDS.split(t) if w != ""]
            if len(words) < 4:
                continue
            head, tail = words[0], words[-1]
            inner = words[1:-1]

            def p2(c, i=i, head=head, tail=tail):
                return pred("".join(toks[:i] + [head + "".join(c) + tail] + toks[i + 1 :]))

            inner = _ddmin(inner, p2, b)
            toks[i] = head + "".join(inner) + tail
        return "".join(toks)
    except Exception:  # noqa: BLE001 - shrinking is best effort
        return source
