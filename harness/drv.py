"""Driver helpers: build environments from JSON configs, run the real API, record outcomes (M1)."""

from __future__ import annotations

import asyncio
import os
import signal
import threading
import warnings
from typing import Any, Callable

import liquid
from liquid import Environment, Mode
from liquid.exceptions import LiquidError
from liquid.exceptions import LiquidInterrupt
from liquid.exceptions import StopRender
from liquid import undefined as _undef

_ADDR = __import__("re").compile(r" at 0x[0-9a-fA-F]+")


def _stable(v):
    """A rendered text with the memory addresses of printed objects masked ('<... object at 0x7f...>' -> 'at 0x?'): no two renders agree on
    them, and no property is about them.  Anything that is not plain text is handed on as it is."""
    return _ADDR.sub(" at 0x?", v) if type(v) is str and " at 0x" in v else v


MODES = {"strict": Mode.STRICT, "warn": Mode.WARN, "lax": Mode.LAX}
UNDEFINED = {
    "default": _undef.Undefined,
    "strict": _undef.StrictUndefined,
    "falsy_strict": _undef.FalsyStrictUndefined,
    "strict_default": _undef.StrictDefaultUndefined,
    "debug": _undef.DebugUndefined,
}

FLAG_NAMES = (
    "ternary_expressions", "logical_not_operator", "logical_parentheses", "string_sequences",
    "string_first_and_last", "shorthand_indexes", "keyword_assignment", "suppress_blank_control_flow_blocks",
)
LIMIT_NAMES = ("block_nesting_limit", "context_depth_limit", "loop_iteration_limit", "local_namespace_limit", "output_stream_limit")

_class_cache: dict[tuple, type] = {}


def env_class(flags: dict[str, Any] | None = None, limits: dict[str, Any] | None = None, base: type = Environment) -> type:
    flags = flags or {}
    limits = limits or {}
    key = (base, tuple(sorted(flags.items())), tuple(sorted(limits.items())))
    cls = _class_cache.get(key)
    if cls is None:
        attrs = {}
        for k, v in flags.items():
            assert k in FLAG_NAMES, k
            attrs[k] = v
        for k, v in limits.items():
            assert k in LIMIT_NAMES, k
            attrs[k] = v
        cls = type("VEnv", (base,), attrs)
        if len(_class_cache) > 5000:
            _class_cache.clear()
        _class_cache[key] = cls
    return cls


def make_env(cfg: dict[str, Any] | None = None, loader=None, base: type = Environment) -> Environment:
    cfg = cfg or {}
    cls = env_class(cfg.get("flags"), cfg.get("limits"), base)
    kw: dict[str, Any] = {}
    d = cfg.get("delims")
    if d:
        kw.update(
            tag_start_string=d[0], tag_end_string=d[1], statement_start_string=d[2], statement_end_string=d[3]
        )
        if len(d) > 4:
            kw.update(comment_start_string=d[4], comment_end_string=d[5])
    env = cls(
        extra=cfg.get("extra", False),
        tolerance=MODES[cfg.get("mode", "strict")],
        undefined=UNDEFINED[cfg.get("undefined", "default")],
        strict_filters=cfg.get("strict_filters", True),
        autoescape=cfg.get("autoescape", False),
        template_comments=cfg.get("template_comments", False),
        globals=cfg.get("globals"),
        loader=loader,
        **kw,
    )
    return env


def safe_str(exc: BaseException) -> str:
    """str(exc) that cannot fail: formatting a Liquid error runs library code (line / column context), which a defect can break."""
    try:
        return str(exc)
    except Exception as e:  # noqa: BLE001
        return f"<{type(exc).__name__}: str() raised {type(e).__name__}: {e}>"


class Outcome:
    """Result of one API call at the boundary: value or exception (class + liquid-ness)."""

    __slots__ = ("ok", "value", "exc")

    def __init__(self, ok: bool, value: Any = None, exc: BaseException | None = None):
        self.ok = ok
        self.value = value
        self.exc = exc

    @property
    def err_class(self) -> str | None:
        return None if self.exc is None else type(self.exc).__name__

    @property
    def is_liquid_error(self) -> bool:
        return self.exc is not None and isinstance(self.exc, LiquidError) and not isinstance(self.exc, (LiquidInterrupt, StopRender))

    def key(self) -> tuple:
        """Comparable summary: ('ok', value) or ('err', class name)."""
        if self.ok:
            # (a template that prints an object without a text of its own shows its memory address: two renders never agree on that)
            return ("ok", _ADDR.sub(" at 0x?", self.value) if isinstance(self.value, str) else self.value)
        return ("err", self.err_class)

    def brief(self) -> Any:
        if self.ok:
            v = self.value
            return ["ok", v if not isinstance(v, str) or len(v) < 300 else v[:300] + "..."]
        return ["err", self.err_class, safe_str(self.exc)[:200]]


CALL_CPU_S = float(os.environ.get("VERIF_CALL_CPU_S", "40"))


class _cpu_guard:
    """Process-CPU bound (ITIMER_VIRTUAL: independent of machine load) around one call into the library; main thread only, and only
    when no other virtual timer is running (C09 owns its own)."""

    def __enter__(self):
        self.armed = False
        if threading.current_thread() is threading.main_thread() and signal.getitimer(signal.ITIMER_VIRTUAL)[0] == 0:
            self.old = signal.signal(signal.SIGVTALRM, self._fire)
            signal.setitimer(signal.ITIMER_VIRTUAL, CALL_CPU_S)
            self.armed = True
        return self

    @staticmethod
    def _fire(signum, frame):
        from harness import core

        raise core.WorkloadTooHeavy(f"one library call used more than {CALL_CPU_S:.0f}s of CPU")

    def __exit__(self, *exc):
        if self.armed:
            signal.setitimer(signal.ITIMER_VIRTUAL, 0)
            signal.signal(signal.SIGVTALRM, self.old)
        return False


def call(fn: Callable[..., Any], *a: Any, **k: Any) -> Outcome:
    try:
        with _cpu_guard():
            return Outcome(True, _stable(fn(*a, **k)))
    except Exception as e:  # noqa: BLE001 - the boundary recorder must see everything
        return Outcome(False, exc=e)


_loop: asyncio.AbstractEventLoop | None = None


def loop() -> asyncio.AbstractEventLoop:
    global _loop
    if _loop is None or _loop.is_closed():
        _loop = asyncio.new_event_loop()
    return _loop


def _close_loop() -> None:
    global _loop
    if _loop is not None and not _loop.is_closed():
        try:
            _loop.run_until_complete(_loop.shutdown_default_executor())
        except Exception:  # noqa: BLE001
            pass
        _loop.close()
    _loop = None


import atexit  # noqa: E402

atexit.register(_close_loop)


def call_async(fn: Callable[..., Any], *a: Any, **k: Any) -> Outcome:
    global _loop
    try:
        with _cpu_guard():
            return Outcome(True, _stable(loop().run_until_complete(fn(*a, **k))))
    except Exception as e:  # noqa: BLE001
        return Outcome(False, exc=e)
    except BaseException:
        _loop = None  # the abandoned coroutine must not be resumed by the next call: start over with a fresh loop
        raise


def parse(env: Environment, source: str, **kw: Any) -> Outcome:
    return call(env.from_string, source, **kw)


def render(tpl, data: dict[str, Any]) -> Outcome:
    return call(tpl.render, **data) if all(isinstance(k, str) for k in data) else call(tpl.render, data)


def render_async(tpl, data: dict[str, Any]) -> Outcome:
    return call_async(tpl.render_async, **data)


def parse_and_render(env: Environment, source: str, data: dict[str, Any], use_async: bool = False) -> Outcome:
    o = parse(env, source)
    if not o.ok:
        return o
    return render_async(o.value, data) if use_async else render(o.value, data)


class Warnings:
    """M9: warnings recorder."""

    def __enter__(self):
        self._cm = warnings.catch_warnings(record=True)
        self.log = self._cm.__enter__()
        warnings.simplefilter("always")
        return self

    def __exit__(self, *a):
        return self._cm.__exit__(*a)

    def __len__(self):
        return len(self.log)


def lexer_accepts(env: Environment, source: str) -> bool:
    """Does the environment's template lexer accept the source (C03 / C21 precondition)."""
    try:
        for _ in env.tokenizer()(source):
            pass
    except LiquidError:
        return False
    except Exception:  # noqa: BLE001 - a crash of the lexer is judged by C02, not here
        return False
    return True
