"""M5: anchor coverage via sys.monitoring (PY_START + LINE, each DISABLEd after first hit).

Records which functions / statement lines of the property's anchor files the
monitored executions actually entered.  A check whose REQUIRED anchor function was
never entered is reported inconclusive, so a run that did not reach its deciding
code is never reported as "held".
"""

from __future__ import annotations

import os
import sys

TOOL = 3  # sys.monitoring tool id (0-5); the step clock uses another one


class AnchorCoverage:
    def __init__(self, repo: str, files: list[str]):
        self.repo = os.path.realpath(repo)
        self.files = {os.path.join(self.repo, f): f for f in files}
        self.funcs: set[tuple[str, str]] = set()
        self.lines: set[tuple[str, int]] = set()
        self.active = False

    def start(self) -> None:
        mon = sys.monitoring
        try:
            mon.use_tool_id(TOOL, "verif-anchor-coverage")
        except ValueError:
            return
        E = mon.events

        def on_start(code, offset):
            fn = self.files.get(code.co_filename)
            if fn is not None:
                self.funcs.add((fn, code.co_qualname))
            return mon.DISABLE

        def on_line(code, line):
            fn = self.files.get(code.co_filename)
            if fn is not None:
                self.lines.add((fn, line))
            return mon.DISABLE

        mon.register_callback(TOOL, E.PY_START, on_start)
        mon.register_callback(TOOL, E.LINE, on_line)
        mon.set_events(TOOL, E.PY_START | E.LINE)
        self.active = True

    def stop(self) -> None:
        if not self.active:
            return
        mon = sys.monitoring
        mon.set_events(TOOL, 0)
        mon.register_callback(TOOL, mon.events.PY_START, None)
        mon.register_callback(TOOL, mon.events.LINE, None)
        mon.free_tool_id(TOOL)
        self.active = False

    def total_lines(self) -> dict[str, int]:
        out = {}
        for path, rel in self.files.items():
            try:
                with open(path, encoding="utf-8") as fd:
                    top = compile(fd.read(), path, "exec")
            except (OSError, SyntaxError):
                continue
            lines: set[int] = set()
            stack = [top]
            while stack:
                c = stack.pop()
                lines.update(ln for _, _, ln in c.co_lines() if ln)
                stack.extend(k for k in c.co_consts if hasattr(k, "co_lines"))
            out[rel] = len(lines)
        return out

    def dump(self) -> dict:
        per_file: dict[str, int] = {}
        for fn, _ in self.lines:
            per_file[fn] = per_file.get(fn, 0) + 1
        return {
            "anchor_funcs": sorted(f"{a}:{b}" for a, b in self.funcs),
            "anchor_lines": sorted(f"{a}:{b}" for a, b in self.lines),
            "anchor_lines_per_file": per_file,
        }
