"""M4: logical step clock (sys.monitoring PY_START + LINE + JUMP) with a budget, plus a RecursionError sentinel (RAISE).

Termination verdicts are taken on this clock, never on wall time: a parse or render that exceeds its step budget is aborted by a
BaseException raised *once* from the callback (an Exception would be swallowed and relabelled by Environment.from_string's
catch-all).  JUMP events are needed because a one-line loop fires no LINE events.
"""

from __future__ import annotations

import sys
from typing import Any

TOOL = 4


class StepBudgetExceeded(BaseException):
    pass


class StepClock:
    def __init__(self) -> None:
        self.steps = 0
        self.budget = 0
        self.tripped = False
        self.recursion_errors = 0
        self.max_depth = 0
        self.active = False
        self._armed = False

    def install(self) -> bool:
        mon = sys.monitoring
        try:
            mon.use_tool_id(TOOL, "verif-step-clock")
        except ValueError:
            return False
        E = mon.events

        def tick(*_a: Any) -> None:
            if not self._armed:
                return
            self.steps += 1
            if self.steps > self.budget and not self.tripped:
                self.tripped = True
                raise StepBudgetExceeded(f"more than {self.budget} steps")

        def on_start(code, offset):
            if not self._armed:
                return
            self.steps += 1
            if self.steps & 63 == 0:
                d = 0
                f = sys._getframe(1)
                while f is not None:
                    d += 1
                    f = f.f_back
                if d > self.max_depth:
                    self.max_depth = d
            if self.steps > self.budget and not self.tripped:
                self.tripped = True
                raise StepBudgetExceeded(f"more than {self.budget} steps")

        def on_raise(code, offset, exc):
            if self._armed and isinstance(exc, RecursionError):
                self.recursion_errors += 1

        mon.register_callback(TOOL, E.PY_START, on_start)
        mon.register_callback(TOOL, E.LINE, tick)
        mon.register_callback(TOOL, E.JUMP, tick)
        mon.register_callback(TOOL, E.RAISE, on_raise)
        self._E = E
        self.active = True
        return True

    def start(self, budget: int) -> None:
        self.steps = 0
        self.budget = budget
        self.tripped = False
        self.recursion_errors = 0
        self.max_depth = 0
        self._armed = True
        sys.monitoring.set_events(TOOL, self._E.PY_START | self._E.LINE | self._E.JUMP | self._E.RAISE)

    def stop(self) -> None:
        self._armed = False
        sys.monitoring.set_events(TOOL, 0)

    def uninstall(self) -> None:
        if self.active:
            mon = sys.monitoring
            mon.set_events(TOOL, 0)
            for ev in (self._E.PY_START, self._E.LINE, self._E.JUMP, self._E.RAISE):
                mon.register_callback(TOOL, ev, None)
            mon.free_tool_id(TOOL)
            self.active = False
