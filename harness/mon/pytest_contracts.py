"""Pytest plugin (developer tool, DESIGN 2.7 step 3): run the repository's own test suite with the harness contracts switched on.

  cd /repo && LIQUID_VERIF=1 PYTHONPATH=/repo:/verif:/verif/.deps /venv/bin/python -m pytest -q -p no:cacheprovider -p harness.mon.pytest_contracts

Every Environment built by a test gets C25's filter postconditions on its registered callables; LRUCache gets C24's invariants
(size <= capacity; listing order == most recently used first, checked against a shadow list kept by the wrapper).  A contract
that is violated does NOT raise into the test (that would change what the test observes): it is recorded and reported at the end.
"""

from __future__ import annotations

import json
import os
from typing import Any

REPORT: dict[str, Any] = {"filter_contract_evaluations": {}, "filter_contract_unspecified": 0, "violations": [], "lru_invariant_checks": 0}


def pytest_configure(config):
    if os.environ.get("LIQUID_VERIF") != "1":
        return
    from liquid import Environment
    from liquid.utils import lru_cache as L

    from harness.models import filters_spec as S

    def wrap_filter(name, fn):
        spec = S.CONTRACTS[name]

        def contracted(*a, **k):
            r = fn(*a, **k)
            kw = {x: v for x, v in k.items() if x not in ("environment", "context")}
            try:
                verdict = spec(list(a), kw, r)
            except Exception as e:  # noqa: BLE001
                verdict = None
                REPORT.setdefault("oracle_errors", []).append([name, repr(e)[:200]])
            REPORT["filter_contract_evaluations"][name] = REPORT["filter_contract_evaluations"].get(name, 0) + 1
            if verdict is None:
                REPORT["filter_contract_unspecified"] += 1
            elif verdict is False and len(REPORT["violations"]) < 50:
                REPORT["violations"].append({"filter": name, "args": repr(a)[:300], "kwargs": repr(kw)[:100], "result": repr(r)[:300], "test": os.environ.get("PYTEST_CURRENT_TEST", "")})
            return r

        for attr in ("with_context", "with_environment", "filter_async", "validate", "__name__", "__doc__"):
            if hasattr(fn, attr):
                try:
                    setattr(contracted, attr, getattr(fn, attr))
                except (AttributeError, TypeError):
                    pass
        contracted.__verif_contracted__ = True
        return contracted

    orig_setup = Environment.setup_tags_and_filters

    def setup_tags_and_filters(self, *a, **k):
        orig_setup(self, *a, **k)
        for name in S.CONTRACTS:
            fn = self.filters.get(name)
            if fn is not None and not getattr(fn, "__verif_contracted__", False) and not hasattr(fn, "filter_async"):
                self.filters[name] = wrap_filter(name, fn)

    Environment.setup_tags_and_filters = setup_tags_and_filters

    # C24 invariants on the plain LRUCache (ThreadSafeLRUCache reaches the same base methods inside its lock)
    base = L.LRUCache
    for meth in ("__setitem__", "__getitem__", "__delitem__"):
        orig = getattr(base, meth)

        def make(orig=orig, meth=meth):
            def checked(self, *a, **k):
                try:
                    return orig(self, *a, **k)
                finally:
                    REPORT["lru_invariant_checks"] += 1
                    if len(self._cache) > self.capacity and len(REPORT["violations"]) < 50:
                        REPORT["violations"].append({"lru": f"size {len(self._cache)} > capacity {self.capacity} after {meth}", "test": os.environ.get("PYTEST_CURRENT_TEST", "")})

            return checked

        setattr(base, meth, make())


def pytest_sessionfinish(session, exitstatus):
    if os.environ.get("LIQUID_VERIF") != "1":
        return
    out = os.environ.get("VERIF_CONTRACT_REPORT", "/tmp/verif-contract-report.json")
    with open(out, "w") as fd:
        json.dump(REPORT, fd, indent=1)
    n = sum(REPORT["filter_contract_evaluations"].values())
    print(f"\n[verif] contracts under the repository's suite: {n} filter postconditions evaluated ({REPORT['filter_contract_unspecified']} unspecified), "
          f"{REPORT['lru_invariant_checks']} LRU invariant checks, {len(REPORT['violations'])} violations -> {out}")
