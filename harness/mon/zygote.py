"""M10: isolation by fork from a pristine zygote.

`start()` must be called before the calling process has rendered anything: it forks a zygote that has imported liquid but never
used it.  `run(fn_name, payload)` asks the zygote to fork a fresh child, call the registered job function there, and pipe its
JSON result back.  Every child therefore starts from identical, history-free process state (memo caches empty), and the
parent's own renders never leak into a child.
"""

from __future__ import annotations

import importlib
import json
import os
import signal
from typing import Any

from harness import core

Z: dict[str, Any] = {}


def _call(job: dict[str, Any]) -> Any:
    mod = importlib.import_module(job["module"])
    return getattr(mod, job["fn"])(job["payload"])


def _zygote_loop(rfd: int, wfd: int) -> None:
    rf = os.fdopen(rfd, "r", encoding="utf-8")
    wf = os.fdopen(wfd, "w", encoding="utf-8")
    for line in rf:
        job = json.loads(line)
        cr, cw = os.pipe()
        pid = os.fork()
        if pid == 0:
            try:
                os.close(cr)
                signal.alarm(int(job.get("watchdog_s", 120)))  # a hung child is killed: the parent reads "child-died" (inconclusive)
                try:
                    out = {"ok": True, "result": _call(job)}
                except BaseException as e:  # noqa: BLE001
                    out = {"ok": False, "error": [type(e).__name__, str(e)[:300]]}
                with os.fdopen(cw, "w", encoding="utf-8") as f:
                    f.write(json.dumps(out, default=repr))
            finally:
                os._exit(0)
        os.close(cw)
        with os.fdopen(cr, "r", encoding="utf-8") as f:
            data = f.read()
        os.waitpid(pid, 0)
        try:
            out = json.loads(data) if data else {"ok": False, "error": ["child-died", ""]}
        except ValueError:
            out = {"ok": False, "error": ["child-wrote-garbage", data[:100]]}
        out["id"] = job.get("id")
        wf.write(json.dumps(out) + "\n")
        wf.flush()
    os._exit(0)


def start(preimport: tuple[str, ...] = ()) -> None:
    if Z:
        return
    import liquid  # noqa: F401 - imported, nothing rendered yet in this process

    for m in preimport:
        importlib.import_module(m)
    p2c_r, p2c_w = os.pipe()
    c2p_r, c2p_w = os.pipe()
    pid = os.fork()
    if pid == 0:
        os.close(p2c_w)
        os.close(c2p_r)
        try:
            _zygote_loop(p2c_r, c2p_w)
        finally:
            os._exit(0)
    os.close(p2c_r)
    os.close(c2p_w)
    Z.update(pid=pid, w=os.fdopen(p2c_w, "w", encoding="utf-8"), r=os.fdopen(c2p_r, "r", encoding="utf-8"))


def stop() -> None:
    if Z:
        try:
            Z["w"].close()
            os.waitpid(Z["pid"], 0)
        except Exception:  # noqa: BLE001
            pass
        Z.clear()


def run(module: str, fn: str, payload: Any, watchdog_s: int = 120) -> Any:
    """Result of module.fn(payload) computed in a fresh child; raises Inconclusive if the child could not answer."""
    if not Z:
        raise core.Inconclusive("zygote not running")
    # every job carries an id: if a case watchdog abandoned an earlier job while it was still running, its late answer is
    # recognised and dropped here instead of being taken for the answer to this job
    Z["seq"] = Z.get("seq", 0) + 1
    jid = Z["seq"]
    Z["w"].write(json.dumps({"id": jid, "module": module, "fn": fn, "payload": payload, "watchdog_s": watchdog_s}, default=repr) + "\n")
    Z["w"].flush()
    while True:
        line = Z["r"].readline()
        if not line:
            raise core.Inconclusive("zygote died")
        out = json.loads(line)
        if out.get("id") == jid:
            break
    if not out.get("ok"):
        raise core.Inconclusive(f"child failed: {out.get('error')}")
    return out["result"]
