"""./check driver: runs one property check, shards, classifies, writes evidence."""

from __future__ import annotations

import argparse
import importlib
import json
import os
import subprocess
import sys
import tempfile
import time
from typing import Any

from harness import core
from harness.core import Ctx, Inconclusive

QUICK_BUDGET_S = 300.0  # safety cap only: the quick workload is bounded by case counts, so a loaded machine slows it down but does not starve the monitors (never a verdict)
THOROUGH_BUDGET_S = 600.0
THOROUGH_SHARDS = 16


def load_props() -> dict[str, dict[str, Any]]:
    out = {}
    with open(os.path.join(core.VERIF, "properties.jsonl"), encoding="utf-8") as fd:
        for line in fd:
            if line.strip():
                p = json.loads(line)
                out[p["id"]] = p
    return out


def load_check(prop: str):
    return importlib.import_module(f"harness.checks.{prop.lower()}")


def run_shard(mod, ctx: Ctx, props: dict[str, Any], replay_case: Any = None) -> dict[str, Any]:
    """Run pinned witnesses + generated cases inside this process."""
    from harness.mon.coverage import AnchorCoverage

    anchors = list(props[ctx.prop]["anchors"]["files"])
    for f, _ in getattr(mod, "REQUIRED", []):
        if f not in anchors:
            anchors.append(f)
    cov = AnchorCoverage(core.REPO, anchors)
    cov.start()
    try:
        if hasattr(mod, "setup"):
            mod.setup(ctx)
        if replay_case is not None:
            ctx.current_case = replay_case
            mod.judge(ctx, replay_case)
        else:
            # 1. pinned witnesses: known findings (open and fixed) and regression corpus
            if ctx.shard == 0:
                open_, fixed = core.load_findings(ctx.prop)
                ctx.pinned_phase = True
                for f in open_ + fixed:
                    for case in f.get("witnesses", []):
                        ctx.current_case = case
                        before = len(ctx.violations)
                        nb = dict(ctx.counters)
                        try:
                            mod.judge(ctx, case)
                        except Inconclusive as e:
                            ctx.inconclusive(f"pinned witness: {e}")
                        hit = any(
                            k.startswith("violation:") and ctx.counters[k] > nb.get(k, 0)
                            for k in ctx.counters
                        )
                        ctx.extra.setdefault("pinned", []).append(
                            {"signature": f["signature"], "status": f["status"], "still_violates": hit}
                        )
                for case in core.load_corpus(ctx.prop):
                    ctx.current_case = case
                    try:
                        mod.judge(ctx, case)
                    except Inconclusive as e:
                        ctx.inconclusive(f"corpus case: {e}")
                    ctx.count("corpus_cases")
                ctx.pinned_phase = False
            # 2. generated workload
            wd_s = getattr(mod, "CASE_WATCHDOG_S", 120.0)
            for case in mod.cases(ctx):
                ctx.current_case = case
                try:
                    with core.case_watchdog(wd_s):
                        mod.judge(ctx, case)
                except core.WorkloadTooHeavy:
                    ctx.count("workload_too_heavy_skipped")
                    if ctx.counters["workload_too_heavy_skipped"] > 25:
                        ctx.inconclusive("more than 25 cases were skipped because one library call used too much CPU")
                        break
                except core.CaseWatchdog as e:
                    ctx.inconclusive(f"{e}: {json.dumps(case, default=repr)[:3000]}")
                    ctx.count("case_watchdog_fired")
                    if ctx.counters["case_watchdog_fired"] >= 3:
                        break
                except Inconclusive:
                    raise
                except Exception as e:  # noqa: BLE001 - a crash of the harness itself is never a verdict
                    ctx.inconclusive(f"harness error while judging a case: {type(e).__name__}: {str(e)[:160]} @ {core.short_tb(e)[-300:]!r}")
                    ctx.count("harness_errors")
                    if ctx.counters["harness_errors"] >= 3:
                        break
                if not ctx.more():
                    ctx.count("stopped_on_time_cap")
                    break
        if hasattr(mod, "finish"):
            mod.finish(ctx)
    except Inconclusive as e:
        ctx.inconclusive(str(e))
    finally:
        cov.stop()
    d = ctx.dump()
    d["coverage"] = cov.dump()
    d["coverage_total"] = cov.total_lines()
    return d


def _defined(repo: str, rel: str, qualname: str) -> bool:
    """Is a function with this qualified name defined in repo/rel (as compiled code, without importing it)?"""
    path = os.path.join(repo, rel)
    try:
        with open(path, encoding="utf-8") as fd:
            top = compile(fd.read(), path, "exec")
    except (OSError, SyntaxError):
        return False
    stack = [top]
    while stack:
        c = stack.pop()
        for k in c.co_consts:
            if hasattr(k, "co_qualname"):
                if k.co_qualname == qualname:
                    return True
                stack.append(k)
    return False


def classify(prop: str, merged: dict[str, Any]):
    """Split violations into known (open, signature listed) and new."""
    open_, fixed = core.load_findings(prop)
    open_sigs = {f["signature"]: f for f in open_}
    known_hit: dict[str, dict[str, Any]] = {}
    new: list[dict[str, Any]] = []
    for v in merged["violations"]:
        sig = v["signature"]
        if sig in open_sigs:
            known_hit.setdefault(sig, open_sigs[sig])
        else:
            new.append(v)
    return known_hit, new, open_, fixed


def write_replay(prop: str, v: dict[str, Any], seed: int, tier: str) -> str:
    d = os.path.join(core.VERIF, "replays")
    os.makedirs(d, exist_ok=True)
    h = core.stable_hash([v["signature"], v["case"]])
    path = os.path.join(d, f"{prop}-{h:016x}.json")
    with open(path, "w", encoding="utf-8") as fd:
        json.dump(
            {
                "property": prop,
                "signature": v["signature"],
                "what": v["what"],
                "detail": v.get("detail"),
                "case": v["case"],
                "seed": seed,
                "tier": tier,
            },
            fd,
            indent=1,
            default=repr,
        )
    return path


def validate_evidence(ev: dict[str, Any]) -> str | None:
    try:
        import jsonschema  # type: ignore
    except ImportError:
        return None
    schema_path = "/root/.vp/EVIDENCE.schema.json"
    local = os.path.join(core.VERIF, "harness", "EVIDENCE.schema.json")
    path = schema_path if os.path.exists(schema_path) else local
    if not os.path.exists(path):
        return None
    with open(path, encoding="utf-8") as fd:
        schema = json.load(fd)
    try:
        jsonschema.validate(ev, schema)
    except jsonschema.ValidationError as e:  # type: ignore
        return str(e.message)[:300]
    return None


def main(argv: list[str] | None = None) -> int:
    ap = argparse.ArgumentParser()
    ap.add_argument("prop")
    ap.add_argument("--tier", default=os.environ.get("VERIF_TIER", "quick"))
    ap.add_argument("--seed", type=int, default=None)
    ap.add_argument("--replay", default=None)
    ap.add_argument("--shard", default=None, help="internal: i/n")
    ap.add_argument("--out", default=None, help="internal: shard dump path")
    ap.add_argument("--budget-s", type=float, default=None)
    ap.add_argument("--cases", type=int, default=None, help="override per-shard case budget")
    ap.add_argument("--shards", type=int, default=None)
    ap.add_argument("--no-evidence", action="store_true")
    args = ap.parse_args(argv)

    import warnings

    warnings.simplefilter("ignore")
    prop = args.prop.upper()
    tier = args.tier if args.tier in ("quick", "thorough") else "quick"
    seed = args.seed if args.seed is not None else int(os.environ.get("VERIF_SEED", "0") or 0)
    props = load_props()
    if prop not in props:
        print(f"INCONCLUSIVE property={prop} reason=unknown-property")
        return 2
    t0 = time.monotonic()
    try:
        mod = load_check(prop)
    except Exception as e:  # noqa: BLE001
        print(f"INCONCLUSIVE property={prop} reason=cannot-import-check:{type(e).__name__}:{e}")
        import traceback

        traceback.print_exc()
        return 2

    budget_s = args.budget_s
    if budget_s is None:
        budget_s = float(
            os.environ.get(
                "VERIF_BUDGET_S",
                getattr(mod, "QUICK_S", QUICK_BUDGET_S) if tier == "quick" else getattr(mod, "THOROUGH_S", THOROUGH_BUDGET_S),
            )
        )

    # ---- internal: one shard --------------------------------------------------
    if args.shard:
        i, n = (int(x) for x in args.shard.split("/"))
        ctx = Ctx(prop, tier, seed, i, n, budget_s)
        ctx.case_limit = args.cases
        d = run_shard(mod, ctx, props)
        with open(args.out, "w", encoding="utf-8") as fd:
            json.dump(d, fd, default=repr)
        return 0

    # ---- replay ---------------------------------------------------------------
    if args.replay:
        with open(args.replay, encoding="utf-8") as fd:
            rep = json.load(fd)
        ctx = Ctx(prop, tier, rep.get("seed", seed), 0, 1, None)
        d = run_shard(mod, ctx, props, replay_case=rep["case"])
        if d["violations"]:
            for v in d["violations"]:
                print(f"replay: signature={v['signature']} what={v['what']}")
            print(f"VIOLATION property={prop} replay={args.replay}")
            return 1
        if d["inconclusive"]:
            print(f"INCONCLUSIVE property={prop} reason={';'.join(d['inconclusive'])}")
            return 2
        print(f"replay of {args.replay}: held")
        return 0

    # ---- full run -------------------------------------------------------------
    nshards = args.shards or (1 if tier == "quick" else THOROUGH_SHARDS)
    nshards = getattr(mod, "SHARDS", {}).get(tier, nshards) if args.shards is None else nshards
    dumps: list[dict[str, Any]] = []
    if nshards == 1:
        ctx = Ctx(prop, tier, seed, 0, 1, budget_s)
        ctx.case_limit = args.cases
        dumps.append(run_shard(mod, ctx, props))
    else:
        tmpdir = tempfile.mkdtemp(prefix=f"verif-{prop}-", dir=os.environ.get("VERIF_TMP"))
        procs = []
        for i in range(nshards):
            out = os.path.join(tmpdir, f"shard{i}.json")
            cmd = [
                sys.executable,
                "-X",
                "faulthandler",
                "-m",
                "harness.cli",
                prop,
                "--tier",
                tier,
                "--seed",
                str(seed),
                "--shard",
                f"{i}/{nshards}",
                "--out",
                out,
                "--budget-s",
                str(budget_s),
            ]
            if args.cases is not None:
                cmd += ["--cases", str(args.cases)]
            procs.append((i, out, subprocess.Popen(cmd, stdout=subprocess.PIPE, stderr=subprocess.STDOUT)))
        watchdog = budget_s * 3 + 300
        failed = []
        for i, out, p in procs:
            try:
                so, _ = p.communicate(timeout=max(5.0, watchdog - (time.monotonic() - t0)))
            except subprocess.TimeoutExpired:
                p.kill()
                so, _ = p.communicate()
                failed.append(f"shard{i}:watchdog")
                continue
            if p.returncode != 0 or not os.path.exists(out):
                failed.append(f"shard{i}:exit{p.returncode}:{so.decode(errors='replace')[-400:]}")
                continue
            with open(out, encoding="utf-8") as fd:
                dumps.append(json.load(fd))
        for i, out, _ in procs:
            if os.path.exists(out):
                os.remove(out)
        try:
            os.rmdir(tmpdir)
        except OSError:
            pass
        if failed:
            dumps.append(
                {
                    "evaluations": 0, "hashes": [], "samples": [], "counters": {}, "observed": {},
                    "unspecified": 0, "violations": [], "inconclusive": ["shard failure: " + " | ".join(failed)],
                    "extra": {}, "wall_s": 0.0, "coverage": {"anchor_funcs": [], "anchor_lines": [], "anchor_lines_per_file": {}},
                    "coverage_total": {},
                }
            )

    merged = core.merge_dumps(dumps)
    funcs: set[str] = set()
    lines: set[str] = set()
    total: dict[str, int] = {}
    for d in dumps:
        funcs.update(d["coverage"]["anchor_funcs"])
        lines.update(d["coverage"]["anchor_lines"])
        total.update(d.get("coverage_total", {}))
    per_file: dict[str, int] = {}
    for ln in lines:
        f = ln.rsplit(":", 1)[0]
        per_file[f] = per_file.get(f, 0) + 1

    # required anchor functions
    missing = [f"{a}:{b}" for a, b in getattr(mod, "REQUIRED", []) if f"{a}:{b}" not in funcs]
    # an anchor that no longer exists under that name (renamed, inlined or moved by a refactor) cannot be "never entered": the
    # requirement is about the workload reaching the deciding code that is there, not about how the code is organised
    gone = [m for m in missing if not _defined(core.REPO, *m.split(":", 1))]
    if gone:
        merged.setdefault("extra", {})["anchor_functions_no_longer_defined"] = gone
    missing = [m for m in missing if m not in gone]
    if missing:
        merged["inconclusive"].append("anchor function(s) never entered: " + ", ".join(missing))
    min_eval = getattr(mod, "MIN_EVALUATIONS", 10)
    if merged["evaluations"] < min_eval:
        merged["inconclusive"].append(f"too few judged executions: {merged['evaluations']} < {min_eval}")
    for name, least in getattr(mod, "MIN_COUNTERS", {}).items():
        if merged["counters"].get(name, 0) < least:
            merged["inconclusive"].append(f"deciding monitor '{name}' observed {merged['counters'].get(name, 0)} < {least} events")

    known_hit, new, open_, fixed = classify(prop, merged)
    wall = time.monotonic() - t0

    # ---- report ---------------------------------------------------------------
    for sig, f in sorted(known_hit.items()):
        what = " ".join(str(f["what"]).split())[:400]
        print(f"KNOWN-FINDING: property={prop} {what} [signature={sig}; observed {merged['counters'].get('violation:' + sig, 0)}x]")
    rc = 0
    replay_paths = []
    seen_sigs = set()
    for v in new:
        if v["signature"] in seen_sigs:
            continue
        seen_sigs.add(v["signature"])
        if len(seen_sigs) > 15:
            continue  # counted below; the first 15 distinct signatures get a replay file and a line each
        path = write_replay(prop, v, seed, tier)
        replay_paths.append(path)
        print(f"violation: signature={v['signature']} what={' '.join(str(v['what']).split())[:600]}")
        print(f"VIOLATION property={prop} replay={path}")
        rc = 1
    if rc == 0 and merged["inconclusive"]:
        for r in merged["inconclusive"]:
            print(f"INCONCLUSIVE property={prop} reason={r}")
        rc = 2

    distinct = len(merged["hashes"])
    samples = merged["samples"] or ([merged["violations"][0]["case"]] if merged["violations"] else [])
    ev = {
        "property_id": prop,
        "tier": tier,
        "seed": seed,
        "level": getattr(mod, "LEVEL", "exploration"),
        "coverage": {
            "evaluations": merged["evaluations"],
            "distinct_nontrivial": distinct,
            "rule": getattr(mod, "RULE", ""),
            "samples": samples,
            "exhaustive": bool(merged["extra"].get("exhaustive", False)),
            "shards": nshards,
            "monitor_event_counters": {k: v for k, v in sorted(merged["counters"].items()) if not k.startswith("violation:")},
            "distinct_states_observed": {k: sorted(v)[:60] for k, v in sorted(merged["observed"].items())},
            "distinct_states_counts": {k: len(v) for k, v in sorted(merged["observed"].items())},
            "unspecified_skipped": merged["unspecified"],
            "anchor_functions_entered": sorted(funcs),
            "anchor_lines_observed_per_file": per_file,
            "anchor_lines_total_per_file": total,
            "required_anchor_functions_missing": missing,
            "known_findings_hit": {sig: merged["counters"].get("violation:" + sig, 0) for sig in known_hit},
            "pinned_witnesses": merged["extra"].get("pinned", []),
            "new_violation_signatures": sorted(seen_sigs),
            "inconclusive": merged["inconclusive"],
            "extra": {k: v for k, v in merged["extra"].items() if k not in ("pinned", "exhaustive")},
        },
        "assumptions": getattr(mod, "ASSUMPTIONS", []),
        "wall_s": round(wall, 2),
        "violations": len(seen_sigs),
    }
    if not args.no_evidence:
        err = validate_evidence(ev)
        os.makedirs(os.path.join(core.VERIF, "evidence"), exist_ok=True)
        with open(os.path.join(core.VERIF, "evidence", f"{prop}.json"), "w", encoding="utf-8") as fd:
            json.dump(ev, fd, indent=1, default=repr, ensure_ascii=True)
            fd.write("\n")
        if err and rc == 0:
            print(f"INCONCLUSIVE property={prop} reason=evidence-schema:{err}")
            rc = 2
    verdict = {0: "held", 1: "VIOLATED", 2: "inconclusive"}[rc]
    print(
        f"{prop} [{tier} seed={seed}] {verdict}: {merged['evaluations']} judged executions, "
        f"{distinct} distinct non-trivial, {merged['unspecified']} unspecified skipped, "
        f"{len(known_hit)} known findings, {len(seen_sigs)} new violation signatures, {wall:.1f}s"
    )
    return rc


if __name__ == "__main__":
    sys.exit(main())
