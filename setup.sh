#!/bin/sh
# MANIFEST.setup_cmd: offline install of the monitor libraries next to the repo's interpreter.
set -e
cd "$(dirname "$0")"
if [ ! -d .deps/icontract ] || [ ! -d .deps/jsonschema ]; then
  rm -rf .deps
  PIP_NO_INDEX=1 /venv/bin/pip install --quiet --no-index --find-links /opt/veriftools/wheels \
      --target .deps icontract deal jsonschema >/dev/null 2>&1 || {
    echo "setup: offline install of icontract/deal/jsonschema failed" >&2; exit 3; }
fi
mkdir -p evidence replays
echo "setup ok"
